"""C16 An outgoing payment is never paid twice nor beyond its amount; status truthful.

spec/PaymentStore - one specification for BOTH payment stores (paymentsdb.KVStore on bbolt behind
verifkit.DB, paymentsdb.SQLStore on SQLite):
  (a) exhaustive TLC on every call sequence of bounded length (invariants + action properties written
      from the property statement), plus two runs that show what the named deviations break;
  (b) TLC-generated behaviours (PaymentStoreGen) replayed on both real stores, a seeded sequential
      random driver, and a 2-4 goroutine concurrent driver (harness/payments/db/c16_test.go);
  (c) every recorded trace validated by TLC: PaymentStoreTrace (sequential: class, returned payment and
      all payments read back after every call) and PaymentStoreConc (concurrent: some linearization
      consistent with the start/end stamps must be a behaviour of the spec);
  (d) negative controls (a corrupted class, a corrupted state field, a corrupted read-back route field, a
      corrupted concurrent answer).

Attempts are ROUTES (b16): the model keeps the stored image of every attempt's route, decides the admission
of every later shard from it (verifyAttempt on the final hop of the stored routes) and demands
img = registered route (RoundTrip, AdmitByRegistered; MC over a universe of 64 route shapes); the executor
builds the real route.Route of every shape and records the route of every attempt as read back from BOTH
stores after every call (ConformRoute, ConformRetRoute, RecordedRoundTrip in PaymentStoreTrace).

A rejected trace is attributed by the trace spec itself: the same module with the deviation constant
TRUE announces every deviating step (`<<"QUIRK", key, line>>`); what it still rejects is another violation.
"""
import collections
import copy
import json
import os
import re
import shutil

from .. import core
from ..core import Inconclusive

SPEC = os.path.join(core.VERIF, "spec", "PaymentStore")
LEVEL = "model_checking"
PKG = "./payments/db/"
HARNESS = ["payments/db/c16_test.go"]
MC_WORKERS = int(os.environ.get("C16_MC_WORKERS", "8"))
INPUT_FIELDS = ("a", "h", "id", "shape", "rt", "fo", "fa", "rs")
# deviation constant of the specification that models each backend's named deviation
QUIRK_OF = {"kv": "KVDupQuirk", "sql": "F2Quirk"}
WHAT = {
    "F2": "SQLStore.%s(hash, attemptID) resolves an attempt that is registered under ANOTHER payment "
          "(KVStore refuses: 'not registered'); sql_store.go checks that the named payment is updatable and "
          "then inserts the resolution by attempt index alone",
    "kv-duplicate-attempt-id-accepted": "KVStore.RegisterAttempt accepts an attempt id that is already in use (%s) "
          "and overwrites the stored attempt, keeping its resolution (SQLStore refuses: UNIQUE(attempt_index)); "
          "kv_store.go has no uniqueness check before htlcsBucket.Put",
}


def is_reset(r):
    return r.get("a") == "Reset"


def overlay():
    """C16_OVERLAY='payments/db/sql_store.go=/path/patched.go,...' (mutation controls, candidate repairs)."""
    ov = {}
    for kv in filter(None, os.environ.get("C16_OVERLAY", "").split(",")):
        k, v = kv.split("=", 1)
        if not os.path.exists(v):
            raise Inconclusive("C16_OVERLAY: %s does not exist" % v)
        ov[k] = v
    return ov


def quirk_lines(out, recs):
    """{key: trace line} announced by the trace spec (the first admitted one, else the first)."""
    res = {}
    for m in re.finditer(r'<<"QUIRK", "([^"]+)", (\d+)>>', out):
        k, l = m.group(1), int(m.group(2))
        ok = recs[l - 1]["cls"] == "ok"
        if k not in res or (ok, -l) > res[k]:
            res[k] = (ok, -l)
    return {k: -v[1] for k, v in res.items()}


def schedule_of(recs):
    return [{k: r[k] for k in INPUT_FIELDS} for r in recs if not is_reset(r)]


def shape_of(rt):
    """Label of a route's shape (statistics and reports only; same classes as ShapeName in PaymentStore.tla)."""
    hops = rt.get("hops") or []
    if not hops:
        return ""
    f = hops[-1]
    dec = "".join(t for t, on in (("+cr", any(h["cr"] for h in hops)), ("+md", f["md"]), ("+firsthop", rt["fha"] or rt["fcr"])) if on)
    if f["enc"]:
        base = "blind+mpp" if f["ma"] else ("blind-intro-is-final" if f["bp"] else "blind")
        if not f["tot"]:
            base += "-nototal"
    else:
        base = "amp" if f["amp"] else ("mpp" if f["ma"] else "single")
    return "%s/%dhops%s" % (base, len(hops), dec)


def consts(be=None, quirk=False, **kw):
    c = {"F2Quirk": "FALSE", "KVDupQuirk": "FALSE", "Lossy": "{}"}
    if quirk and be:
        c[QUIRK_OF[be]] = "TRUE"
    c.update(kw)
    return c


def report(ck, be, key, what, recs, line, text=None, extra=None):
    """Store the single failing trace (and its schedule, for --replay) and record the violation."""
    a, b = core.slice_trace(recs, line or 1, is_reset)
    d = ck.scratch("fail_%s" % be)
    one = os.path.join(d, "trace.ndjson")
    core.write_ndjson(one, recs[a:b])
    sched = os.path.join(d, "b_1.ndjson")
    core.write_ndjson(sched, schedule_of(recs[a:b]))
    meta = os.path.join(d, "backend.txt")
    open(meta, "w").write(be + "\n")
    files = {"trace.ndjson": one, "b_1.ndjson": sched, "backend.txt": meta}
    files.update(extra or {})
    at = recs[min(max((line or 1) - 1, 0), len(recs) - 1)]
    brief = {k: at.get(k) for k in ("a", "h", "id", "shape", "cls", "err")}
    if at.get("rt", {}).get("hops"):
        brief["route"] = shape_of(at["rt"])
    ck.violation(key, "%s [backend=%s, trace line %s of the batch, call %s]" % (what, be, line, json.dumps(brief)),
                 files=files, text=text)


def judge_sequential(ck, be, recs, path, tag):
    """Strict validation; on rejection let the spec attribute it. Returns (accepted_constants, quirk_keys)."""
    v = ck.validate(SPEC, "PaymentStoreTrace", "PaymentStoreTrace.cfg", path, constants=consts(),
                    name="val_%s_%s" % (tag, be))
    if v["ok"]:
        return consts(), {}
    # which named deviation explains it?
    q = ck.validate(SPEC, "PaymentStoreTrace", "PaymentStoreTrace.cfg", path, constants=consts(be, True),
                    name="valq_%s_%s" % (tag, be))
    keys = quirk_lines(q["res"].out, recs)
    for key, line in sorted(keys.items()):
        fam = key.split(":")[0]
        what = WHAT.get(fam, "named deviation %s") % key.split(":")[-1]
        report(ck, be, key, "real %s store deviates from spec/PaymentStore: %s" % (be.upper(), what), recs, line,
               text="strict validation: %s at line %s\n%s" % (v["invariant"], v["line"], v["cex"]))
    if not q["ok"]:
        bad = recs[min((q["line"] or 1) - 1, len(recs) - 1)]
        report(ck, be, "paymentstore:%s:%s:%s" % (be, q["invariant"], bad.get("a")),
               "real %s store deviates from spec/PaymentStore beyond the named deviations (%s)" % (be.upper(), q["invariant"]),
               recs, q["line"], text=q["cex"])
        return None, keys
    if not keys:
        # rejected strictly, accepted with the constant, but nothing announced: cannot attribute
        raise Inconclusive("strict validation rejected (%s line %s) but no deviation was announced" % (v["invariant"], v["line"]))
    return consts(be, True), keys


def run_conc(ck, be, path, constants, name):
    """PaymentStoreConc on one batch: returns (accepted, first rejected Reset line, result)."""
    r = ck.tlc(SPEC, "PaymentStoreConc", "PaymentStoreConc.cfg", name=name, mode="trace", workers=1,
               files={"trace.ndjson": path}, constants=constants, timeout=1500)
    nlines = sum(1 for _ in open(path))
    ck.cov["validations"].append(dict(module="PaymentStoreConc", cfg="PaymentStoreConc.cfg", lines=nlines,
                                      wall_s=round(r.wall, 1), states=r.distinct,
                                      result=r.violation or r.error or "explored"))
    if r.error or r.violation:
        raise Inconclusive("PaymentStoreConc failed (%s): %s\n%s" % (name, r.error or r.violation, r.out[-3000:]))
    ok = set(int(x) for x in re.findall(r'<<"RUN-OK", (\d+)>>', r.out))
    recs = core.read_ndjson(path)
    resets = [i + 1 for i, x in enumerate(recs) if is_reset(x)]
    missing = [x for x in resets if x not in ok]
    core.log("  [conc] %s: %d runs, %d accepted, %d states, %.0fs" % (name, len(resets), len(ok), r.distinct, r.wall))
    return (not missing), (missing[0] if missing else None), r


# the read-back field each backend's control corrupts (two different ones, so that both kinds are shown to bind)
ROUTE_FIELD = {"kv": "tot", "sql": "mt"}


def bump(d, k):
    d[k] = d[k] + 1


def negative_controls(ck, be, recs, constants):
    """Corrupt one recorded field of an accepted trace; the validator must reject it."""
    done = []
    # (1) the class of an admitted Register becomes a refusal; (2) one attempt state read back is altered
    cands = [i for i, r in enumerate(recs) if r["a"] == "Register" and r["cls"] == "ok"]
    if not cands:
        raise Inconclusive("no admitted Register for the negative control")
    i = cands[len(cands) // 2]
    for label, mut in (("cls ok->exceeds", lambda r: r.__setitem__("cls", "exceeds")),
                       ("state: registered attempt read back as settled",
                        lambda r: r["s"][r["h"]]["att"].__setitem__(r["id"] - 1, "settled")),
                       ("state: remaining amount +1",
                        lambda r: r["s"][r["h"]].__setitem__("rem", r["s"][r["h"]]["rem"] + 1)),
                       ("route read back: a field of the registered attempt's final hop altered (%s)" % ROUTE_FIELD[be],
                        lambda r: bump(r["s"][r["h"]]["rt"][r["id"] - 1]["hops"][-1], ROUTE_FIELD[be])),
                       ("route returned by RegisterAttempt: first hop's channel id altered",
                        lambda r: bump(r["ret"]["rt"][r["id"] - 1]["hops"][0], "ch"))):
        a, b = core.slice_trace(recs, i + 1, is_reset)
        bad = copy.deepcopy(recs[a:b])
        mut(bad[i - a])
        p = os.path.join(ck.out, "control_%s_%d.ndjson" % (be, len(done)))
        core.write_ndjson(p, bad)
        v = ck.validate(SPEC, "PaymentStoreTrace", "PaymentStoreTrace.cfg", p, constants=constants,
                        name="control_%s_%d" % (be, len(done)))
        if v["ok"]:
            raise Inconclusive("negative control accepted (%s): trace validation is not binding" % label)
        done.append(dict(backend=be, mutation=label, rejected_by=v["invariant"], at_line=v["line"]))
    ck.cov.setdefault("negative_controls", []).extend(done)


def replay(ck):
    """--replay <violation dir>: re-execute the stored schedule on the current tree and judge it strictly."""
    d = ck.replay
    be = open(os.path.join(d, "backend.txt")).read().strip() if os.path.exists(os.path.join(d, "backend.txt")) else "sql"
    tmp = "/dev/shm/c16-%d" % os.getpid() if os.path.isdir("/dev/shm") else None
    if tmp:
        os.makedirs(tmp, exist_ok=True)
    try:
        res = ck.go_test(PKG, "^TestVerifC16Replay$", HARNESS, env={"VERIF_SCHED": d, **({"TMPDIR": tmp} if tmp else {})},
                         name="replay", timeout=900, extra_overlay=overlay())
    finally:
        if tmp:
            shutil.rmtree(tmp, ignore_errors=True)
    path = os.path.join(res["dir"], "replay_%s.ndjson" % be)
    if res["rc"] != 0 or not os.path.exists(path):
        raise Inconclusive("executor failed:\n" + res["out"][-3000:])
    recs = core.read_ndjson(path)
    ck.cov["evaluations"] = len(recs)
    judge_sequential(ck, be, recs, path, "replay")
    ck.cov["rule"] = "replay of one stored schedule"
    ck.cov["samples"] = [schedule_of(recs)[:6]]
    ck.cov["states"] = ck.cov["states"] or 1
    ck.cov["transitions"] = ck.cov["transitions"] or 1


def run(ck):
    if getattr(ck, "replay", None):
        return replay(ck)
    thorough = ck.tier == "thorough"
    ov = overlay()
    if ov:
        ck.notes.append("source overlay in effect: %s" % sorted(ov))

    # ---------------------------------------------------------------- (a) model checking
    # PaymentStoreMCFull: no bound on the length of the call sequence - the quotient of the state space by the
    # (sound) view is finite and is explored completely (51 484 states / diameter 11 for 3 attempt ids).
    dev = int(os.environ.get("C16_MC_MAXOPS", "0"))   # development aid: bounded run instead of the complete one
    if dev:
        ck.model_check(SPEC, "PaymentStoreMC", "PaymentStoreMC.cfg", "PaymentStore strict, call sequences <= %d (dev)" % dev,
                       constants=consts(MaxOps=dev), name="mc_dev", timeout=1500, workers=MC_WORKERS)
        ck.notes.append("C16_MC_MAXOPS=%d: bounded model checking run (development aid)" % dev)
    else:
        for na in ([3, 4] if thorough else [3]):
            ck.model_check(SPEC, "PaymentStoreMC", "PaymentStoreMCFull.cfg",
                           "PaymentStore strict, complete state space, 2 payments x %d attempt ids, value 3, "
                           "12 routes (one per admission class)" % na,
                           constants=consts(NA=na), name="mc_full_na%d" % na, timeout=1700, workers=MC_WORKERS)
        # the whole universe of route shapes (64 routes) meeting itself as "stored in flight" x "offered" in one payment
        for na in ([3, 4] if thorough else [3]):
            ck.model_check(SPEC, "PaymentStoreMC", "PaymentStoreMCRoutes.cfg",
                           "PaymentStore strict, complete state space, 1 payment x %d attempt ids, the universe of 64 route "
                           "shapes (RoundTrip, AdmitByRegistered)" % na,
                           constants=consts(NA=na), name="mc_routes_na%d" % na, timeout=900, workers=MC_WORKERS)
    ck.cov["exhaustive"] = True
    # a store that loses a hop field on the round trip (expected violations: RoundTrip / AdmitByRegistered bite)
    # (PaymentStoreMCLossy.cfg checks AdmitByRegistered alone: RoundTrip fails one step earlier)
    for lossy, cfg, expect in (('{"tot"}', "PaymentStoreMCRoutes.cfg", "RoundTrip"),
                               ('{"tot"}', "PaymentStoreMCLossy.cfg", "AdmitByRegistered"),
                               ('{"ma", "mt"}', "PaymentStoreMCLossy.cfg", "AdmitByRegistered"),
                               ('{"enc"}', "PaymentStoreMCLossy.cfg", "AdmitByRegistered")):
        r = ck.model_check(SPEC, "PaymentStoreMC", cfg,
                           "PaymentStore with a store losing %s (must violate %s)" % (lossy, expect), must_hold=False,
                           constants=consts(Lossy=lossy), name="mc_lossy", timeout=600, workers=1)
        if not r.violation or expect not in r.violation:
            raise Inconclusive("the specification with Lossy=%s does not violate %s (got %s): the property does not bind"
                               % (lossy, expect, r.violation))
        ck.notes.append("Lossy=%s violates %s (TLC, depth %d)" % (lossy, expect, r.depth))
    # what the two named deviations break (expected violations: evidence that the invariants bite)
    for const, expect in (("F2Quirk", "OwnHashOnly"), ("KVDupQuirk", "AttemptStable")):
        # (BFS with ONE worker: the shortest violation is Init, Register, Register resp. Init, Init, Register, Settle;
        #  with several workers a deeper violation of another invariant can be reported first under load)
        c = consts(MaxOps=5)
        c[const] = "TRUE"
        r = ck.model_check(SPEC, "PaymentStoreMC", "PaymentStoreMC.cfg", "PaymentStore with %s (must violate %s)" % (const, expect),
                           must_hold=False, constants=c, name="mc_" + const, timeout=600, workers=1)
        if not r.violation or expect not in r.violation:
            raise Inconclusive("the specification with %s=TRUE does not violate %s (got %s): the property does not bind"
                               % (const, expect, r.violation))
        ck.notes.append("%s=TRUE violates %s (TLC, depth %d)" % (const, expect, r.depth))

    # ---------------------------------------------------------------- (b) generate + execute
    nbeh, maxlen = (600, 36) if thorough else (150, 28)
    files = ck.generate(SPEC, "PaymentStoreGen", "PaymentStoreGen.cfg", nbeh, maxlen + 5,
                        constants={"MaxLen": maxlen}, name="gen", timeout=1200)
    sched = os.path.dirname(files[0])
    tmp = "/dev/shm/c16-%d" % os.getpid() if os.path.isdir("/dev/shm") else None
    env = {"VERIF_SCHED": sched, "VERIF_WORKERS": 4,
           "VERIF_RUNS": 500 if thorough else 120, "VERIF_STEPS": 40 if thorough else 30}
    if tmp:
        os.makedirs(tmp, exist_ok=True)
        env["TMPDIR"] = tmp      # bbolt / sqlite fsync on tmpfs
    try:
        res = ck.go_test(PKG, "^TestVerifC16(Replay|Random)$", HARNESS, env=env, name="exec", timeout=1500, extra_overlay=ov)
        cenv = dict(env, VERIF_RUNS=160 if thorough else 40, VERIF_STEPS=7 if thorough else 6)
        cres = ck.go_test(PKG, "^TestVerifC16Concurrent$", HARNESS, env=cenv, name="exec_conc", timeout=1500, extra_overlay=ov)
    finally:
        if tmp:
            shutil.rmtree(tmp, ignore_errors=True)
    for r in (res, cres):
        if r["rc"] != 0:
            raise Inconclusive("executor failed:\n" + r["out"][-4000:])

    # ---------------------------------------------------------------- (c) validate
    pairs = collections.Counter()
    shapes = collections.Counter()
    decor = collections.Counter()
    routes = set()
    second = collections.Counter()
    distinct = set()
    accepted = {}
    quirks = {}
    for be in ("kv", "sql"):
        recs = []
        for pre in ("replay", "random"):
            p = os.path.join(res["dir"], "%s_%s.ndjson" % (pre, be))
            if not os.path.exists(p):
                raise Inconclusive("executor wrote no %s" % p)
            recs += core.read_ndjson(p)
        path = os.path.join(ck.out, "seq_%s.ndjson" % be)
        core.write_ndjson(path, recs)
        ck.cov["evaluations"] += sum(1 for r in recs if not is_reset(r))
        ck.cov["traces_validated_against_impl"] += sum(1 for r in recs if is_reset(r))
        cur, nontrivial = [], False
        for r in recs + [{"a": "Reset"}]:
            if is_reset(r):
                if cur and nontrivial:
                    distinct.add(core.sha(be + str(cur)))
                cur, nontrivial = [], False
                continue
            pairs[(r["a"], r["cls"])] += 1
            if r["a"] == "Register":
                sh = shape_of(r["rt"])
                shapes[(sh.split("/")[0], "admitted" if r["cls"] == "ok" else "refused:" + r["cls"])] += 1
                for t in sh.split("/")[1].split("+"):
                    decor[t] += 1
                routes.add(json.dumps(r["rt"], sort_keys=True))
                # a shard admitted next to another in-flight shard: the admission was decided from a stored image
                if r["cls"] == "ok" and r["h"] in r["s"] and r["s"][r["h"]]["nin"] >= 2:
                    second[sh.split("/")[0]] += 1
            cur.append(tuple(r[k] for k in INPUT_FIELDS))
            nontrivial = nontrivial or (r["cls"] == "ok" and r["a"] not in ("Fetch", "FetchInFlight"))
        accepted[be], quirks[be] = judge_sequential(ck, be, recs, path, "seq")
        if accepted[be] is not None:
            negative_controls(ck, be, recs, accepted[be])
        if be == "sql":
            ck.cov["samples"].append({"backend": be, "first_calls": [
                {k: r[k] for k in ("a", "h", "id", "shape", "cls")} for r in recs[1:7]]})

    # concurrent runs: the deviation constants follow what the sequential part found in this tree
    for be in ("kv", "sql"):
        p = os.path.join(cres["dir"], "conc_%s.ndjson" % be)
        recs = core.read_ndjson(p)
        ncalls = sum(1 for r in recs if not is_reset(r))
        ck.cov["evaluations"] += ncalls
        if accepted[be] is None:
            ck.notes.append("concurrent runs of the %s store not judged: its sequential traces are already rejected" % be)
            continue
        c = consts(be, bool(quirks.get(be)))
        ok, first_bad, r = run_conc(ck, be, p, c, "conc_%s" % be)
        nruns = sum(1 for x in recs if is_reset(x))
        if ok:
            ck.cov["traces_validated_against_impl"] += nruns
            # negative control: a refused call of the last run is recorded as admitted (or vice versa)
            bad = copy.deepcopy(recs)
            idx = [i for i, x in enumerate(bad) if x["a"] in ("Init", "Register") and i > len(bad) - 20]
            if idx:
                j = idx[0]
                bad[j]["cls"] = "exists" if bad[j]["cls"] == "ok" else "ok"
                pc = os.path.join(ck.out, "control_conc_%s.ndjson" % be)
                core.write_ndjson(pc, bad)
                ok2, _, _ = run_conc(ck, be, pc, c, "control_conc_%s" % be)
                if ok2:
                    raise Inconclusive("negative control accepted by PaymentStoreConc (%s)" % be)
                ck.cov.setdefault("negative_controls", []).append(
                    dict(backend=be, mutation="concurrent call %d class flipped" % (j + 1), rejected_by="no linearization"))
        else:
            strict_note = ""
            if c != consts():
                strict_note = " (deviation constants %s were allowed)" % c
            a, b = core.slice_trace(recs, first_bad, is_reset)
            d = ck.scratch("fail_conc_%s" % be)
            one = os.path.join(d, "trace.ndjson")
            core.write_ndjson(one, recs[a:b])
            ck.violation("paymentstore:%s:concurrent:no-linearization" % be,
                         "concurrent history on the real %s store has no linearization that is a behaviour of "
                         "spec/PaymentStore%s: run at line %d (%d goroutines)" % (be.upper(), strict_note, first_bad, recs[a]["th"]),
                         files={"trace.ndjson": one}, text=r.out[-6000:])
        if be == "kv":
            ck.cov["samples"].append({"backend": be, "concurrent_calls": [
                {k: x[k] for k in ("a", "h", "id", "cls", "t0", "t1", "th")} for x in recs[4:9]]})

    ck.cov["distinct_nontrivial"] = len(distinct)
    ck.cov["rule"] = ("behaviours generated by TLC -simulate from PaymentStoreGen (both deviation constants on, so that "
                      "histories using an attempt id under the other payment's hash and duplicate ids are generated) plus seeded "
                      "random histories, each replayed on a fresh KVStore and a fresh SQLStore; every Register carries a route "
                      "from the universe of shapes of PaymentStore.tla (1-3 hops, single/MPP/AMP/blinded with the introduction "
                      "node at every position incl. the final hop, custom records, metadata, first-hop data) built as a real "
                      "route.Route, and the route of every attempt is read back after every call; distinct = distinct "
                      "(backend, call sequence with arguments) having >= 1 admitted state-changing call; concurrent runs: "
                      "2-4 goroutines x 6-7 calls after a 3-call prefix")
    ck.cov["op_class_pairs"] = {"%s/%s" % k: n for k, n in sorted(pairs.items())}
    ck.cov["route_shapes_registered"] = {"%s -> %s" % k: n for k, n in sorted(shapes.items())}
    ck.cov["route_hops_and_decorations"] = dict(sorted(decor.items()))
    ck.cov["distinct_routes_registered"] = len(routes)
    ck.cov["shards_admitted_next_to_inflight_shard"] = dict(second)
    if not ck.violations and not (second.get("blind-intro-is-final") and second.get("blind") and second.get("mpp")):
        raise Inconclusive("no second shard admitted for some route family (%s): the route universe is not exercised" % dict(second))
    ck.cov["trusted_base"] = ["TLC 1.8.0", "CommunityModules Json",
                              "executor projection (field copies of *MPPayment read back through FetchPayment; attempts by id; "
                              "routes hop by hop: keys / blobs / record sets are decoded to the small ids of the fixed values they "
                              "were built from, anything else reads as -1)",
                              "executor error classification (errors.Is on the package sentinels; 5 text patterns for "
                              "refusals that have no sentinel: 'not registered', 'htlcs bucket not found', "
                              "'non bucket element', SQLite FOREIGN KEY / UNIQUE constraint names)",
                              "abstraction: amounts in units of 1000 msat; a route is (total amount, time lock, first-hop amount / "
                              "records, source, hops x 12 fields), see PaymentStore.tla"]
    ck.assumptions += ["bbolt and SQLite backends only (Postgres/etcd are not available offline)",
                       "onion blobs/session keys/timestamps/attempt hash are not part of the abstract state; routes are well-formed "
                       "per the field comments of route.Hop (MPP/AMP/metadata/total only where documented) plus the ill-formed "
                       "ones verifyAttempt refuses; LegacyPayload hops and zero-hop routes are outside the universe",
                       "concurrent driver: the linearization search sees call start/end stamps, not commit order"]
