"""C13 Contract resolution survives restarts: same outcome, nothing skipped or repeated.

spec/Arbitrator - the ChannelArbitrator's closing state machine with its durable log, the resolver
goroutines, the world's chain events, and Crash/Restart as ordinary actions:
  (a) exhaustive TLC: the repaired design (all invariants, NoLoss action property, CHECK_DEADLOCK =
      "every behaviour that can go no further has reached the reference outcome of its scenario"),
      the crash-free code-as-is model (fixes the reference outcome), and one run per named deviation
      (F8, F9, FCC, H3) which must EXHIBIT the finding on the model;
  (b) crash plans: every single crash point of every scenario in both variants and crash point 0
      (enumerated by the executor from its reference run), double crashes (thorough), multi-crash
      plans derived from TLC-simulated behaviours of ArbitratorGen, seeded random plans;
  (c) harness/contractcourt/c13_test.go runs every plan on the REAL ChannelArbitrator + real
      boltArbitratorLog behind verifkit.DB and records every durable write with the durable state
      read back from the database, every resolution message / published tx / sweep request and every
      environment event;
  (d) ArbitratorTrace validates every line (action enabled + durable state equal) and judges the
      terminal outcome of every run against the reference (C13VERDICT); the first run of every
      failing class is re-validated alone with the strict configuration (VerdictInv as an invariant)
      for the replay directory;
  (e) negative controls: a corrupted persisted `resolved` flag and a truncated final write.

Findings are attributed by the trace spec itself (variable `quirks`: which named deviation of the model
the run went through); what ends badly without one is reported as an unclassified violation.
C13_FIXED=F8,F9,FCC (or a VERIF_MUTATION diff whose name contains these tags / ALL) validates against
the repaired model - used to check candidate repairs.

Follow-up b13 - three new dimensions:
  * channel type: every close scenario with HTLC outputs also exists for anchor (zero-fee second level through the
    sweeper) and simple-taproot channels ("alocal", "tcontest", ...; real taproot script trees / control blocks in the
    fixtures, channel type read from the real channel db); every input handed to the sweeper is recorded with its
    outpoint role and whether it carries a control block (Sweep lines, invariant SweepsSignable);
  * outpoint-faithful chain: for zero-fee types the second-level tx that confirms is a sweeper-re-signed one (another
    txid), spends are delivered per outpoint only, a sweep confirms only for a signable request of that outpoint, and
    every spend registration of a resolver is recorded (Watch lines: must name an outpoint that Exists on the model's
    chain - the output of the pre-signed tx never does);
  * part M - spec/Arbitrator/ChainArb{,MC,Gen,Trace}.tla + harness/contractcourt/c13_chainarb_test.go: the real
    ChainArbitrator.Start/loadPendingCloseChannels on a real channeldb with 1-3 pending-close channels of different
    profiles (legacy/taproot, commit sweep / + HTLC timeout / + anchor), stops at every durable write, restarts;
    after every write the durable state of EVERY channel is read back (pending/closed, log state, contracts, reports);
    keys "C13:ChainArb:<invariant>:<event>".

Follow-up b13e - two sibling parts for the two ends of the hand-offs that the main part only had as world bits:
  * part B - spec/Arbitrator/BreachJustice{,MC,Gen,Trace}.tla + harness/contractcourt/c13_breach_test.go: the breach
    scenario with the REAL BreachArbitrator (real RetributionStore on the real channeldb: handleBreachHandoff, start()
    with its reconciliation of the store against closed channels, exactRetribution, cleanupBreach) and the REAL
    breachResolver persisted in a real boltArbitratorLog; plans of driver tokens (hand-off, mark pending, insert /
    relaunch the resolver, breach tx confirms, counterparty takes an output, justice tx confirms, stop+start of BOTH) with
    a stop at every position, an injected stop at the k-th durable write (Add, MarkFullyClosed, Remove, Checkpoint),
    double stops, and plans from TLC-simulated behaviours; after every line the durable state (retribution present,
    channel open/pending/closed, resolver record none/unres/res) is read back; keys "C13:Breach:<invariant>:<event>";
  * part S - spec/Arbitrator/SwitchRes{,MC,Gen,Trace}.tla + harness/htlcswitch/c13_res_test.go: the last leg of "each
    upstream HTLC is settled or failed back the same way": ProcessContractResolution on the REAL Switch with a real
    channeldb (resolution message store, ACK, forwarder, incoming link's mailbox, circuit teardown, link flaps) and
    Stop / reopen / Start (reforwardResolutions); every packet the incoming link is handed is recorded with its kind and
    the class of its failure reason as the upstream peer can read it; keys "C13:SwitchRes:<invariant>:<event>/<kind>".
"""
import collections
import copy
import json
import os
import re

from .. import core
from ..core import Inconclusive

SPEC = os.path.join(core.VERIF, "spec", "Arbitrator")
LEVEL = "model_checking"
PKG = "./contractcourt/"
MC_WORKERS = int(os.environ.get("C13_MC_WORKERS", "4"))
HARNESS = ["contractcourt/c13_test.go", "contractcourt/c13_chainarb_test.go", "contractcourt/c13_breach_test.go"]
QUICK_SCEN = ["local", "remote", "localfar", "alocal", "tcontest", "tsuccess"]
BASE_SCEN = ["local", "remote", "localfar", "contest", "rcontest", "claim", "success", "breach", "coop", "shift", "rshift"]
TYPED = ["local", "remote", "contest", "rcontest", "claim", "success"]
ALL_SCEN = BASE_SCEN + ["a" + x for x in TYPED] + ["t" + x for x in TYPED]
M_SETS_QUICK = ["c1+c2", "c2+c3", "c1+c2+c3"]
M_SETS_ALL = ["c2", "c1+c2", "c1+c3", "c2+c3", "c1+c2+c3"]
QUIRKS = ("F8", "F9", "FCC")
CONST = {"F8": "F8Fixed", "F9": "F9Fixed", "FCC": "FccFixed"}

WHAT = {
    "F8": "crash between a resolver's final Checkpoint(resolved=true) and ResolveContract: after the restart "
          "relaunchResolvers loads the contract, launchResolvers skips it as already resolved and resolveContract's "
          "loop never runs, so it is never removed from the contracts bucket and the channel stays in "
          "StateWaitingFullResolution for ever (never marked fully resolved)",
    "F9": "the dust fail-back of a user/chain triggered close (stateStep StateDefault -> abandonForwards) reaches the "
          "switch before CommitState(StateBroadcastCommit); a crash in between (crash point 0) with all HTLCs far from "
          "expiry leaves an OPEN channel in StateDefault whose offered dust HTLC has already been failed upstream",
    "FCC": "a restart in StateContractClosed (crash between CommitState(StateContractClosed) and "
           "CommitState(StateWaitingFullResolution)) re-executes the state with chainTrigger; checkCommitChainActions "
           "returns an EMPTY action map for chainTrigger unless some HTLC is within the broadcast delta at the closing "
           "height, so no resolver is created, no incoming dust HTLC is finalised, and the channel is marked fully "
           "resolved with its HTLC outputs unclaimed and the upstream HTLCs never settled/failed (or, if the resolvers "
           "were already written, they are never launched and the channel is stranded until the next restart)",
    "H3": "re-executing StateContractClosed after a restart writes fresh resolvers OVER records that a resolver had "
          "already swapped/checkpointed before StateWaitingFullResolution was committed: checkpointed progress is "
          "lost (and redone) - benign in every observed run (same terminal outcome)",
}
KEYS = {
    "F8": "F8:crash-between-final-checkpoint-and-resolve:%s",
    "F9": "F9:failback-before-durable-close-decision:%s",
    "FCC": "FCC:restart-in-contract-closed-drops-htlc-classification:%s",
    "H3": "H3:reinsert-overwrites-checkpointed-resolver:%s",
}


def is_reset(r):
    return r.get("a") == "Reset"


# deviations that have been repaired in /repo by fix: commits (F8 970176d, FCC = F19 cba9243): the committed
# spec describes the repaired behaviour, a regression is a conformance violation
REPAIRED_IN_TREE = {"F8", "FCC"}


def fixed_set():
    fx = set(filter(None, os.environ.get("C13_FIXED", "").split(","))) | set(REPAIRED_IN_TREE)
    mut = os.path.basename(os.environ.get("VERIF_MUTATION", ""))
    if mut:
        if "ALL" in mut:
            fx |= set(QUIRKS)
        for q in QUIRKS:
            if re.search(r"(^|[^0-9A-Za-z])%s([^0-9]|$)" % q, mut):
                fx.add(q)
    return fx


def trace_consts(fx):
    return {"F8Fixed": "TRUE" if "F8" in fx else "FALSE",
            "F9Fixed": "TRUE" if "F9" in fx else "FALSE",
            "FccFixed": "TRUE" if "FCC" in fx else "FALSE"}


def tla_set(xs):
    return "{" + ", ".join('"%s"' % x for x in xs) + "}"


# ------------------------------------------------------------------------------------------------ (a)
def model_checks(ck, thorough):
    ncr = 8 if thorough else 2
    scen = tla_set(ALL_SCEN)
    base = {"Scenarios": scen, "MaxCrashes": ncr, "EnvAtomic": "FALSE"}
    ck.model_check(SPEC, "ArbitratorMC", "ArbitratorMC.cfg", "repaired design, <= %d crashes, all scenarios" % ncr,
                   constants=base, workers=MC_WORKERS, timeout=1500, name="mc_repaired")
    asis = dict(base, F8Fixed="FALSE", F9Fixed="FALSE", FccFixed="FALSE", MaxCrashes=0)
    ck.model_check(SPEC, "ArbitratorMC", "ArbitratorMC.cfg", "code as is, crash-free: reference outcome reached",
                   constants=asis, workers=MC_WORKERS, timeout=900, name="mc_crashfree")
    shown = {}
    for q in QUIRKS:
        c = dict(base, MaxCrashes=2)
        c[CONST[q]] = "FALSE"
        r = ck.model_check(SPEC, "ArbitratorMC", "ArbitratorMC.cfg", "model with the code's %s behaviour" % q,
                           must_hold=False, constants=c, workers=MC_WORKERS, timeout=900, name="mc_" + q)
        if r.violation != "deadlock":
            raise Inconclusive("spec/Arbitrator with %s=FALSE no longer exhibits %s (got %s)" % (CONST[q], q, r.violation))
        m = re.findall(r'(?m)^/\\ scen = "(\w+)"', r.cex or "")
        shown[q] = dict(result="stuck short of the reference outcome (TLC deadlock)", scenario=m[-1] if m else "?",
                        states=r.distinct)
    c = dict(base, MaxCrashes=1, CommitBeforeCheckpoint="FALSE")
    r = ck.model_check(SPEC, "ArbitratorMC", "ArbitratorMC.cfg", "without the commit-before-checkpoint assumption (H3)",
                       must_hold=False, constants=c, workers=MC_WORKERS, timeout=900, name="mc_H3")
    if not (r.violation or "").startswith("property"):
        raise Inconclusive("spec/Arbitrator no longer exhibits H3 without CommitBeforeCheckpoint (got %s)" % r.violation)
    shown["H3"] = dict(result="NoLossProp violated (checkpointed record overwritten)", states=r.distinct)
    ck.cov["model_exhibits"] = shown
    ck.cov["exhaustive"] = True


# ------------------------------------------------------------------------------------------------ (b)
def plans_from_behaviours(files):
    plans, seen = [], set()
    for f in files:
        hist = core.read_ndjson(f)
        if not hist:
            continue
        sc = hist[0]["sc"]
        crashes, n, last = [], 0, ""
        for e in hist:
            t = e["t"]
            if t == "C":
                crashes.append({"n": n, "v": "A" if last == "w" and n > 0 else "B"})
            elif t == "R":
                n = 0
            elif t == "w":
                n += 1
            last = t
        key = (sc, tuple((c["n"], c["v"]) for c in crashes))
        if crashes and key not in seen:
            seen.add(key)
            plans.append({"sc": sc, "crashes": crashes, "ref": False})
    return plans


def generate_plans(ck, scen, thorough):
    plans = []
    for nc, num in ((2, 300 if thorough else 80), (3, 300 if thorough else 0)):
        if not num:
            continue
        files = ck.generate(SPEC, "ArbitratorGen", "ArbitratorGen.cfg", num, 120,
                            constants={"Scenarios": tla_set(scen), "NC": nc, "MaxCrashes": nc, "CrashOdds": 8},
                            name="gen_nc%d" % nc, timeout=600)
        plans += plans_from_behaviours(files)
    return plans


# ------------------------------------------------------------------------------------------------ (d)
def split_runs(recs):
    runs, cur = [], None
    for i, r in enumerate(recs):
        if is_reset(r):
            cur = dict(start=i, plan=r.get("plan", ""), sc=r["sc"])
            runs.append(cur)
        cur["end"] = i + 1
    return runs


def classify(q, end):
    """Which named deviation explains a bad terminal outcome: the deviations the run went through (`quirks`
    of the trace spec) matched against the recorded terminal state."""
    un = end.get("un") or []
    if "F9" in q and end["st"] == "Default":
        return "F9"
    if "F8" in q and end["st"] == "WaitingFullResolution" and any(u["r"] == 1 for u in un):
        return "F8"
    if "FCC" in q:
        return "FCC"
    return None


def judge(ck, recs, path, fx, tag):
    """Validate a batch; returns (runs, verdicts {run index: (ok, quirks)})."""
    runs = split_runs(recs)
    consts = trace_consts(fx)
    skip = set()
    for attempt in range(len(ALL_SCEN) + 2):
        if skip:
            keep = [r for k, run in enumerate(runs) if k not in skip for r in recs[run["start"]:run["end"]]]
            p = os.path.join(ck.out, "%s_retry%d.ndjson" % (tag, attempt))
            core.write_ndjson(p, keep)
            kept = [k for k in range(len(runs)) if k not in skip]
        else:
            p, keep, kept = path, recs, list(range(len(runs)))
        v = ck.validate(SPEC, "ArbitratorTrace", "ArbitratorTrace.cfg", p, constants=consts,
                        name="val_%s_%d" % (tag, attempt), timeout=1800)
        out = v["res"].out
        if v["ok"]:
            break
        # a step of the real code that the model does not allow / a durable state that differs
        line = v["line"] or 1
        kruns = split_runs(keep)
        idx = next((j for j, rn in enumerate(kruns) if rn["start"] < line <= rn["end"]), len(kruns) - 1)
        k = kept[idx]
        run = runs[k]
        bad = keep[min(line - 1, len(keep) - 1)]
        d = ck.scratch("nonconform_%s" % tag)
        one = os.path.join(d, "trace.ndjson")
        core.write_ndjson(one, recs[run["start"]:run["end"]])
        pl = os.path.join(d, "plan.ndjson")
        core.write_ndjson(pl, [plan_of(run)])
        ck.violation("C13:%s:%s/%s:%s" % (v["invariant"], bad.get("a"), bad.get("w") or bad.get("k"), run["sc"]),
                     "real ChannelArbitrator deviates from spec/Arbitrator (%s) in run %s at line %s of the batch: %s" % (
                         v["invariant"], run["plan"], line, json.dumps({x: bad.get(x) for x in
                                                                        ("a", "w", "h", "k", "st", "un", "lbl")})),
                     files={"trace.ndjson": one, "plan.ndjson": pl}, text=v["cex"])
        # the other runs of the scenario are not judged (a step-level deviation is systematic): drop them
        skip |= {j for j, rn in enumerate(runs) if rn["sc"] == run["sc"]}
        if len(skip) == len(runs):
            return runs, {}
    else:
        raise Inconclusive("trace validation did not converge")
    verdicts = {}
    kruns = split_runs(keep)
    ends = {rn["end"]: kept[j] for j, rn in enumerate(kruns)}
    for m in re.finditer(r'<<"C13VERDICT", (\d+), "(\w+)", (\{[^}]*\})>>', out):
        l, ok, qs = int(m.group(1)), m.group(2) == "ok", set(re.findall(r'"(\w+)"', m.group(3)))
        if l in ends:
            verdicts[ends[l]] = (ok, qs)
    missing = [k for k in kept if k not in verdicts]
    if missing:
        raise Inconclusive("no verdict for %d runs (first: %s)" % (len(missing), runs[missing[0]]["plan"]))
    return runs, verdicts


def plan_of(run):
    sc, _, cs = run["plan"].partition(":")
    crashes = [{"n": int(x[:-1]), "v": x[-1]} for x in cs.split(",") if x]
    return {"sc": sc, "crashes": crashes, "ref": not crashes}


def strict_replay(ck, recs, run, fx, name):
    """Re-validate one run alone with VerdictInv / NoLossTProp as hard checks."""
    d = ck.scratch(name)
    one = os.path.join(d, "trace.ndjson")
    core.write_ndjson(one, recs[run["start"]:run["end"]])
    pl = os.path.join(d, "plan.ndjson")
    core.write_ndjson(pl, [plan_of(run)])
    v = ck.validate(SPEC, "ArbitratorTrace", "ArbitratorTraceStrict.cfg", one, constants=trace_consts(fx),
                    name=name + "_val", timeout=600)
    return v, {"trace.ndjson": one, "plan.ndjson": pl}


def report_findings(ck, recs, runs, verdicts, fx):
    by_key = collections.OrderedDict()
    for k in sorted(verdicts):
        ok, qs = verdicts[k]
        run = runs[k]
        end = recs[run["end"] - 1]
        stalled = any(r["a"] == "Stall" for r in recs[run["start"]:run["end"]])
        if not ok and not stalled:
            fam = classify(qs, end)
            key = (KEYS[fam] % run["sc"]) if fam else "C13:terminal-outcome-differs:%s:ends-in-%s" % (run["sc"], end["st"])
            by_key.setdefault(key, (fam, []))[1].append(k)
        if "H3" in qs:
            by_key.setdefault(KEYS["H3"] % run["sc"], ("H3", []))[1].append(k)
        # the live node stopped answering (twice: in the pool and alone with three times the patience) although the
        # crash-free reference run of the scenario completed in the same process: no progress IS the symptom
        stall = next((r for r in recs[run["start"]:run["end"]] if r["a"] == "Stall"), None)
        if stall is not None:
            where = re.sub(r"\(\d+\)", "", stall["k"])
            by_key.setdefault("C13:no-progress:%s:%s-in-%s" % (run["sc"], where, stall["st"]), ("STALL", []))[1].append(k)
    for key, (fam, ks) in by_key.items():
        run = runs[ks[0]]
        end = recs[run["end"] - 1]
        v, files = strict_replay(ck, recs, run, fx, "strict_" + re.sub(r"\W+", "_", key)[:40])
        if fam == "STALL":
            st = next(r for r in recs[run["start"]:run["end"]] if r["a"] == "Stall")
            obs = [(r["a"] + ":" + (r["w"] or r["k"] or r["h"])) for r in recs[run["start"]:run["end"]] if r["a"] != "Block"]
            ck.violation(key, "the live node makes no progress: %s does not return (also not when the plan is re-run alone with "
                              "three times the patience) while the crash-free reference run of scenario %s completed in the same "
                              "process; %d run(s): %s; last durable state: log state %s, %d unresolved contract(s), closed=%s "
                              "fully-closed=%s wiped=%s; last events: %s" % (
                                  st["k"], run["sc"], len(ks), ", ".join(runs[k]["plan"] for k in ks[:8]), st["st"],
                                  len(st["un"]), st["cl"], st["rd"], st.get("wp"), " ".join(obs[-8:])),
                         files=files, text=v["cex"] or "")
            continue
        if v["ok"]:
            raise Inconclusive("strict validation accepts run %s that the batch judged %s" % (run["plan"], key))
        what = WHAT.get(fam, "terminal outcome differs from the reference run and no named deviation explains it")
        ck.violation(key, "%s [scenario %s; %d run(s): %s; first ends in state %s with %d unresolved contract(s), "
                          "resolved-in-channeldb=%s; strict validation: %s]" % (
                              what, run["sc"], len(ks), ", ".join(runs[k]["plan"] for k in ks[:8]), end["st"],
                              len(end["un"]), end["rd"], v["invariant"]),
                     files=files, text=v["cex"])
    return by_key


# ------------------------------------------------------------------------------------------------ (e)
def negative_controls(ck, recs, runs, verdicts, fx):
    ref = next((k for k in sorted(verdicts) if verdicts[k][0] and not plan_of(runs[k])["crashes"]
                and any(r.get("w") == "Checkpoint" for r in recs[runs[k]["start"]:runs[k]["end"]])), None)
    if ref is None:
        if ck.violations:
            ck.notes.append("negative controls skipped: no conforming reference run with a checkpoint is left")
            return
        raise Inconclusive("no accepted reference run with a checkpoint for the negative controls")
    one = recs[runs[ref]["start"]:runs[ref]["end"]]
    controls = []
    # 1. a persisted `resolved` flag that the code did not write
    bad = copy.deepcopy(one)
    i = next(j for j, r in enumerate(bad) if r.get("w") == "Checkpoint")
    bad[i]["un"][0]["r"] = 1 - bad[i]["un"][0]["r"]
    p = os.path.join(ck.out, "control_flag.ndjson")
    core.write_ndjson(p, bad)
    v = ck.validate(SPEC, "ArbitratorTrace", "ArbitratorTraceStrict.cfg", p, constants=trace_consts(fx), name="control_flag")
    if v["ok"]:
        raise Inconclusive("negative control accepted: corrupted resolved flag")
    controls.append(dict(mutation="resolved flag flipped at line %d" % (i + 1), rejected_by=v["invariant"], at_line=v["line"]))
    # 2. a run that stops before the channel is marked resolved must fail the verdict
    j = next(k for k, r in enumerate(one) if r.get("w") == "MarkResolved")
    end = copy.deepcopy(one[j - 1])
    end.update(a="End", w="", n=0, h="", k="", lbl="")
    cut = copy.deepcopy(one[:j]) + [end]
    p = os.path.join(ck.out, "control_verdict.ndjson")
    core.write_ndjson(p, cut)
    v = ck.validate(SPEC, "ArbitratorTrace", "ArbitratorTraceStrict.cfg", p, constants=trace_consts(fx), name="control_verdict")
    if v["ok"] or "VerdictInv" not in (v["invariant"] or ""):
        raise Inconclusive("negative control: truncated run not rejected by VerdictInv (%s)" % v["invariant"])
    controls.append(dict(mutation="run truncated before MarkChanFullyClosed", rejected_by=v["invariant"], at_line=v["line"]))
    ck.cov["negative_controls"] = controls


# ------------------------------------------------------------------------------------------------ run
def lnd_panic(out):
    """(top lnd frame, excerpt) of a panic in the code under test, or None."""
    i = out.find("\npanic: ")
    if i < 0:
        i = out.find("fatal error: ")
    if i < 0:
        return None
    txt = out[i:i + 6000]
    frames = [f for f in re.findall(r"lightningnetwork/lnd/contractcourt\.(\(\*\w+\)\.\w+|\w+)\(", txt)
              if "c13" not in f]
    return (frames[0] if frames else "unknown"), txt[:3000]


def execute(ck, env, name, race=False):
    e = {"TMPDIR": "/dev/shm" if os.path.isdir("/dev/shm") else "/tmp",
         "VERIF_C13_WORKERS": os.environ.get("C13_EXEC_WORKERS", "6")}
    e.update(env)
    for attempt in range(3):
        res = ck.go_test(PKG, "^TestVerifC13Arbitrator$", HARNESS, env=e, name="%s%s" % (name, attempt or ""),
                         timeout=2400, race=race)
        trace = os.path.join(res["dir"], "trace.ndjson")
        pan = lnd_panic(res["out"])
        if pan and not race:
            # the code under test crashed the process: that is behaviour of the real code, not of the harness
            prog = os.path.join(res["dir"], "progress.log")
            inflight = []
            if os.path.exists(prog):
                st = collections.Counter()
                for ln in open(prog):
                    k, _, p = ln.strip().partition(" ")
                    st[p.strip()] += {"start": 1, "done": -1}.get(k, 0)
                inflight = [p for p, n in st.items() if n > 0]
            log_ = os.path.join(res["dir"], "go.out")
            ck.violation("C13:panic:%s" % pan[0],
                         "the real code panicked during a crash run (plans in flight: %s); top lnd frame %s. A panic in "
                         "(*ChannelArbitrator).launchResolvers is the data race FRACE: launchResolvers iterates the backing array "
                         "of c.activeResolvers outside activeResolversLock while replaceResolver swaps an element (contest -> "
                         "timeout/success resolver at the same block): torn interface read, nil-pointer dereference in the "
                         "channelAttendant goroutine" % (", ".join(inflight[:8]), pan[0]),
                         files={"go.out": log_, "progress.log": prog if os.path.exists(prog) else None}, text=pan[1])
            continue
        break
    else:
        raise Inconclusive("the code under test panicked in three consecutive executor runs")
    if race:
        return res
    if "HARNESS-ERROR" in res["out"]:
        m = re.findall(r"HARNESS-ERROR (.*)", res["out"])
        raise Inconclusive("executor could not complete %d run(s) (environment, not judged): %s" % (len(m), m[:3]))
    if res["rc"] != 0 or not os.path.exists(trace):
        raise Inconclusive("executor failed:\n" + res["out"][-3000:])
    return trace


def race_run(ck):
    """Thorough tier: the swap scenarios under the race detector; races inside lnd's own code are reported."""
    res = execute(ck, {"VERIF_C13_ENUM": "contest,success", "VERIF_C13_WORKERS": 2}, "race", race=True)
    out = res["out"]
    reports = out.split("WARNING: DATA RACE")[1:]
    pairs = collections.Counter()
    first = {}
    for rep in reports:
        rep = rep.split("==================")[0]
        tops = []
        for blk in re.split(r"\n\n", rep):
            m = re.search(r"(?m)^(?:Write|Read|Previous write|Previous read) at .*\n\s+(\S+)\(\)", blk)
            if m:
                tops.append(m.group(1).split("/")[-1])
        tops = [x for x in tops if "c13" not in x]
        if len(tops) >= 2 and all("contractcourt." in x for x in tops[:2]):
            key = " vs ".join(sorted(x.split(".")[-1] for x in tops[:2]))
            pairs[key] += 1
            first.setdefault(key, rep[:3500])
    ck.cov["race_run"] = dict(reports=len(reports), lnd_pairs=dict(pairs))
    for key, n in pairs.items():
        fam = "FRACE:data-race-activeResolvers" if "launchResolvers" in key and "replaceResolver" in key else "C13:data-race"
        ck.violation("%s:%s" % (fam, re.sub(r"[^\w.]+", "-", key).replace("-vs-", "-vs-")),
                     "go test -race reports a data race inside contractcourt (%d report(s)): %s. launchResolvers copies only "
                     "the slice header of c.activeResolvers under the lock and then reads the elements while replaceResolver "
                     "(under the lock) overwrites one in place; with a block that both expires a contested HTLC and triggers "
                     "the block beat, the torn interface read crashes the attendant goroutine (observed as SIGSEGV in "
                     "launchResolvers in a non-race run)" % (n, key),
                     files={"go.out": os.path.join(res["dir"], "go.out")}, text=first[key])



# ------------------------------------------------------------------------------------------------ part M
# the start-up layer: ChainArbitrator with several pending-close channels (spec/Arbitrator/ChainArb*.tla)
def m_is_reset(r):
    return r.get("a") == "Reset"


def m_model_checks(ck, thorough):
    ncr = 3 if thorough else 1
    r = ck.model_check(SPEC, "ChainArbMC", "ChainArbMC.cfg",
                       "ChainArb: 1-3 pending-close channels, every interleaving, <= %d stops" % ncr,
                       constants={"MaxCrashes": ncr}, workers=MC_WORKERS, timeout=1500, name="mc_chainarb")
    shown = {}
    for cfg, inv, what in (("ChainArbCross.cfg", "ClosedOnlyAfterOwnContracts",
                            "control: a notification that resolves ANOTHER channel must break ClosedOnlyAfterOwnContracts"),
                           ("ChainArbRep.cfg", "ReportsBelong",
                            "control: a report filed under another channel must break ReportsBelong")):
        c = ck.model_check(SPEC, "ChainArbMC", cfg, what, must_hold=False, workers=MC_WORKERS, timeout=600,
                           name="mc_" + cfg.split(".")[0])
        if inv not in (c.violation or ""):
            raise Inconclusive("spec/Arbitrator/ChainArb: %s did not break %s (got %s)" % (cfg, inv, c.violation))
        shown[inv] = dict(result="violated by the cross-channel control action, as it must", states=c.distinct)
    ck.cov["chainarb_model"] = dict(states=r.distinct, transitions=r.generated, max_crashes=ncr, controls=shown)


def m_plans_from_behaviours(files):
    plans, seen = [], set()
    for f in files:
        hist = core.read_ndjson(f)
        if not hist:
            continue
        cs = sorted(hist[0]["cs"])
        order, crashes, n, last = [], [], 0, ""
        for e in hist:
            t = e["t"]
            if t == "C":
                crashes.append({"n": n, "v": "A" if last == "w" and n > 0 else "B"})
            elif t == "R":
                n = 0
            elif t == "w":
                n += 1
            elif t == "d":
                order.append([e["c"], e["k"]])
            last = t
        key = (tuple(cs), tuple(map(tuple, order)), tuple((c["n"], c["v"]) for c in crashes))
        if crashes and key not in seen:
            seen.add(key)
            plans.append({"cs": cs, "order": order, "crashes": crashes})
    return plans


def m_execute(ck, env, name):
    e = {"TMPDIR": "/dev/shm" if os.path.isdir("/dev/shm") else "/tmp",
         "VERIF_C13_WORKERS": os.environ.get("C13_EXEC_WORKERS", "6")}
    e.update(env)
    res = ck.go_test(PKG, "^TestVerifC13ChainArb$", HARNESS, env=e, name=name, timeout=1800)
    trace = os.path.join(res["dir"], "trace_m.ndjson")
    pan = lnd_panic(res["out"])
    if pan:
        prog = os.path.join(res["dir"], "progress_m.log")
        ck.violation("C13:ChainArb:panic:%s" % pan[0],
                     "the real code panicked while the ChainArbitrator ran with several pending-close channels; top lnd "
                     "frame %s" % pan[0],
                     files={"go.out": os.path.join(res["dir"], "go.out"),
                            "progress_m.log": prog if os.path.exists(prog) else None}, text=pan[1])
        return None
    if "HARNESS-ERROR" in res["out"]:
        m = re.findall(r"HARNESS-ERROR (.*)", res["out"])
        raise Inconclusive("ChainArb executor could not complete %d run(s) (environment, not judged): %s" % (len(m), m[:3]))
    if res["rc"] != 0 or not os.path.exists(trace):
        raise Inconclusive("ChainArb executor failed:\n" + res["out"][-3000:])
    return trace


def m_runs(recs):
    runs, cur = [], None
    for i, r in enumerate(recs):
        if m_is_reset(r):
            cur = dict(start=i, plan=r.get("plan", ""), cs=r.get("cs", []))
            runs.append(cur)
        cur["end"] = i + 1
    return runs


def m_plan_of(run):
    cs, order, cr = (run["plan"].split("|") + ["", ""])[:3]
    return {"cs": [x for x in cs.split("+") if x],
            "order": [x.split(".") for x in order.split(",") if x],
            "crashes": [{"n": int(x[:-1]), "v": x[-1]} for x in cr.split(",") if x]}


def m_text(one):
    out = []
    for r in one:
        chs = " ".join("%s[%s %s un=%s rp=%s]" % (c["id"], {1: "pending", 2: "closed"}.get(c["pd"], c["pd"]), c["st"],
                                               ",".join("%s%s" % (u["k"], "*" if u["r"] else "") for u in c["un"]) or "-",
                                               ",".join("%s@%s" % (x["k"], x["own"]) for x in c["rp"]) or "-")
                       for c in r["chs"])
        out.append("%-9s %-16s c=%-2s k=%-6s rc=%-2s cb=%d | %s" % (r["a"], r["w"], r["c"], r["k"], r["rc"], r["cb"], chs))
    return "\n".join(out)


def m_judge(ck, trace, tag, replay=False):
    """Validate the batch; a rejection is reported (first one) - returns (recs, runs, rejected)."""
    recs = core.read_ndjson(trace)
    runs = m_runs(recs)
    for r in recs:
        if r["a"] == "Stall":
            run = next(x for x in runs if recs.index(r) < x["end"])
            d = ck.scratch("m_stall")
            one = os.path.join(d, "trace_m.ndjson")
            core.write_ndjson(one, recs[run["start"]:run["end"]])
            pl = os.path.join(d, "plan_m.ndjson")
            core.write_ndjson(pl, [m_plan_of(run)])
            ck.violation("C13:ChainArb:no-progress:%s" % r["k"],
                         "the live ChainArbitrator does not stop (plan %s)" % run["plan"],
                         files={"trace_m.ndjson": one, "plan_m.ndjson": pl}, text=m_text(recs[run["start"]:run["end"]]))
            return recs, runs, True
    v = ck.validate(SPEC, "ChainArbTrace", "ChainArbTrace.cfg", trace, name="val_m_" + tag, timeout=1800)
    if v["ok"]:
        return recs, runs, False
    line = v["line"] or 1
    run = next((x for x in runs if x["start"] < line <= x["end"]), runs[-1])
    bad = recs[min(line - 1, len(recs) - 1)]
    d = ck.scratch("m_nonconform")
    one = os.path.join(d, "trace_m.ndjson")
    core.write_ndjson(one, recs[run["start"]:run["end"]])
    pl = os.path.join(d, "plan_m.ndjson")
    core.write_ndjson(pl, [m_plan_of(run)])
    inv = (v["invariant"] or "?").replace("invariant ", "").replace("property ", "")
    ck.violation("C13:ChainArb:%s:%s/%s" % (inv, bad.get("a"), bad.get("w") or bad.get("k")),
                 "real ChainArbitrator with pending-close channels {%s} breaks spec/Arbitrator/ChainArb (%s) in run %s at line "
                 "%d of the batch: event %s %s on channel %s (contract %s, report filed under %s); per-channel effects must "
                 "land on the channel they belong to and a channel is marked fully closed only after all ITS contracts are "
                 "resolved" % (",".join(run["cs"]), v["invariant"], run["plan"], line, bad.get("a"), bad.get("w"),
                               bad.get("c") or "-", bad.get("k") or "-", bad.get("rc") or "-"),
                 files={"trace_m.ndjson": one, "plan_m.ndjson": pl},
                 text=m_text(recs[run["start"]:min(line + 1, run["end"])]) + "\n\n" + (v["cex"] or ""))
    return recs, runs, True


def m_negative_controls(ck, recs, runs):
    """Corrupted recorded fields of an accepted multi-channel run must be rejected."""
    cands = sorted((r for r in runs if len(r["cs"]) >= 2 and r["plan"].endswith("|")), key=lambda r: -len(r["cs"]))
    ref = cands[0] if cands else None
    if ref is None:
        raise Inconclusive("ChainArb: no crash-free multi-channel run for the negative controls")
    one = recs[ref["start"]:ref["end"]]
    controls = []
    # 1. the report of a checkpoint is found under ANOTHER channel
    bad = copy.deepcopy(one)
    i = next(j for j, r in enumerate(bad) if r.get("w") == "Checkpoint" and r.get("rc"))
    src = bad[i]["c"]
    dst = next(c for c in ref["cs"] if c != src)
    for r in bad[i:]:
        chs = {c["id"]: c for c in r["chs"]}
        moved = [x for x in chs[src]["rp"] if x["k"] == bad[i]["k"]]
        chs[src]["rp"] = [x for x in chs[src]["rp"] if x["k"] != bad[i]["k"]]
        chs[dst]["rp"] = sorted(chs[dst]["rp"] + moved, key=lambda x: x["k"] + x["own"])
    bad[i]["rc"] = dst
    p = os.path.join(ck.out, "control_m_report.ndjson")
    core.write_ndjson(p, bad)
    v = ck.validate(SPEC, "ChainArbTrace", "ChainArbTrace.cfg", p, name="control_m_report")
    if v["ok"] or "ReportsBelong" not in (v["invariant"] or ""):
        raise Inconclusive("ChainArb negative control: misfiled report not rejected by ReportsBelong (%s)" % v["invariant"])
    controls.append(dict(mutation="report of %s/%s moved under %s at line %d" % (src, bad[i]["k"], dst, i + 1),
                         rejected_by=v["invariant"], at_line=v["line"]))
    # 2. the fully-closed mark lands on a channel that still has unresolved contracts
    bad = copy.deepcopy(one)
    i = next((j for j, r in enumerate(bad) if r.get("w") == "MarkResolved"
              and any(c["pd"] == 1 and c["un"] for c in r["chs"])), None)
    if i is not None:
        src = bad[i]["c"]
        dst = next(c["id"] for c in bad[i]["chs"] if c["pd"] == 1 and c["un"])
        for c in bad[i]["chs"]:
            if c["id"] == src:
                c["pd"] = 1
            if c["id"] == dst:
                c["pd"] = 2
        bad[i]["c"] = dst
        p = os.path.join(ck.out, "control_m_mark.ndjson")
        core.write_ndjson(p, bad[:i + 1])
        v = ck.validate(SPEC, "ChainArbTrace", "ChainArbTrace.cfg", p, name="control_m_mark")
        if v["ok"] or "ClosedOnlyAfterOwnContracts" not in (v["invariant"] or ""):
            raise Inconclusive("ChainArb negative control: misdirected fully-closed mark not rejected (%s)" % v["invariant"])
        controls.append(dict(mutation="MarkChanFullyClosed of %s recorded on %s (unresolved contracts) at line %d" % (
            src, dst, i + 1), rejected_by=v["invariant"], at_line=v["line"]))
    # 3. a sweep input of the taproot channel without its control block
    bad = copy.deepcopy(one)
    i = next((j for j, r in enumerate(bad) if r["a"] == "Sweep" and r["cb"] == 1), None)
    if i is not None:
        bad[i]["cb"] = 0
        p = os.path.join(ck.out, "control_m_cb.ndjson")
        core.write_ndjson(p, bad[:i + 1])
        v = ck.validate(SPEC, "ChainArbTrace", "ChainArbTrace.cfg", p, name="control_m_cb")
        if v["ok"] or "SweepsSignable" not in (v["invariant"] or ""):
            raise Inconclusive("ChainArb negative control: sweep without control block not rejected (%s)" % v["invariant"])
        controls.append(dict(mutation="control block flag cleared on Sweep %s/%s at line %d" % (bad[i]["c"], bad[i]["k"], i + 1),
                             rejected_by=v["invariant"], at_line=v["line"]))
    ck.cov["chainarb_negative_controls"] = controls


def part_m(ck, thorough):
    m_model_checks(ck, thorough)
    files = ck.generate(SPEC, "ChainArbGen", "ChainArbGen.cfg", 400 if thorough else 120, 200,
                        constants={"NC": 3 if thorough else 2, "MaxCrashes": 3, "CrashOdds": 10},
                        name="gen_chainarb", timeout=600)
    plans = m_plans_from_behaviours(files)
    pf = os.path.join(ck.out, "plans_m.ndjson")
    core.write_ndjson(pf, plans)
    sets = M_SETS_ALL if thorough else M_SETS_QUICK
    trace = m_execute(ck, {"VERIF_C13M_SETS": ",".join(sets), "VERIF_C13M_ENUM": 1, "VERIF_C13M_PLANS": pf,
                           "VERIF_C13M_RANDOM": 120 if thorough else 20}, "exec_m")
    if trace is None:
        return
    recs, runs, rejected = m_judge(ck, trace, "all")
    if not rejected:
        m_negative_controls(ck, recs, runs)
    writes = collections.Counter(r["w"] for r in recs if r["w"])
    distinct = set()
    for run in runs:
        distinct.add(core.sha(str(run["cs"]) + str([(r["a"], r["w"], r["c"], r["k"]) for r in recs[run["start"]:run["end"]]])))
    ck.cov["chainarb"] = dict(runs=len(runs), lines=len(recs), from_model_behaviours=len(plans),
                              per_channel_set=dict(collections.Counter("+".join(r["cs"]) for r in runs)),
                              multi_crash=sum(1 for r in runs if len(m_plan_of(r)["crashes"]) > 1),
                              write_kinds_executed=dict(writes), distinct_interleavings=len(distinct),
                              rejected=rejected)
    ck.cov["evaluations"] += len(recs)
    ck.cov["traces_validated_against_impl"] += len(runs)
    ck.cov["distinct_nontrivial"] += len(distinct)
    for run in runs[:1]:
        ck.cov["samples"].append({"chainarb_plan": run["plan"],
                                  "events": ["%s:%s:%s" % (r["a"], r["w"] or r["k"], r["c"]) for r in
                                             recs[run["start"]:run["end"]]][:60]})


# ------------------------------------------------------------------------------------------------ part B
# the breach scenario with the real BreachArbitrator + breachResolver (spec/Arbitrator/BreachJustice*.tla)
B_TOKENS = {"H", "M", "I", "L", "C", "Tl", "Tr", "J", "X"}


def b_model_checks(ck, thorough):
    ncr = 6 if thorough else 3
    r = ck.model_check(SPEC, "BreachJusticeMC", "BreachJusticeMC.cfg",
                       "BreachJustice: hand-off, start-up reconciliation, justice, breach resolver, <= %d stops" % ncr,
                       constants={"MaxCrashes": ncr}, workers=2, timeout=900, name="mc_breach")
    shown = {}
    for cfg, inv, what in (("BreachJusticeDrop.cfg", "RetKept",
                            "control: start() dropping the retribution of a PENDING-close channel must break RetKept"),
                           ("BreachJusticeEarly.cfg", "ResolvedOnlyAfterJustice",
                            "control: a breach resolver that checkpoints without waiting must break ResolvedOnlyAfterJustice")):
        c = ck.model_check(SPEC, "BreachJusticeMC", cfg, what, must_hold=False, workers=2, timeout=600,
                           name="mc_" + cfg.split(".")[0])
        if inv not in (c.violation or ""):
            raise Inconclusive("spec/Arbitrator/BreachJustice: %s did not break %s (got %s)" % (cfg, inv, c.violation))
        shown[inv] = dict(result="violated by the control action, as it must", states=c.distinct)
    ck.cov["breach_model"] = dict(states=r.distinct, transitions=r.generated, max_crashes=ncr, controls=shown)


def b_plans_from_behaviours(files):
    plans, seen = [], set()
    for f in files:
        toks = [e["t"] for e in core.read_ndjson(f) if e["t"] in B_TOKENS]
        if "X" in toks and tuple(toks) not in seen:
            seen.add(tuple(toks))
            plans.append({"toks": toks, "stop": 0})
    return plans


def b_execute(ck, env, name):
    res = ck.go_test(PKG, "^TestVerifC13Breach$", HARNESS, env=env, name=name, timeout=1800)
    trace = os.path.join(res["dir"], "trace_b.ndjson")
    pan = lnd_panic(res["out"])
    if pan:
        ck.violation("C13:Breach:panic:%s" % pan[0],
                     "the real code panicked while the BreachArbitrator / breachResolver ran a stop plan; top lnd frame %s" % pan[0],
                     files={"go.out": os.path.join(res["dir"], "go.out")}, text=pan[1])
        return None
    if "HARNESS-ERROR" in res["out"]:
        raise Inconclusive("Breach executor could not complete (environment, not judged): %s" %
                           re.findall(r"HARNESS-ERROR (.*)", res["out"])[:3])
    if res["rc"] != 0 or not os.path.exists(trace):
        raise Inconclusive("Breach executor failed:\n" + res["out"][-3000:])
    return trace


def b_runs(recs):
    runs, cur = [], None
    for i, r in enumerate(recs):
        if r["a"] == "Reset":
            cur = dict(start=i, plan=r.get("plan", ""))
            runs.append(cur)
        cur["end"] = i + 1
    return runs


def b_plan_of(run):
    toks, _, stop = run["plan"].partition("|")
    return {"toks": [x for x in toks.split(".") if x], "stop": int(stop or 0)}


def b_text(one):
    return "\n".join("%-11s %-16s %-6s ins=%-18s cp=%d r=%d err=%d | ret=%d chan=%-7s resolver=%s" % (
        r["a"], r["w"], r["o"], ",".join(r["ins"]), r["cp"], r["r"], r["err"], r["ret"], r["ch"], r["rr"]) for r in one)


def b_judge(ck, trace, tag):
    recs = core.read_ndjson(trace)
    runs = b_runs(recs)
    stall = next((r for r in recs if r["a"] == "Stall"), None)
    if stall is not None:
        # a wait of the driver ran out (60 s): under load this is not a verdict about the code
        raise Inconclusive("Breach executor: the node did not get to a rest state within the patience (%s)" % stall["w"])
    v = ck.validate(SPEC, "BreachJusticeTrace", "BreachJusticeTrace.cfg", trace, name="val_b_" + tag, timeout=1800)
    if v["ok"]:
        return recs, runs, False
    line = v["line"] or 1
    run = next((x for x in runs if x["start"] < line <= x["end"]), runs[-1])
    bad = recs[min(line - 1, len(recs) - 1)]
    d = ck.scratch("b_nonconform")
    one = os.path.join(d, "trace_b.ndjson")
    core.write_ndjson(one, recs[run["start"]:run["end"]])
    pl = os.path.join(d, "plan_b.ndjson")
    core.write_ndjson(pl, [b_plan_of(run)])
    inv = (v["invariant"] or "?").replace("invariant ", "").replace("property ", "")
    ck.violation("C13:Breach:%s:%s/%s" % (inv, bad.get("a"), bad.get("w") or bad.get("o") or "-"),
                 "real BreachArbitrator / breachResolver break spec/Arbitrator/BreachJustice (%s) in run %s at line %d of the "
                 "batch: event %s %s with durable state retribution=%s channel=%s breach-resolver=%s. The model allows the "
                 "retribution of a breached channel to leave the store only through cleanupBreach (after every breached "
                 "output is spent and the channel is marked fully closed) or, at start-up, for a channel that IS fully "
                 "closed; the breach contract is checkpointed resolved only after that, and a run with stops ends like the "
                 "uninterrupted one (channel closed, store empty, resolver resolved, all outputs swept)" % (
                     v["invariant"], run["plan"], line, bad.get("a"), bad.get("w") or bad.get("o") or "",
                     bad.get("ret"), bad.get("ch"), bad.get("rr")),
                 files={"trace_b.ndjson": one, "plan_b.ndjson": pl},
                 text=b_text(recs[run["start"]:min(line + 1, run["end"])]) + "\n\n" + (v["cex"] or ""))
    return recs, runs, True


def b_negative_controls(ck, recs, runs):
    ref = next((r for r in runs if "X" not in r["plan"] and r["plan"].endswith("|0")
                and any(x["a"] == "Subscribe" and x["cp"] == 0 for x in recs[r["start"]:r["end"]])), None)
    if ref is None:
        raise Inconclusive("Breach: no uninterrupted run with a waiting resolver for the negative controls")
    one = recs[ref["start"]:ref["end"]]
    controls = []

    def check(name, bad, want):
        p = os.path.join(ck.out, "control_b_%s.ndjson" % name)
        core.write_ndjson(p, bad)
        v = ck.validate(SPEC, "BreachJusticeTrace", "BreachJusticeTrace.cfg", p, name="control_b_" + name)
        if v["ok"] or want not in (v["invariant"] or ""):
            raise Inconclusive("Breach negative control %s not rejected by %s (%s)" % (name, want, v["invariant"]))
        return dict(rejected_by=v["invariant"], at_line=v["line"])

    # 1. the retribution read back as gone while the channel is pending
    bad = copy.deepcopy(one)
    i = next(j for j, r in enumerate(bad) if r["a"] == "MarkPending")
    bad[i]["ret"] = 0
    controls.append(dict(mutation="retribution flag cleared at line %d (MarkPending)" % (i + 1), **check("ret", bad, "Conform")))
    # 2. SubscribeBreachComplete answers `complete` although the retribution is still there
    bad = copy.deepcopy(one)
    i = next(j for j, r in enumerate(bad) if r["a"] == "Subscribe" and r["cp"] == 0)
    bad[i]["cp"] = 1
    controls.append(dict(mutation="Subscribe answer flipped to complete at line %d" % (i + 1), **check("sub", bad, "deadlock")))
    # 3. the run ends before the channel is fully closed
    i = next(j for j, r in enumerate(one) if r["w"] == "MarkFullyClosed")
    end = copy.deepcopy(one[i - 1])
    end.update(a="End", w="", o="", ins=[], cp=0, r=0, err=0)
    controls.append(dict(mutation="run truncated before MarkChanFullyClosed", **check("verdict", copy.deepcopy(one[:i]) + [end],
                                                                                  "VerdictInv")))
    ck.cov["breach_negative_controls"] = controls


def part_b(ck, thorough, replay_plan=None):
    if replay_plan:
        trace = b_execute(ck, {"VERIF_C13B_ENUM": 0, "VERIF_C13B_PLANS": replay_plan}, "replay_b")
        if trace is not None:
            recs, runs, _ = b_judge(ck, trace, "replay")
            ck.cov.update(states=1, transitions=1, evaluations=len(recs), traces_validated_against_impl=len(runs))
        return
    b_model_checks(ck, thorough)
    files = ck.generate(SPEC, "BreachJusticeGen", "BreachJusticeGen.cfg", 300 if thorough else 60, 80,
                        constants={"NC": 3 if thorough else 2, "MaxCrashes": 3}, name="gen_breach", timeout=600)
    plans = b_plans_from_behaviours(files)
    pf = os.path.join(ck.out, "plans_b.ndjson")
    core.write_ndjson(pf, plans)
    trace = b_execute(ck, {"VERIF_C13B_ENUM": 1, "VERIF_C13B_PLANS": pf}, "exec_b")
    if trace is None:
        return
    recs, runs, rejected = b_judge(ck, trace, "all")
    if not rejected:
        b_negative_controls(ck, recs, runs)
    distinct = set(core.sha(str([(r["a"], r["w"], r["o"], r["cp"], tuple(r["ins"])) for r in recs[x["start"]:x["end"]]]))
                   for x in runs)
    ck.cov["breach"] = dict(runs=len(runs), lines=len(recs), from_model_behaviours=len(plans),
                            with_injected_stop=sum(1 for x in runs if not x["plan"].endswith("|0")),
                            with_restart=sum(1 for x in runs if any(r["a"] == "Started" for r in recs[x["start"]:x["end"]])),
                            start_up_reconciliations=sum(1 for i, r in enumerate(recs) if r["w"] == "Remove" and i + 1 < len(recs)
                                                         and recs[i + 1]["a"] == "Started"),
                            write_kinds_executed=dict(collections.Counter(r["w"] for r in recs if r["a"] == "Write")),
                            distinct_event_sequences=len(distinct), rejected=rejected)
    ck.cov["evaluations"] += len(recs)
    ck.cov["traces_validated_against_impl"] += len(runs)
    ck.cov["distinct_nontrivial"] += len(distinct)
    for x in runs[:1]:
        ck.cov["samples"].append({"breach_plan": x["plan"],
                                  "events": ["%s:%s" % (r["a"], r["w"] or r["o"] or ",".join(r["ins"])) for r in
                                             recs[x["start"]:x["end"]]][:40]})



# ------------------------------------------------------------------------------------------------ part S
# the last leg: contract court ResolutionMsg -> htlcswitch (store, ACK, forwarder, incoming link's mailbox, teardown,
# restart replay) (spec/Arbitrator/SwitchRes*.tla, harness/htlcswitch/c13_res_test.go)
PKG_S = "./htlcswitch/"
HARNESS_S = ["htlcswitch/c13_res_test.go"]
S_INVS = ("SameWay", "NoContradiction", "NoLoss", "Held", "NothingBeforeIssue", "ConformStore", "ConformCircuit")


def s_is_reset(r):
    return r.get("a") == "Reset"


def s_model_checks(ck, thorough):
    r = ck.model_check(SPEC, "SwitchResMC", "SwitchResMC.cfg",
                       "SwitchRes: one forwarded HTLC, fail|settle resolution, link A up/down, every interleaving of "
                       "deliver/recv/teardown/link flap, <= %d restarts, <= %d sends" % ((3, 3) if thorough else (2, 2)),
                       constants={"MaxRestarts": 3 if thorough else 2, "MaxSends": 3 if thorough else 2},
                       workers=2, timeout=600, name="mc_switchres")
    c = ck.model_check(SPEC, "SwitchResMC", "SwitchResMCQuirk.cfg",
                       "control: a restart replay that is not flagged as a resolution must break SameWay",
                       must_hold=False, workers=2, timeout=300, name="mc_switchres_quirk")
    if "SameWay" not in (c.violation or ""):
        raise Inconclusive("spec/Arbitrator/SwitchRes: SwitchResMCQuirk.cfg did not break SameWay (got %s)" % c.violation)
    ck.cov["switchres_model"] = dict(states=r.distinct, transitions=r.generated, depth=r.depth,
                                     max_restarts=3 if thorough else 2,
                                     controls={"SameWay": "violated by the unflagged-replay control, as it must"})


def s_plans_from_behaviours(files):
    plans, seen = [], set()
    for f in files:
        hist = core.read_ndjson(f)
        if not hist:
            continue
        steps = (["LinkDown"] if hist[0]["link"] == "down" else []) + [e["a"] for e in hist if e["a"] != "Recv"]
        # cut the tail after the last event that matters (trailing link flaps add nothing)
        while steps and steps[-1] in ("LinkDown",):
            steps.pop()
        key = (hist[0]["kind"], tuple(steps))
        if "Deliver" in steps and key not in seen:
            seen.add(key)
            plans.append({"kind": hist[0]["kind"], "steps": steps})
    return plans


def s_execute(ck, env, name):
    e = {"TMPDIR": "/dev/shm" if os.path.isdir("/dev/shm") else "/tmp"}
    e.update(env)
    res = ck.go_test(PKG_S, "^TestVerifC13SwitchRes$", HARNESS_S, env=e, name=name, timeout=1500)
    trace = os.path.join(res["dir"], "trace_s.ndjson")
    pan = lnd_panic(res["out"])
    if pan:
        ck.violation("C13:SwitchRes:panic:%s" % pan[0],
                     "the real htlcswitch panicked while a contract resolution was delivered / replayed; top lnd frame %s" % pan[0],
                     files={"go.out": os.path.join(res["dir"], "go.out")}, text=pan[1])
        return None
    if "HARNESS-ERROR" in res["out"]:
        m = re.findall(r"HARNESS-ERROR (.*)", res["out"])
        raise Inconclusive("SwitchRes executor could not complete %d run(s) (environment, not judged): %s" % (len(m), m[:3]))
    if res["rc"] != 0 or not os.path.exists(trace):
        raise Inconclusive("SwitchRes executor failed:\n" + res["out"][-3000:])
    return trace


def s_runs(recs):
    runs, cur = [], None
    for i, r in enumerate(recs):
        if s_is_reset(r):
            cur = dict(start=i, plan=r.get("plan", ""), kind=r.get("kind", ""))
            runs.append(cur)
        cur["end"] = i + 1
    return runs


def s_plan_of(run):
    kind, _, steps = run["plan"].partition(":")
    return {"kind": kind, "steps": [x for x in steps.split(",") if x]}


def s_text(one):
    return "\n".join("%-9s e=%d | stored=%d(%s) open_circuits=%d | link A got: %s" % (
        r["a"], r["e"], r["st"], r["stk"], r["op"],
        "-" if r["a"] != "Recv" else "%s reason=%s preimage_ok=%d" % (r["pk"], r["rs"], r["pi"])) for r in one)


def s_judge(ck, trace, tag):
    """Validate the batch; the first rejection is reported - returns (recs, runs, rejected)."""
    recs = core.read_ndjson(trace)
    runs = s_runs(recs)
    v = ck.validate(SPEC, "SwitchResTrace", "SwitchResTrace.cfg", trace, name="val_s_" + tag, timeout=600)
    if v["ok"]:
        return recs, runs, False
    line = v["line"] or 1
    run = next((x for x in runs if x["start"] < line <= x["end"]), runs[-1])
    bad = recs[min(line - 1, len(recs) - 1)]
    d = ck.scratch("s_nonconform")
    one = os.path.join(d, "trace_s.ndjson")
    core.write_ndjson(one, recs[run["start"]:run["end"]])
    pl = os.path.join(d, "plan_s.ndjson")
    core.write_ndjson(pl, [s_plan_of(run)])
    inv = (v["invariant"] or "?").replace("invariant ", "").replace("property ", "")
    what = {
        "SameWay": "the incoming link was handed a response that is not the one an uninterrupted run produces (a fail must be "
                   "a FailPermanentChannelFailure the first hop can read, a settle must carry the preimage)",
        "NoContradiction": "the incoming link was handed both a fail and a settle for the same HTLC",
        "NoLoss": "an ACKed resolution is not in the resolution store although its circuit is still open",
        "Held": "an ACKed resolution whose circuit is open is not held for the incoming link",
        "ConformStore": "the resolution store content differs from the model's",
        "ConformCircuit": "the number of open circuits differs from the model's",
        "deadlock": "the model does not allow this step here (a response that was never issued, a response that is missing, "
                    "or an unexpected error of the call)",
    }.get(inv, inv)
    ck.violation("C13:SwitchRes:%s:%s/%s" % (inv, bad.get("a"), run["kind"]),
                 "real htlcswitch breaks spec/Arbitrator/SwitchRes (%s) in run '%s' at line %d of the batch, event %s: %s. "
                 "Recorded: stored msgs=%s(%s) open circuits=%s; packet kind=%s reason=%s preimage_ok=%s"
                 % (v["invariant"], run["plan"], line, bad.get("a"), what, bad.get("st"), bad.get("stk"), bad.get("op"),
                    bad.get("pk"), bad.get("rs"), bad.get("pi")),
                 files={"trace_s.ndjson": one, "plan_s.ndjson": pl},
                 text=s_text(recs[run["start"]:min(line + 1, run["end"])]) + "\n\n" + (v["cex"] or ""))
    return recs, runs, True


def s_negative_controls(ck, recs, runs):
    """Corrupted recorded fields of an accepted run must be rejected."""
    controls = []

    def pick(cond):
        for run in runs:
            one = recs[run["start"]:run["end"]]
            for j, r in enumerate(one):
                if cond(run, one, j, r):
                    return copy.deepcopy(one), j
        return None, None

    # 1. the replayed/forwarded failure is not readable by the upstream peer
    bad, i = pick(lambda run, one, j, r: r["a"] == "Recv" and r["rs"] == "perm" and any(x["a"] == "Restart" for x in one[:j]))
    if bad is None:
        bad, i = pick(lambda run, one, j, r: r["a"] == "Recv" and r["rs"] == "perm")
    if bad is None:
        raise Inconclusive("SwitchRes: no accepted run with a delivered failure for the negative control")
    bad[i]["rs"] = "unreadable"
    p = os.path.join(ck.out, "control_s_reason.ndjson")
    core.write_ndjson(p, bad)
    v = ck.validate(SPEC, "SwitchResTrace", "SwitchResTrace.cfg", p, name="control_s_reason")
    if v["ok"] or "SameWay" not in (v["invariant"] or ""):
        raise Inconclusive("SwitchRes negative control: unreadable failure reason not rejected by SameWay (%s)" % v["invariant"])
    controls.append(dict(mutation="reason class of the Recv at line %d flipped perm -> unreadable" % (i + 1),
                         rejected_by=v["invariant"], at_line=v["line"]))
    # 2. a settle handed to the link in a run whose resolution is a fail
    bad, i = pick(lambda run, one, j, r: r["a"] == "Recv" and r["pk"] == "fail")
    if bad is not None:
        bad[i].update(pk="settle", rs="none", pi=1)
        p = os.path.join(ck.out, "control_s_kind.ndjson")
        core.write_ndjson(p, bad)
        v = ck.validate(SPEC, "SwitchResTrace", "SwitchResTrace.cfg", p, name="control_s_kind")
        if v["ok"] or "SameWay" not in (v["invariant"] or ""):
            raise Inconclusive("SwitchRes negative control: settle for a failed HTLC not rejected (%s)" % v["invariant"])
        controls.append(dict(mutation="Recv at line %d turned into a settle in a fail run" % (i + 1),
                             rejected_by=v["invariant"], at_line=v["line"]))
    # 3. the stored message is gone after a restart although the circuit is open
    bad, i = pick(lambda run, one, j, r: r["a"] == "Restart" and r["st"] == 1 and r["op"] == 1)
    if bad is not None:
        bad[i].update(st=0, stk="none")
        p = os.path.join(ck.out, "control_s_store.ndjson")
        core.write_ndjson(p, bad[:i + 1])
        v = ck.validate(SPEC, "SwitchResTrace", "SwitchResTrace.cfg", p, name="control_s_store")
        if v["ok"] or "ConformStore" not in (v["invariant"] or ""):
            raise Inconclusive("SwitchRes negative control: lost stored resolution not rejected (%s)" % v["invariant"])
        controls.append(dict(mutation="stored resolution cleared on the Restart at line %d (circuit open)" % (i + 1),
                             rejected_by=v["invariant"], at_line=v["line"]))
    # 4. the replay after a restart never reaches the link: the Recv line is dropped
    bad, i = pick(lambda run, one, j, r: r["a"] == "Recv" and j > 0 and one[j - 1]["a"] == "LinkUp"
                  and any(x["a"] == "Restart" for x in one[:j]))
    if bad is not None:
        del bad[i]
        p = os.path.join(ck.out, "control_s_lost.ndjson")
        core.write_ndjson(p, bad)
        v = ck.validate(SPEC, "SwitchResTrace", "SwitchResTrace.cfg", p, name="control_s_lost")
        if v["ok"]:
            raise Inconclusive("SwitchRes negative control: a replay that never reaches the link was accepted")
        controls.append(dict(mutation="Recv after the post-restart LinkUp (line %d) removed" % (i + 1),
                             rejected_by=v["invariant"], at_line=v["line"]))
    ck.cov["switchres_negative_controls"] = controls


def part_s(ck, thorough):
    s_model_checks(ck, thorough)
    files = ck.generate(SPEC, "SwitchResGen", "SwitchResGen.cfg", 300 if thorough else 60, 16,
                        constants={"MaxLen": 14 if thorough else 12}, name="gen_switchres", timeout=300)
    plans = s_plans_from_behaviours(files)
    pf = os.path.join(ck.out, "plans_s.ndjson")
    core.write_ndjson(pf, plans)
    trace = s_execute(ck, {"VERIF_C13S_ENUM": 1, "VERIF_C13S_PLANS": pf}, "exec_s")
    if trace is None:
        return
    recs, runs, rejected = s_judge(ck, trace, "all")
    if not rejected:
        s_negative_controls(ck, recs, runs)
    distinct = set()
    for run in runs:
        distinct.add(core.sha(run["kind"] + str([(r["a"], r["e"], r["st"], r["op"], r["pk"], r["rs"]) for r in
                                                 recs[run["start"]:run["end"]]])))
    one = lambda run: recs[run["start"]:run["end"]]
    ck.cov["switchres"] = dict(
        runs=len(runs), lines=len(recs), from_model_behaviours=len(plans),
        per_kind=dict(collections.Counter(r["kind"] for r in runs)),
        events=dict(collections.Counter(r["a"] for r in recs)),
        responses_handed_to_incoming_link=dict(collections.Counter("%s/%s" % (r["pk"], r["rs"]) for r in recs if r["a"] == "Recv")),
        replayed_after_restart=sum(1 for run in runs for j, r in enumerate(one(run)) if r["a"] == "Recv"
                                   and any(x["a"] == "Restart" for x in one(run)[:j])),
        store_emptied_at_restart=sum(1 for run in runs for j, r in enumerate(one(run)) if r["a"] == "Restart" and j > 0
                                     and one(run)[j - 1]["st"] == 1 and r["st"] == 0),
        multi_restart=sum(1 for run in runs if sum(1 for r in one(run) if r["a"] == "Restart") > 1),
        distinct_runs=len(distinct), rejected=rejected)
    ck.cov["evaluations"] += len(recs)
    ck.cov["traces_validated_against_impl"] += len(runs)
    ck.cov["distinct_nontrivial"] += len(distinct)
    for run in [r for r in runs if "Restart" in r["plan"]][:1]:
        ck.cov["samples"].append({"switchres_plan": run["plan"],
                                  "events": ["%s:%s" % (r["a"], (r["pk"] + "/" + r["rs"]) if r["a"] == "Recv" else
                                                        "st%d/op%d" % (r["st"], r["op"])) for r in one(run)][:40]})


def run(ck):
    thorough = ck.tier == "thorough"
    fx = fixed_set()
    if fx:
        ck.notes.append("validated against the model with repaired: %s" % ",".join(sorted(fx)))
    if getattr(ck, "replay", None):
        plans_ = os.path.abspath(os.path.join(ck.replay, "plan_s.ndjson"))
        if os.path.exists(plans_):
            trace = s_execute(ck, {"VERIF_C13S_ENUM": 0, "VERIF_C13S_PLANS": plans_}, "replay_s")
            if trace is not None:
                recs, runs, _ = s_judge(ck, trace, "replay")
                ck.cov.update(states=1, transitions=1, evaluations=len(recs), traces_validated_against_impl=len(runs))
            return
        planb = os.path.abspath(os.path.join(ck.replay, "plan_b.ndjson"))
        if os.path.exists(planb):
            part_b(ck, thorough, replay_plan=planb)
            return
        planm = os.path.abspath(os.path.join(ck.replay, "plan_m.ndjson"))
        if os.path.exists(planm):
            cs = core.read_ndjson(planm)[0]["cs"]
            trace = m_execute(ck, {"VERIF_C13M_SETS": "+".join(cs), "VERIF_C13M_ENUM": 0, "VERIF_C13M_PLANS": planm}, "replay_m")
            if trace is not None:
                recs, runs, _ = m_judge(ck, trace, "replay", replay=True)
                ck.cov.update(states=1, transitions=1, evaluations=len(recs), traces_validated_against_impl=len(runs))
            return
        plan = os.path.abspath(os.path.join(ck.replay, "plan.ndjson"))
        if not os.path.exists(plan):
            raise Inconclusive("no plan.ndjson in %s" % ck.replay)
        sc = core.read_ndjson(plan)[0]["sc"]
        trace = execute(ck, {"VERIF_C13_ENUM": sc, "VERIF_C13_NOENUM": 1, "VERIF_C13_PLANS": plan}, "replay")
        recs = core.read_ndjson(trace)
        runs, verdicts = judge(ck, recs, trace, fx, "replay")
        report_findings(ck, recs, runs, verdicts, fx)
        ck.cov.update(states=1, transitions=1, evaluations=len(recs), traces_validated_against_impl=len(runs))
        return

    if os.environ.get("C13_ONLY"):      # development: only the named sibling parts (B, S, M)
        for part in os.environ["C13_ONLY"].split(","):
            {"B": part_b, "M": part_m, "S": globals().get("part_s")}[part](ck, thorough)
        ck.cov["rule"] = "development run of parts %s only" % os.environ["C13_ONLY"]
        return
    model_checks(ck, thorough)
    # single crash points: every scenario in both tiers (a run costs ~0.1 s); model-generated multi-crash plans:
    # the two force-close scenarios + the far-from-expiry one in quick, all in thorough
    scen = list(ALL_SCEN)
    if os.environ.get("C13_SCEN"):      # development / mutation controls: restrict the executed scenarios
        scen = [x for x in os.environ["C13_SCEN"].split(",") if x in ALL_SCEN]
    plans = generate_plans(ck, scen if thorough else [x for x in scen if x in QUICK_SCEN] or scen, thorough)
    pf = os.path.join(ck.out, "plans.ndjson")
    core.write_ndjson(pf, plans)
    env = {"VERIF_C13_ENUM": ",".join(scen), "VERIF_C13_PLANS": pf,
           "VERIF_C13_RANDOM": 150 if thorough else 30,
           "VERIF_C13_DOUBLE": ",".join(scen) if thorough else ""}
    trace = execute(ck, env, "exec")
    recs = core.read_ndjson(trace)
    runs, verdicts = judge(ck, recs, trace, fx, "all")
    found = report_findings(ck, recs, runs, verdicts, fx)
    if thorough and not os.environ.get("C13_NORACE"):
        race_run(ck)
    if verdicts or not ck.violations:
        negative_controls(ck, recs, runs, verdicts, fx)

    # evidence
    nbad = sum(1 for ok, _ in verdicts.values() if not ok)
    ck.cov["evaluations"] = len(recs)
    ck.cov["traces_validated_against_impl"] = len(verdicts)
    distinct = set()
    writes = collections.Counter()
    for run_ in runs:
        seq = [(r["a"], r["w"], r["h"], r["k"]) for r in recs[run_["start"]:run_["end"]] if r["a"] != "Block"]
        distinct.add(core.sha(run_["sc"] + str(seq)))
        for r in recs[run_["start"]:run_["end"]]:
            if r["w"]:
                writes[r["w"]] += 1
    ck.cov["distinct_nontrivial"] = len(distinct)
    ck.cov["write_kinds_executed"] = dict(writes)
    ck.cov["runs"] = dict(total=len(runs), crash_free=sum(1 for r in runs if not plan_of(r)["crashes"]),
                          single_crash=sum(1 for r in runs if len(plan_of(r)["crashes"]) == 1),
                          multi_crash=sum(1 for r in runs if len(plan_of(r)["crashes"]) > 1),
                          from_model_behaviours=len(plans), bad_terminal_outcome=nbad,
                          per_scenario=dict(collections.Counter(r["sc"] for r in runs)))
    ck.cov["finding_classes"] = {k: len(v[1]) for k, v in found.items()}
    ck.cov["rule"] = ("one run = one close scenario driven to the end on the real ChannelArbitrator under a crash plan "
                      "(reference run, every single crash point after write n / at the attempt of write n+1, crash point 0, "
                      "double crashes in thorough, plans from TLC-simulated behaviours, seeded random plans); distinct = "
                      "distinct (scenario, sequence of recorded events) hashes; every run has >= 1 durable write or a crash")
    for k in sorted(verdicts)[:2] + [k for k in sorted(verdicts) if not verdicts[k][0]][:3]:
        run_ = runs[k]
        ck.cov["samples"].append({"plan": run_["plan"], "verdict": "ok" if verdicts[k][0] else "bad",
                                  "deviations": sorted(verdicts[k][1]),
                                  "events": [(r["a"] + ":" + (r["w"] or r["k"] or r["h"])) for r in
                                             recs[run_["start"]:run_["end"]] if r["a"] != "Block"][:60]})
    if not os.environ.get("C13_NO_CHAINARB"):
        part_m(ck, thorough)
    if not os.environ.get("C13_NO_BREACH"):
        part_b(ck, thorough)
    if not os.environ.get("C13_NO_SWITCHRES"):
        part_s(ck, thorough)
    ck.cov["rule"] += ("; part M (ChainArb): one run = 1-3 pending-close channels of different profiles driven to the end by "
                       "the real ChainArbitrator under a stop plan + an order of sweep confirmations (every single stop point "
                       "for two orders, plans from TLC-simulated behaviours of ChainArbGen, seeded random plans); distinct = "
                       "distinct (channel set, sequence of recorded events) hashes")
    ck.cov["rule"] += ("; part B (BreachJustice): one run = one breach driven to the end on the real BreachArbitrator + "
                       "breachResolver under a token plan (6 base orders x no stop / stop+start at every position / injected "
                       "stop at the k-th durable write, double stops, plans from TLC-simulated behaviours); part S (SwitchRes): "
                       "one run = one forwarded HTLC whose resolution (fail | settle) is handed to the real Switch under a plan of "
                       "Deliver / LinkDown / LinkUp / Teardown / Restart steps (built-in shapes + TLC-simulated behaviours); "
                       "distinct = distinct sequences of recorded events")
    ck.cov["trusted_base"] = [
        "TLC 1.8.0, CommunityModules Json",
        "executor: durable writes outside the arbitrator log (MarkChannelClosed, MarkCommitmentBroadcasted, nursery, "
        "final HTLC outcome, witness cache, MarkChanFullyClosed) are closures of the harness that keep one durable flag each",
        "restart protocol mirrors ChainArbitrator.Start (IsPendingClose/CloseType/ClosingHeight iff marked closed, close "
        "event re-delivered otherwise, stored closing tx republished)",
        "projection: decoding the contracts bucket with lnd's own decoders (kind, outputIncubating, resolved)",
        "notifier model: tip on epoch registration, historical spend dispatch, spends delivered per outpoint only; sweeper "
        "model: a sweep confirms only for a signable request of that outpoint (taproot: control block present), zero-fee "
        "second-level txs confirm as re-signed aggregated txs with another txid; outpoint roles named by table lookup",
        "part B: chain = lntest/mock SpendNotifier (spends survive a restart, historical dispatch) + a confirmation that is "
        "re-delivered to later registrations; the close observer's CloseChannel(BreachClose, pending) and the arbitrator's "
        "InsertUnresolvedContracts(breachResolver) are issued by the driver through lnd's own functions; an injected stop = "
        "the k-th durable write and all later ones of that incarnation fail, then everything is stopped and started; "
        "projection: RetributionStore.IsBreached, FetchClosedChannel, FetchUnresolvedContracts",
        "part S: htlcswitch test fixtures (mockServer, mockChannelLink, mock obfuscator: reason class = what "
        "newMockDeobfuscator().DecryptError returns); projection: fetchAllResolutionMsg, circuits.NumOpen",
        "part M: initial durable state of a pending-close channel written through lnd's own LogContractResolutions / "
        "InsertConfirmedCommitSet / CloseChannel (what the close handler persists); write attribution read off the database "
        "(log scope key of the transaction, diff of the per-channel projection)"]
    ck.assumptions += [
        "single-channel part: <= 1 resolver per kind; HTLC universe: offered with output, offered dust, received dust, "
        "received with output and known preimage; channel types legacy / anchor (zero-fee) / simple taproot for the scenarios "
        "with HTLC outputs; the anchor is never swept; no commit-sweep resolver there (part M has it)",
        "part M: channels c1 (legacy, commit sweep), c2 (legacy, + expired offered HTLC), c3 (taproot, + anchor), all closed "
        "by the remote commitment, start state = right after the close handler's three writes; no blocks are fed",
        "part B: one channel, breached commitment with to-local, to-remote and one HTLC output; the counterparty may take the "
        "two commitment outputs itself (no second-level HTLC spend); outputs are spent on chain only once the channel is "
        "marked pending (EnvPending); no block epochs (no split justice txs); a driver wait that runs out (60 s) is "
        "inconclusive, not a verdict",
        "part S: one forwarded HTLC (incoming link A, outgoing channel resolved on chain), resolution kind fail | settle, "
        "<= 3 sends of the same resolution; locally initiated payments (no incoming link) are not covered",
        "a crash loses exactly the volatile state; every kvdb Update and every external durable effect is atomic",
        "the exhaustive run of the repaired design assumes that StateWaitingFullResolution is committed before a resolver "
        "checkpoints (CommitBeforeCheckpoint, H3 - the run without it exhibits the overwrite); trace validation does not",
        "timing: resolver goroutines are synchronised through the notifier model; a run that is still moving when the "
        "block bound is reached would be judged as it stands (none observed)"]
