"""C19 Every route the pathfinder returns is payable under all stated constraints (soundness only).

spec/Route:
  Route.tla       ValidRoute(g, q, r) = the property text clause by clause; BuildRoute = model of newRoute;
                  state machine NewGraph / Query / Send / Forward / Receive (payment simulation with the
                  forwarding decision of C09 at every node)
  RouteMC.tla     exhaustive: over a tiny graph universe and the -1/0/+1 lattice of candidate routes around
                  every path, ValidRoute => no node refuses (Payable), delivered => per-hop clauses hold
  RouteGen.tla    tlc -simulate: small multigraphs x requests (tight bounds / limits placed with BuildRoute)
  RouteTrace.tla  judge of the recorded routes
Pipeline: MC -> generate graphs+requests -> real graph DB + findPath + newRoute (harness/routing/c19_test.go)
          -> TLC trace validation -> negative controls (one corrupted field per ValidRoute clause).
Integers: all generated amounts <= ~1.2e5 msat and |rates| <= 1e4 ppm, so products stay below 2^31 (TLC).
Violation keys: route:<clause invariant>:hops<n>[:feelimit][:cltvlimit][:outchans]; the replay dir holds the graph line and
the offending query (./vcheck C19 --replay <dir> re-judges it).
Knobs: C19_GRAPHS (graphs per run), C19_SKIP_MC=1, C19_MC_UNIVERSES=small,rich,line4, C19_WORKERS (TLC workers for MC,
default 4), C19_OVERLAY=rel=patched[,..] or VERIF_MUTATION=<diff> for mutation controls (mutations/C19/*.diff).
"""
import copy
import os

from .. import core
from ..core import Inconclusive

SPEC = os.path.join(core.VERIF, "spec", "Route")
LEVEL = "model_checking"
WORKERS = int(os.environ.get("C19_WORKERS", "4"))


def is_reset(r):
    return r.get("a") == "Graph"


def overlay_from_env():
    """C19_OVERLAY=rel=patched[,rel=patched] - mutation controls / candidate repairs by source replacement."""
    ov = {}
    for part in filter(None, os.environ.get("C19_OVERLAY", "").split(",")):
        rel, patched = part.split("=", 1)
        ov[rel] = patched
    return ov or None


# ----------------------------------------------------------------------------- model checking
def model_check(ck):
    thorough = ck.tier == "thorough"
    universes = ["small"] + (["rich", "line4"] if thorough else [])
    if os.environ.get("C19_MC_UNIVERSES"):
        universes = os.environ["C19_MC_UNIVERSES"].split(",")
    for u in universes:
        ck.model_check(SPEC, "RouteMC", "RouteMC.cfg", "Route lattice universe=%s" % u,
                       constants={"Universe": '"%s"' % u}, name="mc_" + u, workers=WORKERS, timeout=2400)
    ck.cov["exhaustive"] = True
    # non-vacuity: a valid, delivered two-hop route on which the per-node fee floor is active must exist
    r = ck.model_check(SPEC, "RouteMC", "RouteMC_vacuity.cfg", "non-vacuity probe (expected to be violated)",
                       must_hold=False, name="mc_probe", workers=2, timeout=600)
    if r.violation != "invariant NoFloorCase":
        raise Inconclusive("RouteMC is vacuous: no valid delivered route with an active fee floor in the probe universe")


# ----------------------------------------------------------------------------- negative controls
def _pol(graph, cid, frm):
    for p in graph:
        if p["id"] == cid and p["from"] == frm:
            return p
    return None


def _first(recs, pred):
    """index of the first answered Query (route found) for which pred(query record, graph) holds"""
    graph = None
    for i, r in enumerate(recs):
        if is_reset(r):
            graph = r["graph"]
        elif r.get("a") == "Query" and r["res"]["found"] == 1 and not r["req"]["hints"] and pred(r, graph):
            return i
    return None


def controls(recs):
    """(name, expected invariant, corrupted copy of ONE single-graph trace).  Each control changes one recorded
    field of a valid trace so that exactly one clause of ValidRoute is broken (the queries are chosen so that
    the change does not touch another clause, e.g. the amount is not sitting exactly on a min_htlc)."""
    out = []

    def one(i, mut):
        a, b = core.slice_trace(recs, i + 1, is_reset)
        tr = copy.deepcopy([recs[a], recs[i]])
        mut(tr[1], tr[0])
        return tr

    def hop1(r, g):
        return _pol(g, r["res"]["hops"][0]["chan"], r["req"]["src"])

    # 1. the route claims a smaller total: the first forwarding node is underpaid (FeesPaid)
    i = _first(recs, lambda r, g: len(r["res"]["hops"]) >= 2 and r["res"]["hops"][0]["fee"] > 0
               and hop1(r, g)["minHtlc"] < r["res"]["totalAmt"])
    if i is not None:
        def m(q, g):
            q["res"]["totalAmt"] -= 1
            q["res"]["totalFees"] -= 1
            q["res"]["hops"][0]["fee"] -= 1
        out.append(("totalAmt-1", "SoundFeesPaid", one(i, m)))
    # 2. expiry gap one block short (Deltas)
    i = _first(recs, lambda r, g: len(r["res"]["hops"]) >= 2)
    if i is not None:
        def m(q, g):
            q["res"]["totalTL"] -= 1
        out.append(("totalTL-1", "SoundDeltas", one(i, m)))
    # 3. max_htlc of the first hop's policy one below the amount (HopBounds)
    i = _first(recs, lambda r, g: r["res"]["totalAmt"] > 1)
    if i is not None:
        def m(q, g):
            _pol(g["graph"], q["res"]["hops"][0]["chan"], q["req"]["src"])["maxHtlc"] = q["res"]["totalAmt"] - 1
        out.append(("maxHtlc=amt-1", "SoundHopBounds", one(i, m)))
    # 4. fee limit one below the fees (FeeLimit)
    i = _first(recs, lambda r, g: r["res"]["totalFees"] > 0)
    if i is not None:
        def m(q, g):
            q["req"]["feeLimit"] = q["res"]["totalFees"] - 1
        out.append(("feeLimit=fees-1", "SoundFeeLimit", one(i, m)))
    # 5. CLTV limit one below the total time lock (CltvLimit)
    i = _first(recs, lambda r, g: True)
    if i is not None:
        def m(q, g):
            q["req"]["cltvLimit"] = q["res"]["totalTL"] - q["req"]["height"] - 1
        out.append(("cltvLimit=tl-1", "SoundCltvLimit", one(i, m)))
    # 6. outgoing channel restriction names another channel (Restrictions)
    if i is not None:
        def m(q, g):
            q["req"]["outChans"] = [q["res"]["hops"][0]["chan"] + 1000]
        out.append(("outChans=other", "SoundRestrictions", one(i, m)))
    # 7. second hop's direction disabled (Connected)
    i = _first(recs, lambda r, g: len(r["res"]["hops"]) >= 2)
    if i is not None:
        def m(q, g):
            _pol(g["graph"], q["res"]["hops"][1]["chan"], q["res"]["hops"][0]["to"])["disabled"] = 1
        out.append(("hop2-disabled", "SoundConnected", one(i, m)))
    # 8. reported total fees off by one (Totals)
    i = _first(recs, lambda r, g: True)
    if i is not None:
        def m(q, g):
            q["res"]["totalFees"] += 1
        out.append(("totalFees+1", "SoundTotals", one(i, m)))
    # 9. the forwarding node's inbound discount removed from the graph: what was paid no longer covers
    #    the outbound fee alone (FeesPaid through the inbound-fee term)
    def disc(r, g):
        h = r["res"]["hops"]
        if len(h) < 2:
            return False
        back = _pol(g, h[0]["chan"], h[0]["to"])
        return back is not None and (back["inBase"] < 0 or back["inRate"] < 0) and h[0]["fee"] > 0 \
            and hop1(r, g)["minHtlc"] < r["res"]["totalAmt"]
    i = _first(recs, disc)
    if i is not None:
        def m(q, g):
            back = _pol(g["graph"], q["res"]["hops"][0]["chan"], q["res"]["hops"][0]["to"])
            back["inBase"], back["inRate"] = 1000, 0
        out.append(("inbound-discount-to-surcharge", "SoundFeesPaid", one(i, m)))
    return out


def negative_controls(ck, recs, quick):
    cs = controls(recs)
    if len(cs) < 6:
        raise Inconclusive("too few routes for the negative controls (%d)" % len(cs))
    done = []
    for name, inv, tr in cs:
        p = os.path.join(ck.out, "control_%s.ndjson" % name.replace("=", "_"))
        core.write_ndjson(p, tr)
        v = ck.validate(SPEC, "RouteTrace", "RouteTrace.cfg", p, name="control_" + name.replace("=", "_"))
        if v["ok"]:
            raise Inconclusive("negative control %s accepted: trace validation is not binding" % name)
        if v["invariant"] != "invariant " + inv:
            raise Inconclusive("negative control %s rejected by %s, expected %s" % (name, v["invariant"], inv))
        done.append(dict(mutation=name, rejected_by=v["invariant"], at_line=v["line"]))
    ck.cov["negative_controls"] = done


# ----------------------------------------------------------------------------- the pipeline
def run(ck):
    thorough = ck.tier == "thorough"
    if ck.replay:
        return replay(ck)
    if not os.environ.get("C19_SKIP_MC"):
        model_check(ck)
    ngraphs = int(os.environ.get("C19_GRAPHS", "2500" if thorough else "500"))
    nq = 10 if thorough else 8
    files = []
    # both node counts: 3 nodes make parallel channels frequent, 4 nodes give 3-hop routes
    for nn, share in ((4, 0.6), (3, 0.4)):
        n = max(1, int(ngraphs * share))
        fs = ck.generate(SPEC, "RouteGen", "RouteGen.cfg", n, 30,
                         constants={"NN": nn, "MaxChans": 6 if nn == 4 else 5, "NQ": nq},
                         name="gen_nn%d" % nn, timeout=1800)
        # one schedule directory for the executor
        files += fs
    sched = os.path.join(ck.out, "sched")
    os.makedirs(sched, exist_ok=True)
    for i, f in enumerate(files):
        os.link(f, os.path.join(sched, "b_%d.ndjson" % (i + 1)))

    res = ck.go_test("./routing/", "^TestVerifC19Route$", ["routing/c19_test.go"],
                     env={"VERIF_SCHED": sched}, name="exec", timeout=2400, extra_overlay=overlay_from_env())
    trace = os.path.join(res["dir"], "trace.ndjson")
    if res["rc"] != 0 or not os.path.exists(trace):
        raise Inconclusive("executor failed:\n" + res["out"][-3000:])
    recs = core.read_ndjson(trace)
    queries = [r for r in recs if r["a"] == "Query"]
    routes = [r for r in queries if r["res"]["found"] == 1]
    ck.cov["evaluations"] = len(queries)
    ck.cov["routes_returned"] = len(routes)
    ck.cov["graphs"] = sum(1 for r in recs if is_reset(r))
    if len(routes) < len(queries) // 10:
        raise Inconclusive("only %d routes for %d requests: the generator does not exercise the pathfinder" % (
            len(routes), len(queries)))

    ok = judge(ck, recs, trace)
    if ok:
        negative_controls(ck, recs, not thorough)

    # measured diversity of what was judged
    classes = set()
    shapes = {}
    for r in routes:
        q, s = r["req"], r["res"]
        k = (len(s["hops"]), q["src"] == q["dst"], bool(q["hints"]), q["feeLimit"] >= 0, q["cltvLimit"] >= 0, bool(q["outChans"]),
             q["lastHop"] != "", bool(q["ignNodes"]), bool(q["ignPairs"]),
             q["feeLimit"] == s["totalFees"], q["cltvLimit"] == s["totalTL"] - q["height"])
        shapes[k] = shapes.get(k, 0) + 1
        classes.add(core.sha(str((q, s["hops"]))))
    ck.cov["distinct_nontrivial"] = len(classes)
    ck.cov["route_shapes"] = len(shapes)
    ck.cov["by_hops"] = {str(n): sum(1 for r in routes if len(r["res"]["hops"]) == n) for n in range(1, 6)}
    ck.cov["tight"] = dict(
        fee_limit_exact=sum(1 for r in routes if r["req"]["feeLimit"] == r["res"]["totalFees"]),
        cltv_limit_exact=sum(1 for r in routes if r["req"]["cltvLimit"] == r["res"]["totalTL"] - r["req"]["height"]),
        self_payment=sum(1 for r in routes if r["req"]["src"] == r["req"]["dst"]),
        out_chan_restricted=sum(1 for r in routes if r["req"]["outChans"]),
        via_route_hint=sum(1 for r in routes if r["req"]["hints"]),
        floor_active=sum(1 for r in routes if any(h["fee"] == 0 for h in r["res"]["hops"][:-1])))
    ck.cov["traces_validated_against_impl"] = ck.cov["graphs"]
    ck.cov["rule"] = ("graphs x requests generated by TLC -simulate from RouteGen (3-4 nodes, 2-6 channels, parallel channels, "
                      "missing/disabled directions, signed inbound fees, bounds and limits placed at / next to what a path "
                      "needs), answered by the real findPath+newRoute on the fixture's graph DB (with and without graph "
                      "cache); evaluations = requests answered; distinct = distinct (request, returned hops) pairs among "
                      "the returned routes (all non-trivial: each is judged by the 10 clauses of ValidRoute and paid "
                      "through hop by hop)")
    if routes:
        ck.cov["samples"] += [routes[0], routes[len(routes) // 2]]
    ck.cov["trusted_base"] = ["TLC 1.8.0", "CommunityModules Json",
                              "routing test fixture createTestGraphFromChannels / mockBandwidthHints",
                              "executor projection of route.Route (field copies, HopFee/TotalFees/ReceiverAmt, "
                              "sphinx TotalPayloadSize)",
                              "translation of restrictions as in lnrpc/routerrpc (cltv limit minus final delta; "
                              "ignored nodes/pairs as probability 0) is replicated in the executor"]
    ck.assumptions += ["probabilities fixed to 1 (no mission control); source = self; route hints as private edges; no blinded tails",
                       "amounts <= ~1.2e5 msat, |fee rates| <= 1e4 ppm (32-bit TLC integers); 64-bit fee arithmetic is C09's subject",
                       "ignored nodes never contain the source or the target",
                       "soundness only: nothing is claimed about requests answered with 'no route'"]


def judge(ck, recs, trace):
    """Validate the recorded trace in batches; report every failing graph (up to 5)."""
    ok = True
    batches = core.split_batches(recs, is_reset, max_bytes=6_000_000)
    reported = 0
    for bi, batch in enumerate(batches):
        while batch and reported < 5:
            p = os.path.join(ck.out, "batch_%d.ndjson" % bi)
            core.write_ndjson(p, batch)
            v = ck.validate(SPEC, "RouteTrace", "RouteTrace.cfg", p, name="val_%d" % bi, timeout=2400)
            if v["ok"]:
                break
            ok = False
            line = v["line"] or 1
            a, b = core.slice_trace(batch, line, is_reset)
            bad = batch[min(line - 1, len(batch) - 1)]
            one = os.path.join(ck.out, "failing_trace_%d.ndjson" % (reported + 1))
            # the graph and the single offending query
            core.write_ndjson(one, [batch[a], bad] if bad is not batch[a] else [batch[a]])
            inv = (v["invariant"] or "").replace("invariant ", "")
            q, s = bad.get("req", {}), bad.get("res", {})
            shape = "hops%d%s%s%s" % (len(s.get("hops", [])),
                                      ":feelimit" if q.get("feeLimit", -1) >= 0 else "",
                                      ":cltvlimit" if q.get("cltvLimit", -1) >= 0 else "",
                                      ":outchans" if q.get("outChans") else "")
            ck.violation("route:%s:%s" % (inv, shape),
                         "route returned by findPath+newRoute is rejected by spec/Route (%s), line %s: req=%s res=%s" % (
                             inv, line, str(q)[:400], str(s)[:600]),
                         files={"trace.ndjson": one}, text=v["cex"])
            reported += 1
            batch = batch[:a] + batch[b:]      # drop the offending graph, continue with the rest
    return ok


def replay(ck):
    """./vcheck C19 --replay <violation dir | trace.ndjson>: re-judge a stored trace with RouteTrace."""
    p = ck.replay
    if os.path.isdir(p):
        p = os.path.join(p, "trace.ndjson")
    v = ck.validate(SPEC, "RouteTrace", "RouteTrace.cfg", p, name="replay")
    ck.cov["evaluations"] = v["lines"]
    ck.cov["states"] = max(1, ck.cov["states"])
    ck.cov["transitions"] = max(1, ck.cov["transitions"])
    if not v["ok"]:
        ck.violation("route:%s:replay" % (v["invariant"] or "").replace("invariant ", ""),
                     "stored trace is rejected by spec/Route (%s)" % v["invariant"], files={"trace.ndjson": p},
                     text=v["cex"])
