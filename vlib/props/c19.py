"""C19 Every route the pathfinder returns is payable under all stated constraints (soundness only).

spec/Route:
  Route.tla       ValidRoute(g, q, r) = the property text clause by clause (incl. the final-hop payload records and the
                  1300-byte rule computed from the recorded payload contents); BuildRoute = model of newRoute;
                  state machine NewGraph / Query / Send / Forward / Receive (payment simulation with the
                  forwarding decision of C09 at every node; the source cannot build an onion that is too large)
  RouteMC.tla     exhaustive: over tiny graph universes and the -1/0/+1 lattice of candidate routes around
                  every path, ValidRoute => no node refuses (Payable), delivered => per-hop clauses hold and the
                  payloads fit; universes small|rich|line4 (first build) + foreign|onion|diamond (follow-up)
  RouteGen.tla    tlc -simulate: small multigraphs x requests (tight bounds / limits placed with BuildRoute), each
                  request names its ENTRY POINT (findPath+newRoute, ChannelRouter.FindRoute - also from a foreign
                  source -, paymentSession.RequestRoute with payload ingredients and multi-part settings)
  RouteGenD.tla   tlc -simulate: "diamond with tail" graphs (limits bind late in the backward search) x requests in
                  the onion-size dimension (metadata filling the 1300 bytes for one candidate path +-1)
  RouteTrace.tla  judge of the recorded routes
Pipeline: MC -> generate graphs+requests -> real graph DB + the named entry point (harness/routing/c19_test.go)
          -> TLC trace validation -> negative controls (one corrupted field per ValidRoute clause).
Integers: all generated amounts <= ~1.2e6 msat and |rates| <= 1e4 ppm, so products stay below 2^31 (TLC).
Violation keys: route:<clause invariant>:[<entry point>:][foreign:]hops<n>[:feelimit][:cltvlimit][:outchans][:meta|:enc]
[:mpp-total-wider]; the replay dir holds the graph line and the offending query (./vcheck C19 --replay <dir> re-judges it).
Knobs: C19_GRAPHS (graphs per run), C19_SKIP_MC=1, C19_MC_UNIVERSES=small,rich,line4,foreign,onion,diamond, C19_WORKERS
(TLC workers for MC, default 4), C19_OVERLAY=rel=patched[,..] or VERIF_MUTATION=<diff> for mutation controls
(mutations/C19/*.diff).
"""
import concurrent.futures
import copy
import os

from .. import core
from ..core import Inconclusive

SPEC = os.path.join(core.VERIF, "spec", "Route")
LEVEL = "model_checking"
WORKERS = int(os.environ.get("C19_WORKERS", "4"))


def is_reset(r):
    return r.get("a") == "Graph"


def overlay_from_env():
    """C19_OVERLAY=rel=patched[,rel=patched] - mutation controls / candidate repairs by source replacement."""
    ov = {}
    for part in filter(None, os.environ.get("C19_OVERLAY", "").split(",")):
        rel, patched = part.split("=", 1)
        ov[rel] = patched
    return ov or None


# ----------------------------------------------------------------------------- model checking
PROBES = [("probe", "NoFloorCase"), ("onion", "NoOnionRefusal"), ("onion", "NoFullOnion"),
          ("foreign", "NoForeignDisabled"), ("foreign", "NoLocalMiddle"), ("diamond", "NoLateLimit")]


def model_check(ck):
    thorough = ck.tier == "thorough"
    universes = ["small", "foreign", "onion"] + (["rich", "line4", "diamond"] if thorough else [])
    if os.environ.get("C19_MC_UNIVERSES"):
        universes = os.environ["C19_MC_UNIVERSES"].split(",")
    for u in universes:
        ck.model_check(SPEC, "RouteMC", "RouteMC.cfg", "Route lattice universe=%s" % u,
                       constants={"Universe": '"%s"' % u}, name="mc_" + u, workers=WORKERS, timeout=2400)
    ck.cov["exhaustive"] = True
    # non-vacuity: each probe states that an interesting situation does NOT occur and must be violated:
    # a delivered two-hop route with an active fee floor; an onion refused for its size; a delivered route
    # that fills the 1300 bytes exactly; a foreign source's disabled first hop refused; a delivered route
    # whose second hop is the pathfinding node's own channel; a 4-hop route over its CLTV limit
    # (quick: the two cheap ones; the onion and diamond probes cost 10-20 s each and run in the thorough tier)
    probes = PROBES if thorough else [PROBES[0], PROBES[3]]
    for u, inv in probes:
        r = ck.model_check(SPEC, "RouteMC", "RouteMC_vacuity.cfg", "non-vacuity probe %s (expected to be violated)" % inv,
                           must_hold=False, constants={"Universe": '"%s"' % u, "Probe": '"%s"' % inv},
                           name="mc_probe_" + inv, workers=2, timeout=600)
        if r.violation != "invariant ProbeInv":
            raise Inconclusive("RouteMC is vacuous: probe %s is not violated in universe %s" % (inv, u))


# ----------------------------------------------------------------------------- negative controls
def _pol(graph, cid, frm):
    for p in graph:
        if p["id"] == cid and p["from"] == frm:
            return p
    return None


def _first(recs, pred, vias=("findPath",), foreign=False):
    """index of the first answered Query (route found) for which pred(query record, graph) holds"""
    graph = None
    for i, r in enumerate(recs):
        if is_reset(r):
            graph = r["graph"]
        elif r.get("a") == "Query" and r["res"]["found"] == 1 and not r["req"]["hints"] \
                and r["req"]["via"] in vias and (r["req"]["src"] != r["req"]["self"]) == foreign \
                and not r.get("_rejected") and pred(r, graph):
            return i
    return None


def controls(recs):
    """(name, expected invariant, corrupted copy of ONE single-graph trace).  Each control changes one recorded
    field of a valid trace so that exactly one clause of ValidRoute is broken (the queries are chosen so that
    the change does not touch another clause, e.g. the amount is not sitting exactly on a min_htlc)."""
    out = []

    def one(i, mut):
        a, b = core.slice_trace(recs, i + 1, is_reset)
        tr = copy.deepcopy([recs[a], recs[i]])
        mut(tr[1], tr[0])
        return tr

    def hop1(r, g):
        return _pol(g, r["res"]["hops"][0]["chan"], r["req"]["src"])

    # 1. the route claims a smaller total: the first forwarding node is underpaid (FeesPaid)
    i = _first(recs, lambda r, g: len(r["res"]["hops"]) >= 2 and r["res"]["hops"][0]["fee"] > 0
               and hop1(r, g)["minHtlc"] < r["res"]["totalAmt"])
    if i is not None:
        def m(q, g):
            q["res"]["totalAmt"] -= 1
            q["res"]["totalFees"] -= 1
            q["res"]["hops"][0]["fee"] -= 1
        out.append(("totalAmt-1", "SoundFeesPaid", one(i, m)))
    # 2. expiry gap one block short (Deltas)
    i = _first(recs, lambda r, g: len(r["res"]["hops"]) >= 2)
    if i is not None:
        def m(q, g):
            q["res"]["totalTL"] -= 1
        out.append(("totalTL-1", "SoundDeltas", one(i, m)))
    # 3. max_htlc of the first hop's policy one below the amount (HopBounds)
    i = _first(recs, lambda r, g: r["res"]["totalAmt"] > 1)
    if i is not None:
        def m(q, g):
            _pol(g["graph"], q["res"]["hops"][0]["chan"], q["req"]["src"])["maxHtlc"] = q["res"]["totalAmt"] - 1
        out.append(("maxHtlc=amt-1", "SoundHopBounds", one(i, m)))
    # 4. fee limit one below the fees (FeeLimit)
    i = _first(recs, lambda r, g: r["res"]["totalFees"] > 0)
    if i is not None:
        def m(q, g):
            q["req"]["feeLimit"] = q["res"]["totalFees"] - 1
        out.append(("feeLimit=fees-1", "SoundFeeLimit", one(i, m)))
    # 5. CLTV limit one below the total time lock (CltvLimit)
    i = _first(recs, lambda r, g: True)
    if i is not None:
        def m(q, g):
            q["req"]["cltvLimit"] = q["res"]["totalTL"] - q["req"]["height"] - 1
        out.append(("cltvLimit=tl-1", "SoundCltvLimit", one(i, m)))
    # 6. outgoing channel restriction names another channel (Restrictions)
    if i is not None:
        def m(q, g):
            q["req"]["outChans"] = [q["res"]["hops"][0]["chan"] + 1000]
        out.append(("outChans=other", "SoundRestrictions", one(i, m)))
    # 7. second hop's direction disabled (Connected)
    i = _first(recs, lambda r, g: len(r["res"]["hops"]) >= 2)
    if i is not None:
        def m(q, g):
            _pol(g["graph"], q["res"]["hops"][1]["chan"], q["res"]["hops"][0]["to"])["disabled"] = 1
        out.append(("hop2-disabled", "SoundConnected", one(i, m)))
    # 8. reported total fees off by one (Totals)
    i = _first(recs, lambda r, g: True)
    if i is not None:
        def m(q, g):
            q["res"]["totalFees"] += 1
        out.append(("totalFees+1", "SoundTotals", one(i, m)))
    # 9. the forwarding node's inbound discount removed from the graph: what was paid no longer covers
    #    the outbound fee alone (FeesPaid through the inbound-fee term)
    def disc(r, g):
        h = r["res"]["hops"]
        if len(h) < 2:
            return False
        back = _pol(g, h[0]["chan"], h[0]["to"])
        return back is not None and (back["inBase"] < 0 or back["inRate"] < 0) and h[0]["fee"] > 0 \
            and hop1(r, g)["minHtlc"] < r["res"]["totalAmt"]
    i = _first(recs, disc)
    if i is not None:
        def m(q, g):
            back = _pol(g["graph"], q["res"]["hops"][0]["chan"], q["res"]["hops"][0]["to"])
            back["inBase"], back["inRate"] = 1000, 0
        out.append(("inbound-discount-to-surcharge", "SoundFeesPaid", one(i, m)))
    # --- follow-up b19d: entry points, foreign source, final-hop payload, onion size
    # 10. the invoice's metadata is one byte longer than what the last hop carries (FinalPayload)
    i = _first(recs, lambda r, g: r["req"]["meta"] >= 0, vias=("RequestRoute",))
    if i is not None:
        def m(q, g):
            q["req"]["meta"] += 1
        out.append(("req.meta+1", "SoundFinalPayload", one(i, m)))
    # 11. a recorded payload size (oracle) one byte off what the payload contents give (size model)
    i = _first(recs, lambda r, g: r["res"]["packed"] == 1, vias=("RequestRoute", "FindRoute"))
    if i is not None:
        def m(q, g):
            q["res"]["hops"][0]["size"] += 1
        out.append(("hop1.size+1", "SizeModelAgrees", one(i, m)))
    # 12. metadata (request, last hop and its size alike) grown until the payloads need 1301 bytes (PayloadFits)
    def big(r, g):
        tot = sum(h["size"] for h in r["res"]["hops"])
        return 253 <= r["req"]["meta"] and r["res"]["packed"] == 1 and tot <= 1300 and r["req"]["meta"] + 1301 - tot < 60000
    i = _first(recs, big, vias=("RequestRoute",))
    if i is not None:
        def m(q, g):
            d = 1301 - sum(h["size"] for h in q["res"]["hops"])
            q["req"]["meta"] += d
            q["res"]["hops"][-1]["meta"] += d
            q["res"]["hops"][-1]["size"] += d
        out.append(("meta-grown-to-1301-bytes", "SoundPayload", one(i, m)))
    # 13. the first hop of a FOREIGN source disabled (Connected; the same bit on the pathfinding node's own
    #     first hop is not an objection - that is what control 7 leaves alone and the traces contain)
    i = _first(recs, lambda r, g: True, vias=("FindRoute",), foreign=True)
    if i is not None:
        def m(q, g):
            _pol(g["graph"], q["res"]["hops"][0]["chan"], q["req"]["src"])["disabled"] = 1
        out.append(("foreign-hop1-disabled", "SoundConnected", one(i, m)))
    # 14. the payment session answers with half the amount although the payment may not be split (Final)
    def whole(r, g):
        q = r["req"]
        return q["maxParts"] == 1 and q["amt"] % 2 == 0 and q["amt"] >= 4 and not (0 < q["maxShard"] < q["amt"]) \
            and len(r["res"]["hops"]) == 1 and hop1(r, g)["minHtlc"] <= q["amt"] // 2
    i = _first(recs, whole, vias=("RequestRoute",))
    if i is not None:
        def m(q, g):
            half = q["req"]["amt"] // 2
            s = q["res"]
            s["hops"][0]["amt"] = half
            s["totalAmt"] = s["recvAmt"] = half
        out.append(("unsplittable-halved", "SoundFinal", one(i, m)))
    return out


def negative_controls(ck, recs, quick):
    cs = controls(recs)
    if len(cs) < 6:
        raise Inconclusive("too few routes for the negative controls (%d)" % len(cs))
    missing = {"req.meta+1", "hop1.size+1", "meta-grown-to-1301-bytes", "foreign-hop1-disabled"} - {c[0] for c in cs}
    if missing:
        raise Inconclusive("no recorded route for the negative controls %s" % sorted(missing))
    def check(c):
        name, inv, tr = c
        p = os.path.join(ck.out, "control_%s.ndjson" % name.replace("=", "_"))
        core.write_ndjson(p, tr)
        return ck.validate(SPEC, "RouteTrace", "RouteTrace.cfg", p, name="control_" + name.replace("=", "_"))

    # the controls are independent two-line traces: validated four at a time
    with concurrent.futures.ThreadPoolExecutor(max_workers=4) as ex:
        results = list(ex.map(check, cs))
    done = []
    for (name, inv, tr), v in zip(cs, results):
        if v["ok"]:
            raise Inconclusive("negative control %s accepted: trace validation is not binding" % name)
        if v["invariant"] != "invariant " + inv:
            raise Inconclusive("negative control %s rejected by %s, expected %s" % (name, v["invariant"], inv))
        done.append(dict(mutation=name, rejected_by=v["invariant"], at_line=v["line"]))
    ck.cov["negative_controls"] = done


# ----------------------------------------------------------------------------- the pipeline
def run(ck):
    thorough = ck.tier == "thorough"
    if ck.replay:
        return replay(ck)
    if not os.environ.get("C19_SKIP_MC"):
        model_check(ck)
    ngraphs = int(os.environ.get("C19_GRAPHS", "2500" if thorough else "500"))
    nq = 10 if thorough else 8
    files = []
    # both node counts: 3 nodes make parallel channels frequent, 4 nodes give 3-hop routes; the diamond family
    # (RouteGenD) gives 3-5 hop routes with late-binding limits and the onion-size dimension
    for mod, nn, share in (("RouteGen", 4, 0.42), ("RouteGen", 3, 0.28), ("RouteGenD", 0, 0.3)):
        n = max(1, int(ngraphs * share))
        consts = {"NN": nn or 4, "MaxChans": 6 if nn != 3 else 5, "NQ": nq}
        fs = ck.generate(SPEC, mod, mod + ".cfg", n, 30, constants=consts,
                         name="gen_%s_nn%d" % (mod, nn), timeout=1800)
        # one schedule directory for the executor
        files += fs
    sched = os.path.join(ck.out, "sched")
    os.makedirs(sched, exist_ok=True)
    for i, f in enumerate(files):
        os.link(f, os.path.join(sched, "b_%d.ndjson" % (i + 1)))

    res = ck.go_test("./routing/", "^TestVerifC19Route$", ["routing/c19_test.go"],
                     env={"VERIF_SCHED": sched}, name="exec", timeout=2400, extra_overlay=overlay_from_env())
    trace = os.path.join(res["dir"], "trace.ndjson")
    if res["rc"] != 0 or not os.path.exists(trace):
        raise Inconclusive("executor failed:\n" + res["out"][-3000:])
    recs = core.read_ndjson(trace)
    queries = [r for r in recs if r["a"] == "Query"]
    routes = [r for r in queries if r["res"]["found"] == 1]
    ck.cov["evaluations"] = len(queries)
    ck.cov["routes_returned"] = len(routes)
    ck.cov["graphs"] = sum(1 for r in recs if is_reset(r))
    if len(routes) < len(queries) // 10:
        raise Inconclusive("only %d routes for %d requests: the generator does not exercise the pathfinder" % (
            len(routes), len(queries)))

    judge(ck, recs, trace)
    if not ck.violations:
        # (rejections that are known findings do not stand in the way of the controls)
        negative_controls(ck, recs, not thorough)

    # measured diversity of what was judged
    classes = set()
    shapes = {}
    for r in routes:
        q, s = r["req"], r["res"]
        k = (q["via"], q["src"] != q["self"], len(s["hops"]), q["src"] == q["dst"], bool(q["hints"]), q["feeLimit"] >= 0,
             q["cltvLimit"] >= 0, bool(q["outChans"]),
             q["lastHop"] != "", bool(q["ignNodes"]), bool(q["ignPairs"]),
             q["feeLimit"] == s["totalFees"], q["cltvLimit"] == s["totalTL"] - q["height"],
             q["payAddr"], q["meta"] >= 0, bool(q["recs"]), q["enc"] >= 0, s["hops"][-1]["amt"] != q["amt"])
        shapes[k] = shapes.get(k, 0) + 1
        classes.add(core.sha(str((q, [{f: h[f] for f in ("chan", "to", "amt", "tl")} for h in s["hops"]]))))
    size = lambda r: sum(h["size"] for h in r["res"]["hops"])
    ck.cov["distinct_nontrivial"] = len(classes)
    ck.cov["route_shapes"] = len(shapes)
    ck.cov["by_hops"] = {str(n): sum(1 for r in routes if len(r["res"]["hops"]) == n) for n in range(1, 7)}
    ck.cov["by_entry_point"] = {v: [sum(1 for r in queries if r["req"]["via"] == v),
                                    sum(1 for r in routes if r["req"]["via"] == v)]
                                for v in ("findPath", "FindRoute", "RequestRoute", "BuildRoute")}
    ck.cov["by_family"] = {}
    fam = "rand"
    for r in recs:
        if is_reset(r):
            fam = r.get("fam", "rand")
            ck.cov["by_family"][fam] = ck.cov["by_family"].get(fam, 0) + 1
    ck.cov["tight"] = dict(
        fee_limit_exact=sum(1 for r in routes if r["req"]["feeLimit"] == r["res"]["totalFees"]),
        cltv_limit_exact=sum(1 for r in routes if r["req"]["cltvLimit"] == r["res"]["totalTL"] - r["req"]["height"]),
        self_payment=sum(1 for r in routes if r["req"]["src"] == r["req"]["dst"]),
        out_chan_restricted=sum(1 for r in routes if r["req"]["outChans"]),
        via_route_hint=sum(1 for r in routes if r["req"]["hints"]),
        floor_active=sum(1 for r in routes if any(h["fee"] == 0 for h in r["res"]["hops"][:-1])),
        foreign_source=sum(1 for r in routes if r["req"]["src"] != r["req"]["self"]),
        foreign_route_through_own_node=sum(1 for r in routes if r["req"]["src"] != r["req"]["self"]
                                           and any(h["to"] == r["req"]["self"] for h in r["res"]["hops"][:-1])),
        onion_1290_to_1300_bytes=sum(1 for r in routes if 1290 <= size(r) <= 1300),
        onion_exactly_1300_bytes=sum(1 for r in routes if size(r) == 1300),
        with_metadata=sum(1 for r in routes if r["req"]["meta"] >= 0),
        with_payment_secret=sum(1 for r in routes if r["req"]["payAddr"] == 1),
        mpp_total_wider_than_shard=sum(1 for r in routes if r["res"]["hops"][-1]["mpp"] > r["res"]["hops"][-1]["amt"]),
        blinded_intro_only=sum(1 for r in routes if r["req"]["enc"] >= 0),
        shard_clamped=sum(1 for r in routes if 0 < r["req"]["maxShard"] < r["req"]["amt"]),
        shard_halved=sum(1 for r in routes if r["res"]["hops"][-1]["amt"] < r["req"]["amt"]
                         and not 0 < r["req"]["maxShard"] < r["req"]["amt"]))
    ck.cov["traces_validated_against_impl"] = ck.cov["graphs"]
    ck.cov["rule"] = ("graphs x requests generated by TLC -simulate from RouteGen (3-4 nodes, 2-6 channels, parallel channels, "
                      "missing/disabled directions, signed inbound fees, bounds and limits placed at / next to what a path "
                      "needs; one graph in five asked from a foreign source) and RouteGenD (diamond-with-tail graphs of 5-8 "
                      "nodes, limits between the candidates' needs, final-hop payload sized to fill the 1300 onion bytes "
                      "of one candidate +-1), answered by the real entry point each request names - findPath+newRoute, "
                      "ChannelRouter.FindRoute, paymentSession.RequestRoute (via SessionSource.NewPaymentSession), "
                      "ChannelRouter.BuildRoute - on the fixture's graph DB (with and without graph cache); evaluations = "
                      "requests answered; distinct = distinct (request, returned hops) pairs among the returned routes "
                      "(all non-trivial: each is judged by the 11 clauses of ValidRoute plus the size-model agreement and "
                      "paid through hop by hop)")
    if routes:
        ck.cov["samples"] += [routes[0], routes[len(routes) // 2]]
    ck.cov["trusted_base"] = ["TLC 1.8.0", "CommunityModules Json",
                              "routing test fixture createTestGraphFromChannels / mockBandwidthHints",
                              "executor projection of route.Route (field copies, HopFee/TotalFees/ReceiverAmt, payload "
                              "records of every hop); oracles: sphinx HopPayload.NumBytes of the serialized payloads, "
                              "sphinx.NewOnionPacket",
                              "mission control replaced by probability 1 / 0 for ignored nodes and pairs; bandwidth = "
                              "mockLink.Bandwidth of the own channels through the real bandwidth manager",
                              "translation of restrictions as in lnrpc/routerrpc (cltv limit minus final delta; "
                              "ignored nodes/pairs as probability 0) is replicated in the executor"]
    ck.assumptions += ["probabilities fixed to 1 (no mission control); route hints as private edges; blinded tails only as an "
                       "introduction-node-only path (no blinded hops behind the introduction node); no AMP",
                       "amounts <= ~1.2e6 msat, |fee rates| <= 1e4 ppm (32-bit TLC integers); 64-bit fee arithmetic is C09's subject",
                       "the payment session's smallest shard (a constant, 10k sat) is scaled down with the amounts",
                       "ignored nodes never contain the source or the target",
                       "soundness only: nothing is claimed about requests answered with 'no route'"]


def _tu(v):
    """bytes of a truncated unsigned integer (BOLT 1 tu64)"""
    n = 0
    while v > 0:
        n, v = n + 1, v >> 8
    return n


def _bigsize(x):
    return 1 if x < 253 else 3 if x < 65536 else 5


def _rec(t, n):
    return _bigsize(t) + _bigsize(n) + n


def violation_key(inv, graph_line, q, s):
    """route:<invariant>:[<family>:][<entry point>:][foreign:]hops<n>[:feelimit][:cltvlimit][:outchans][:meta|:enc]
    [:<payload class>] - the history / input class of the rejected route (no judgement here: TLC rejected it)."""
    hops = s.get("hops", [])
    parts = []
    if graph_line.get("fam", "rand") != "rand":
        parts.append(graph_line["fam"])
    if q.get("via", "findPath") != "findPath":
        parts.append(q["via"])
    if q.get("src") != q.get("self", q.get("src")):
        parts.append("foreign")
    parts.append("hops%d" % len(hops))
    if q.get("feeLimit", -1) >= 0:
        parts.append("feelimit")
    if q.get("cltvLimit", -1) >= 0:
        parts.append("cltvlimit")
    if q.get("outChans"):
        parts.append("outchans")
    if q.get("meta", -1) >= 0:
        parts.append("meta")
    if q.get("enc", -1) >= 0:
        parts.append("enc")
    if inv == "SoundPayload" and hops and s.get("packed") == 1 and sum(h["size"] for h in hops) > 1300:
        # Which records of the FINAL hop's payload explain the excess over the 1300 bytes: the class is named only
        # when the real serialized sizes, with exactly those records taken out of the last payload, fit - so a
        # different payload-size defect (anything else missing from the estimate) never gets one of these names.
        last = hops[-1]
        rest = sum(h["size"] for h in hops[:-1])
        blinded = q.get("enc", -1) >= 0 and last["enc"] >= 0
        tot_rec = _rec(18, _tu(last["tot"])) if last["tot"] else 0
        if blinded and q.get("via") == "RequestRoute" and rest + _payload_without(
                last["size"], _rec(10, last["enc"]) + (_rec(12, 33) if last["bp"] else 0) + tot_rec) <= 1300:
            parts.append("blinded-final-unestimated")
        elif blinded and q.get("via") == "FindRoute" and rest + _payload_without(
                last["size"], tot_rec + sum(_rec(r["t"], r["n"]) for r in last["recs"])) <= 1300:
            parts.append("blinded-total-recs-unestimated")
        elif not blinded and q.get("via") == "RequestRoute" and last["mpp"] >= 0 and _tu(last["mpp"]) > _tu(last["amt"]) \
                and rest + _payload_without(last["size"], _tu(last["mpp"]) - _tu(last["amt"])) <= 1300:
            parts.append("mpp-total-wider")
    return "route:%s:%s" % (inv, ":".join(parts))


def _payload_without(size, omitted):
    """size of a hop payload in the onion (length prefix + TLV stream + 32 byte HMAC) with `omitted` bytes fewer"""
    stream = size - 32 - 1 if size - 33 < 253 else size - 32 - 3
    stream -= omitted
    return _bigsize(stream) + stream + 32


def is_known(ck, key):
    return any(f.get("property") == ck.pid and f.get("kind") == "finding" and core.key_matches(f.get("key", ""), key)
               for f in ck.findings)


def judge_batch(ck, bi, batch):
    """Validate one batch; returns the rejected queries as (key, what, trace file, counterexample).  A trace is a
    chain of states, so a rejection at line L means that everything before L was accepted: the validation
    continues with the graph line and what follows the rejected query.  Stops after 3 rejections that are not
    known findings."""
    out, new, rounds = [], 0, 0
    while batch and new < 3 and rounds < 80:
        rounds += 1
        p = os.path.join(ck.out, "batch_%d.ndjson" % bi)
        core.write_ndjson(p, batch)
        v = ck.validate(SPEC, "RouteTrace", "RouteTrace.cfg", p, name="val_%d" % bi, timeout=2400)
        if v["ok"]:
            break
        line = min(v["line"] or 1, len(batch))
        a, b = core.slice_trace(batch, line, is_reset)
        bad = batch[line - 1]
        bad["_rejected"] = 1
        one = os.path.join(ck.out, "failing_trace_%d_%d.ndjson" % (bi, rounds))
        # the graph and the single offending query
        core.write_ndjson(one, [batch[a], {k: x for k, x in bad.items() if k != "_rejected"}]
                          if bad is not batch[a] else [batch[a]])
        inv = (v["invariant"] or "").replace("invariant ", "")
        q, s = bad.get("req", {}), bad.get("res", {})
        key = violation_key(inv, batch[a], q, s)
        out.append((key, "route returned by %s is rejected by spec/Route (%s): req=%s res=%s" % (
            q.get("via", "the pathfinder"), inv, str(q)[:500], str(s)[:900]), one, v["cex"]))
        if not is_known(ck, key):
            new += 1
        # continue behind the rejected query (the graph itself when its own line was rejected)
        batch = batch[b:] if bad is batch[a] else [batch[a]] + batch[line:]
    return out


def judge(ck, recs, trace):
    """Validate the recorded trace in small batches, four at a time; report every rejected query (known findings
    as KNOWN-FINDING lines, at most 5 others as violations)."""
    batches = core.split_batches(recs, is_reset, max_bytes=700_000)
    with concurrent.futures.ThreadPoolExecutor(max_workers=4) as ex:
        results = list(ex.map(lambda t: judge_batch(ck, t[0], t[1]), enumerate(batches)))
    reported = 0
    rejected = [r for res in results for r in res]
    ck.cov["rejected_queries"] = len(rejected)
    for key, what, one, cex in rejected:
        if reported >= 5 and not is_known(ck, key):
            continue
        if ck.violation(key, what, files={"trace.ndjson": one}, text=cex):
            reported += 1
    return not rejected


def replay(ck):
    """./vcheck C19 --replay <violation dir | trace.ndjson>: re-judge a stored trace with RouteTrace."""
    p = ck.replay
    if os.path.isdir(p):
        p = os.path.join(p, "trace.ndjson")
    v = ck.validate(SPEC, "RouteTrace", "RouteTrace.cfg", p, name="replay")
    ck.cov["evaluations"] = v["lines"]
    ck.cov["states"] = max(1, ck.cov["states"])
    ck.cov["transitions"] = max(1, ck.cov["transitions"])
    if not v["ok"]:
        ck.violation("route:%s:replay" % (v["invariant"] or "").replace("invariant ", ""),
                     "stored trace is rejected by spec/Route (%s)" % v["invariant"], files={"trace.ndjson": p},
                     text=v["cex"])
