"""C09 An HTLC is forwarded only if it meets the advertised policy and loses no money.

spec/ForwardPolicy:
  ForwardPolicyRules.tla  the property as pure operators over unbounded integers (Violated / Agree)
  ForwardPolicy.tla       the decision as a state machine shaped like link.go (one action per comparison,
                          machine words W64/W32 as parameters: 0 = ideal)
  ForwardPolicyMC.tla     the exhaustive boundary lattice on small integers (548 310 cases)
Pipeline:
  (i)   TLC: MC of the machine on the lattice (ideal words; scaled words inside the box; scaled words find
        F5/F5b by themselves), lattice dumped by TLC (ForwardPolicyGen), executed on a real channelLink
        (CheckHtlcForward + CheckHtlcTransit), every recorded verdict validated by TLC (ForwardPolicyTrace).
  (ii)  64-bit: seeded boundary-biased cases over the realistic box, executed on the real link, validated
        by Apalache (SMT integers) in parallel chunks against the same rules.
  (iii) outside the box: targeted witnesses of F5 (int64 wrap in InboundFee.CalcFee) and F5b (uint32 wrap
        of heightNow + delta), judged by Apalache one by one; a disagreement is reported under its own key.
  (iv)  switch level (SwitchPolicy.tla, keys "switch:..."): which of the parallel links to the next peer gets the
        HTLC (Switch.handlePacketAdd) and how an advertised policy reaches the links
        (Switch.UpdateForwardingPolicies, AddLink/RemoveLink, pending links).  TLC checks the model, generates
        schedules (SwitchPolicyGen), they are replayed on ONE real Switch with real channelLinks
        (harness/htlcswitch/c09_switch_test.go) and TLC validates the recorded behaviours (SwitchPolicyTrace):
        handed to link L only if the check against the policy ADVERTISED for L's channel accepts.
  (v)   link level with an auxiliary traffic shaper (ForwardPolicyAux.tla, keys "aux:..."): the exemption of custom
        HTLCs from min_htlc/max_htlc and the shaper's bandwidth are named deviations that need the SHAPER'S answers;
        TLC checks the machine on the bounds lattice x every answer of the shaper, dumps the lattice
        (ForwardPolicyAuxGen), it is executed on the real link with an executor-side shaper
        (harness/htlcswitch/c09_aux_test.go) and TLC validates every verdict (ForwardPolicyAuxTrace).
  (vi)  incoming side (SwitchInbound.tla, keys "inbound:..."): the inbound fee the decision is taken with is the one
        ADVERTISED for the incoming channel - HTLCs enter through the real processRemoteAdds of a real incoming
        channelLink from forwarding packages the real channel wrote, first-time and re-forwarded after a restart
        (harness/htlcswitch/c09_inbound_test.go, SwitchInboundTrace).
"""
import copy
import json
import os
import random
import re
import shutil
import time
from concurrent.futures import ThreadPoolExecutor

from .. import core
from ..core import Inconclusive

SPEC = os.path.join(core.VERIF, "spec", "ForwardPolicy")
LEVEL = "model_checking"

FIELDS = ["in", "out", "inExp", "outExp", "height", "base", "rate", "minH", "maxH", "delta", "rdelta",
          "maxCltv", "ibase", "irate", "bw"]
BW_SMALL = 1000                    # msat - the lattice's channel (ForwardPolicyMC.cfg: BW)
BW_BOX = 500_000_000_000           # 5 BTC of spendable bandwidth for the realistic box
BW_BIG = 20_000_000_000_000        # 200 BTC: room for the F5 witnesses
MIL = 1_000_000
KEY_F5 = "F5:inbound-fee-int64-overflow"
KEY_F5B = "F5b:height-plus-delta-uint32-wrap"
VERDICTS = ["ok", "FeeInsufficient", "AmountBelowMinimum", "HtlcExceedsMax", "InsufficientBalance",
            "ExpiryTooSoon", "ExpiryTooFar", "IncorrectCltvExpiry"]


# --------------------------------------------------------------------------- case generation (inputs only)
def _tdiv(a, b):
    return a // b if a >= 0 else -((-a) // b)


def _need(out, base, rate, ibase, irate):
    """Input placement only (where the fee boundary lies) - never used to judge a verdict."""
    of = base + out * rate // MIL
    r = max(-10 * MIL, min(10 * MIL, irate))
    return out + of + ibase + _tdiv(r * (out + of), MIL)


def box_cases(seed, n):
    """Seeded, boundary-biased inputs over the realistic box: out <= 10^12 msat, rates <= 10^6 ppm,
    |inbound rate| <= 10^6 ppm, heights/expiries < 2^31.  Every comparison's operands are drawn from the
    other side's threshold -2..+2."""
    rng = random.Random(seed * 7919 + 17)
    bw = BW_BOX

    def near(x):
        d = rng.randrange(3)
        return max(0, x + rng.choice((-d, d, 0)))

    out = []
    while len(out) < n:
        c = {}
        c["base"] = rng.choice((0, 1, 1000, 5000, 1_000_000, 4294967295, rng.randrange(0, 100000)))
        c["rate"] = rng.choice((0, 1, 100, 2500, 999_999, 1_000_000, rng.randrange(0, MIL + 1)))
        o = rng.choice((1, 999, 1000, 100_000, 1_000_000, 123_456_789, bw - 1, bw, bw + 1, 10 ** 12 - 1, 10 ** 12,
                        rng.randrange(1, 10 ** 12), rng.randrange(1, 10 ** 7), rng.randrange(1, bw)))
        if c["rate"] > 0 and rng.random() < 0.3:      # out * rate next to a multiple of 10^6 (rounding)
            m = rng.randrange(1, 10 ** 6)
            o = -(-m * MIL // c["rate"])
        o = c["out"] = min(near(o), 10 ** 12)
        # min/max around the amount; most of the time on the passing side of the threshold
        c["minH"] = rng.choice((0, 1, 1000, max(0, o - 1), o, o, o + 1))
        c["maxH"] = rng.choice((0, 10 ** 12, bw, o + 1, o, o, max(0, o - 1), max(1, o - 1)))
        c["ibase"] = rng.choice((0, 1, 1000, 500_000, 2147483647, rng.randrange(0, 10 ** 6))) * rng.choice((1, -1))
        c["irate"] = rng.choice((0, 1, 100, 50_000, 999_999, 1_000_000, rng.randrange(0, MIL + 1))) * rng.choice((1, -1))
        need = max(0, _need(c["out"], c["base"], c["rate"], c["ibase"], c["irate"]))
        c["in"] = near(max(need, c["out"])) if rng.random() < 0.9 else near(rng.choice((need, c["out"])))
        c["rdelta"] = rng.choice((0, 3, 10, 40))
        c["maxCltv"] = rng.choice((10, 2016, 100_000))
        c["delta"] = rng.choice((0, 1, 40, 144, c["maxCltv"], c["maxCltv"] + 1))
        h = rng.choice((0, 1, 500_000, 800_000, 2 ** 31 - 1 - 300_000, rng.randrange(0, 2 ** 31 - 300_000)))
        c["height"] = h
        if rng.random() < 0.75:     # keep the expiry side passing often so that all eight rules get decided
            oe = rng.choice((h + c["rdelta"] + 1, h + c["maxCltv"], h + c["rdelta"] + 1 + rng.randrange(0, max(1, c["maxCltv"] - c["rdelta"]))))
            oe = oe if rng.random() < 0.5 else near(oe)
        else:
            oe = near(rng.choice((h + c["rdelta"], h + c["rdelta"] + 1, h + c["maxCltv"], h + 100)))
        c["outExp"] = oe
        c["inExp"] = near(rng.choice((oe, oe + c["delta"], oe + c["maxCltv"], oe + 40, oe + c["delta"])))
        c["bw"] = bw
        c["tag"] = "box"
        assert c["inExp"] < 2 ** 31 and c["outExp"] < 2 ** 31
        out.append(c)
    return out


def witnesses():
    """Targeted inputs outside the realistic box where machine words wrap (DESIGN 10.6/10.7)."""
    common = dict(inExp=800_143, outExp=800_103, height=800_000, base=0, rate=0, minH=0, maxH=0, delta=40,
                  rdelta=3, maxCltv=2016, ibase=0, bw=BW_BIG)
    w = []
    # F5: |clamped inbound rate| * (out + outFee) >= 2^63
    o = 950_000_000_000
    w.append(dict(common, tag="F5:discount-1000pct-9.5BTC", out=o, **{"in": o}, irate=-10_000_000))
    w.append(dict(common, tag="F5:int32min-clamped-9.9BTC", out=990_000_000_000, **{"in": 990_000_000_000}, irate=-2147483648))
    w.append(dict(common, tag="F5:surcharge-1000pct-9.5BTC", out=o, **{"in": o}, irate=10_000_000))
    w.append(dict(common, tag="F5:discount-100pct-18BTC", out=18_000_000_000_000, **{"in": 18_000_000_000_000},
                  irate=-1_000_000))
    # F5b: heightNow + OutgoingCltvRejectDelta / + MaxOutgoingCltvExpiry wrap in uint32
    amounts = dict(out=1_000_000, base=1000, rate=0, minH=0, maxH=0, ibase=0, irate=0, bw=BW_BIG, **{"in": 1_001_000})
    w.append(dict(amounts, tag="F5b:expired-htlc-accepted", height=2 ** 32 - 1, rdelta=3, maxCltv=2016, delta=40,
                  outExp=3, inExp=43))
    w.append(dict(amounts, tag="F5b:valid-expiry-rejected", height=2 ** 32 - 1000, rdelta=3, maxCltv=2016, delta=40,
                  outExp=2 ** 32 - 900, inExp=2 ** 32 - 860))
    return w


# --------------------------------------------------------------------------- Apalache batch validation
BATCH_HEAD = """---- MODULE %s ----
(* generated: recorded cases of the real channelLink, judged by ForwardPolicyRules (scalar boolean form AgreeS) *)
EXTENDS ForwardPolicyRules
VARIABLE
  \\* @type: Int;
  dummy
\\* @type: (Int, Int, Int, Int, Int, Int, Int, Int, Int, Int, Int, Int, Int, Int, Int, Str, Str) => Bool;
Chk(a1, a2, a3, a4, a5, a6, a7, a8, a9, a10, a11, a12, a13, a14, a15, v, vt) ==
  /\\ AgreeS(a1, a2, a3, a4, a5, a6, a7, a8, a9, a10, a11, a12, a13, a14, a15, v, TRUE)
  /\\ AgreeS(a1, a2, a3, a4, a5, a6, a7, a8, a9, a10, a11, a12, a13, a14, a15, vt, FALSE)
"""


def batch_module(name, recs):
    """One operator per record (keeps Apalache's type checker linear), grouped conjunctions."""
    lines = [BATCH_HEAD % name]
    for i, r in enumerate(recs):
        lines.append("R%d == Chk(%s, \"%s\", \"%s\")" % (
            i, ", ".join(str(int(r[f])) for f in FIELDS), _safe(r["v"]), _safe(r["vt"])))
    groups = []
    for g in range(0, len(recs), 20):
        groups.append("G%d" % (g // 20))
        lines.append("G%d == %s" % (g // 20, " /\\ ".join("R%d" % i for i in range(g, min(g + 20, len(recs))))))
    lines.append("AllAgree == " + " /\\ ".join(groups))
    lines.append("Init == dummy = 0\nNext == UNCHANGED dummy\n====\n")
    return "\n".join(lines)


def _safe(s):
    return re.sub(r"[^A-Za-z0-9_:.-]", "_", str(s))


def apalache_batch(d, name, recs, timeout=900):
    """Returns ('ok'|'violated'|'error', wall, output)."""
    os.makedirs(d, exist_ok=True)
    shutil.copy(os.path.join(SPEC, "ForwardPolicyRules.tla"), d)
    with open(os.path.join(d, name + ".tla"), "w") as fo:
        fo.write(batch_module(name, recs))
    cmd = ["apalache-mc", "check", "--length=0", "--inv=AllAgree", "--out-dir=" + os.path.join(d, "_apalache-out"),
           name + ".tla"]
    rc, out, wall = core.sh(cmd, cwd=d, timeout=timeout, outfile=os.path.join(d, name + ".out"),
                            env={"JVM_ARGS": "-Xmx2g", "JVM_GC_ARGS": "-XX:+UseSerialGC"})
    shutil.rmtree(os.path.join(d, "_apalache-out"), ignore_errors=True)
    if rc == 124:
        subprocess_kill(d)
        return "error", wall, "timeout"
    if "The outcome is: NoError" in out:
        return "ok", wall, out
    if "The outcome is: Error" in out and re.search(r"violat|Found \d+ error", out):
        return "violated", wall, out
    return "error", wall, out


def subprocess_kill(d):
    import subprocess
    subprocess.run("pkill -f 'apalache.*%s'" % re.escape(d), shell=True)


def failing_records(d, name, recs, par):
    """Binary search of a rejected chunk for ONE record that Apalache rejects (a chunk of a broken build may
    contain hundreds; one deterministic reproduction per chunk is what the report needs)."""
    k = 0
    while len(recs) > 1:
        k += 1
        h = len(recs) // 2
        st, _, out = apalache_batch(os.path.join(d, "bisect%d" % k), "%sb%d" % (name, k), recs[:h])
        if st == "error":
            raise Inconclusive("Apalache failed while bisecting %s:\n%s" % (name, out[-2000:]))
        recs = recs[:h] if st == "violated" else recs[h:]
    st, _, out = apalache_batch(os.path.join(d, "bisect_last"), name + "one", recs)
    if st != "violated":
        raise Inconclusive("bisection of %s did not isolate a rejected record (%s)" % (name, st))
    return recs


# --------------------------------------------------------------------------- symbolic runs (Apalache)
def apalache_sym(d, name, cinit, init, inv, timeout=900):
    """ForwardPolicyApa with the real word widths. Returns (status, wall, out, witness-case-or-None)."""
    os.makedirs(d, exist_ok=True)
    for f in ("ForwardPolicyRules.tla", "ForwardPolicy.tla", "ForwardPolicyApa.tla"):
        shutil.copy(os.path.join(SPEC, f), d)
    od = os.path.join(d, "_apalache-out")
    cmd = ["apalache-mc", "check", "--cinit=" + cinit, "--init=" + init, "--next=ApaNext", "--inv=" + inv, "--length=9",
           "--out-dir=" + od, "ForwardPolicyApa.tla"]
    rc, out, wall = core.sh(cmd, cwd=d, timeout=timeout, outfile=os.path.join(d, name + ".out"),
                            env={"JVM_ARGS": "-Xmx3g", "JVM_GC_ARGS": "-XX:+UseSerialGC"})
    wit = None
    st = "error"
    if rc == 124:
        subprocess_kill(d)
    elif "The outcome is: NoError" in out:
        st = "ok"
    elif "The outcome is: Error" in out and "Found 1 error" in out:
        st = "violated"
        import glob
        fs = sorted(glob.glob(os.path.join(od, "*", "*", "violation1.itf.json")))
        if fs:
            last = json.load(open(fs[-1]))["states"][-1]
            num = lambda v: int(v["#bigint"]) if isinstance(v, dict) else int(v)
            wit = {k: num(v) for k, v in last["c"].items()}
            wit["_model_verdict"] = last["verdict"]
            wit["_model_kind"] = last["kind"]
    shutil.rmtree(od, ignore_errors=True)
    return st, wall, out, wit


SYM_RUNS = [  # name, cinit, init, invariant, expected, what
    ("box", "CInit", "InitBox", "AgreesWhenDone", "ok",
     "Apalache, real words 2^64/2^32, ANY case of the realistic box: the machine agrees with the rules (length 9 = whole machine)"),
    ("wordsF5", "CInit", "InitWords", "F5Free", "ok",
     "Apalache, real words, ANY int32 inbound rate and amounts up to 180 BTC: no int64 wrap disagreement with the split CalcFee (881cf42)"),
    ("reach", "CInit", "InitBox", "NeverAccepts", "violated", "vacuity guard: an accepting forward is reachable in the box"),
    ("witF5", "CInitPreFix", "InitWitness", "F5Free", "violated",
     "Apalache finds an F5 witness (int64 wrap) for CalcFee as it was before 881cf42, on the 200 BTC channel"),
    ("witF5b", "CInit", "InitWitness", "F5bFree", "violated", "Apalache finds an F5b witness (uint32 wrap) with everyday margins"),
]


def sym_part(ck, sdir):
    """All symbolic runs in parallel; returns Apalache-generated witness cases for the executor."""
    with ThreadPoolExecutor(max_workers=5) as ex:
        futs = [(r, ex.submit(apalache_sym, os.path.join(sdir, r[0]), r[0], r[1], r[2], r[3])) for r in SYM_RUNS]
        res = [(r, f.result()) for r, f in futs]
    wits = []
    for (name, cinit, init, inv, expected, what), (st, wall, out, wit) in res:
        core.log("  [apalache-sym] %s (%s / %s): %s, %.0fs" % (name, init, inv, st, wall))
        ck.cov["model_runs"].append(dict(what=what, module="ForwardPolicyApa", cinit=cinit, init=init, invariant=inv,
                                         outcome=st, expected=expected, wall_s=round(wall, 1)))
        if st == "error":
            raise Inconclusive("Apalache failed on ForwardPolicyApa %s/%s:\n%s" % (init, inv, out[-3000:]))
        if st != expected:
            raise Inconclusive("spec problem (not a verdict about the code): ForwardPolicyApa %s/%s is %s, expected %s\n%s"
                               % (init, inv, st, expected, out[-2000:]))
        if name.startswith("wit") and wit:
            c = {f: wit[f] for f in FIELDS}
            c["tag"] = "F5b:apalache-witness" if name == "witF5b" else "F5:apalache-witness-for-pre-881cf42-code"
            wits.append(c)
    return wits


# --------------------------------------------------------------------------- the check
def mc_jobs(ck, thorough):
    """(callable, expected-violation) for every TLC model-checking run; they run side by side."""
    jobs = []
    x = ["-noGenerateSpecTE"]
    sfx = "_thorough" if thorough else ""
    jobs.append(lambda: ck.model_check(SPEC, "ForwardPolicyMC", "ForwardPolicyMC%s.cfg" % sfx,
                                       "decision machine on the full boundary lattice, ideal words (fwd + transit)",
                                       name="mc_ideal", timeout=1200, workers=4, extra=x))
    jobs.append(lambda: ck.model_check(SPEC, "ForwardPolicyMC", "ForwardPolicyMC_wrap%s.cfg" % sfx,
                                       "decision machine, scaled machine words (2^24 / 2^12): agrees inside the scaled box",
                                       name="mc_wrap", timeout=1200, workers=4, extra=x))

    def find(cfg, inv, what):
        r = ck.model_check(SPEC, "ForwardPolicyMC", cfg, "scaled words, no box: TLC must find the " + what,
                           must_hold=False, name="mc_" + inv, timeout=900, workers=2, extra=x)
        if r.violation != "invariant " + inv:
            raise Inconclusive("vacuity: the machine with wrapping words does not exhibit the %s (%s)" % (what, r.violation))
    jobs.append(lambda: find("ForwardPolicyMC_findF5.cfg", "F5Free", "signed product wrap (F5 class)"))
    jobs.append(lambda: find("ForwardPolicyMC_findF5b.cfg", "F5bFree", "height + delta wrap (F5b class)"))
    consts = None if thorough else {"Bases": "{0, 13}", "Rates": "{0, 2500, 1000000}", "IBaseMags": "{0, 7}",
                                    "IRateMags": "{0, 999, 1000000}", "Heights": "{100}"}
    jobs.append(lambda: ck.model_check(SPEC, "ForwardPolicyMC", "ForwardPolicyMC_boolform%s.cfg" % sfx,
                                       "scalar boolean form of the judgement (Apalache) = set form (TLC), every verdict, %s lattice"
                                       % ("full" if thorough else "reduced"),
                                       name="mc_boolform", timeout=1200, workers=2, constants=consts, extra=x))
    return jobs


def gen_lattice(ck, thorough):
    r = ck.tlc(SPEC, "ForwardPolicyGen", "ForwardPolicyGen%s.cfg" % ("_thorough" if thorough else ""), name="gen_lattice", mode="mc", workers=1,
               timeout=900, extra=["-noGenerateSpecTE"])
    p = os.path.join(r.dir, "cases.ndjson")
    if r.error or r.violation or not os.path.exists(p):
        raise Inconclusive("lattice generation failed: %s\n%s" % (r.error or r.violation, r.out[-3000:]))
    n = sum(1 for _ in open(p))
    if n != r.distinct - 1:
        raise Inconclusive("lattice dump has %d lines for %d distinct cases" % (n, r.distinct - 1))
    core.log("  [gen] boundary lattice: %d distinct cases, %.0fs" % (n, r.wall))
    ck.cov["model_runs"].append(dict(what="generate lattice", module="ForwardPolicyGen", cases=n, wall_s=round(r.wall, 1)))
    return p, n


# both executors are always injected together: the second `go test` finds the package already compiled
HARNESS = ["htlcswitch/c09_test.go", "htlcswitch/c09_switch_test.go", "htlcswitch/c09_aux_test.go",
           "htlcswitch/c09_inbound_test.go"]


def execute(ck, cases_path, name="exec", extra_overlay=None, aux_cases=None):
    """CheckHtlcForward/CheckHtlcTransit of a real link on every case; with aux_cases the traffic-shaper cases are
    executed by the same test binary (trace_aux.ndjson next to trace.ndjson)."""
    env = {"VERIF_CASES": cases_path}
    pat = "^TestVerifC09ForwardPolicy$"
    if aux_cases:
        env["VERIF_AUX_CASES"] = aux_cases
        pat = "^TestVerifC09(ForwardPolicy|Aux)$"
    res = ck.go_test("./htlcswitch/", pat, HARNESS, env=env, name=name, timeout=1500,
                     extra_overlay=extra_overlay or EXTRA_OVERLAY)
    trace = os.path.join(res["dir"], "trace.ndjson")
    if res["rc"] != 0 or not os.path.exists(trace):
        raise Inconclusive("executor failed:\n" + res["out"][-3000:])
    if aux_cases and not os.path.exists(os.path.join(res["dir"], "trace_aux.ndjson")):
        raise Inconclusive("traffic-shaper executor wrote no trace:\n" + res["out"][-3000:])
    return trace


EXTRA_OVERLAY = None
if os.environ.get("VERIF_C09_OVERLAY"):     # mutation controls / candidate repairs: "pkg/file.go=/path/patched.go,..."
    EXTRA_OVERLAY = dict(x.split("=", 1) for x in os.environ["VERIF_C09_OVERLAY"].split(","))


def case_of(r):
    return {f: r[f] for f in FIELDS}


def lattice_chain(ck, thorough, fut_wits):
    """generate the lattice -> execute everything on the real link -> TLC validates the lattice part."""
    lattice_path, nlat = gen_lattice(ck, thorough)
    nbox = 24000 if thorough else 2500
    box = box_cases(ck.seed, nbox)
    wit = witnesses() + fut_wits.result()
    allcases = os.path.join(ck.out, "cases_all.ndjson")
    shutil.copy(lattice_path, allcases)
    with open(allcases, "a") as fo:
        for c in box + wit:
            fo.write(json.dumps(c, separators=(",", ":")) + "\n")
    aux_cases, naux = gen_aux(ck)
    trace = execute(ck, allcases, aux_cases=aux_cases)
    ck.aux_result = (os.path.join(os.path.dirname(trace), "trace_aux.ndjson"), naux)

    lat_trace = os.path.join(ck.out, "trace_lattice.ndjson")
    big, nl, hist = [], 0, {}
    with open(trace) as fi, open(lat_trace, "w") as fo:
        for line in fi:
            if '"tag"' in line:
                big.append(json.loads(line))
            else:
                fo.write(line)
                nl += 1
                m = re.search(r'"v":"([^"]*)","vt":"([^"]*)"', line)
                hist[m.group(1)] = hist.get(m.group(1), 0) + 1
                hist["transit:" + m.group(2)] = hist.get("transit:" + m.group(2), 0) + 1
    if nl != nlat or len(big) != len(box) + len(wit):
        raise Inconclusive("executor recorded %d+%d cases, expected %d+%d" % (nl, len(big), nlat, len(box) + len(wit)))
    for v in VERDICTS:
        if not hist.get(v):
            raise Inconclusive("vacuity: verdict %s never returned by CheckHtlcForward on the lattice" % v)
    ck.cov["evaluations"] += 2 * (nl + len(big))
    ck.cov["verdicts_lattice"] = hist
    return lat_trace, nl, big


def run(ck):
    thorough = ck.tier == "thorough"
    par = int(os.environ.get("VERIF_C09_PAR", "0")) or min(16, core.NCPU)
    if getattr(ck, "replay", None):
        if os.path.isdir(ck.replay) and os.path.exists(os.path.join(ck.replay, "schedule_switch.ndjson")):
            return switch_replay(ck)
        return replay(ck, par)
    if os.environ.get("VERIF_C09_PARTS") == "switch":       # development: the switch-level part alone
        return switch_part(ck, thorough)
    if os.environ.get("VERIF_C09_PARTS") == "inbound":      # development: the incoming-side part alone
        inbound_part(ck, thorough)
        ck.cov["rule"] = ck.cov["rule_inbound"]
        ck.cov["trusted_base"] = ["TLC"]
        return
    if os.environ.get("VERIF_C09_PARTS") == "aux":          # development: the traffic-shaper part alone
        return aux_part(ck)

    # ---- (i) model checking (TLC + Apalache symbolic), lattice generation and execution, side by side
    sdir = ck.scratch("apalache_sym")
    with ThreadPoolExecutor(max_workers=8) as ex:
        fut_wits = ex.submit(sym_part, ck, sdir)
        fut_chain = ex.submit(lattice_chain, ck, thorough, fut_wits)
        fut_switch = ex.submit(switch_part, ck, thorough)
        fut_inbound = ex.submit(inbound_part, ck, thorough)
        futs = [ex.submit(j) for j in mc_jobs(ck, thorough)] + [ex.submit(aux_mc, ck)]
        errs = []
        for f in [fut_wits, fut_chain, fut_switch, fut_inbound] + futs:
            try:
                f.result()
            except Inconclusive as e:
                errs.append(e)
        if errs:
            raise errs[0]
    ck.cov["exhaustive"] = True
    lat_trace, nl, big = fut_chain.result()

    # ---- (i) TLC validates every lattice verdict
    v = ck.validate(SPEC, "ForwardPolicyTrace", "ForwardPolicyTrace.cfg", lat_trace, name="val_lattice", timeout=1500)
    if not v["ok"]:
        report_tlc(ck, lat_trace, v)
    else:
        ck.cov["traces_validated_against_impl"] += nl
        tlc_control(ck, lat_trace)
    ck.cov["distinct_nontrivial"] += nl     # the lattice dump is a set of distinct cases (TLC fingerprints)

    # ---- (v) TLC validates every verdict of the traffic-shaper lattice
    aux_judge(ck, *ck.aux_result)

    # ---- (ii) Apalache validates the 64-bit cases in parallel chunks
    boxrecs = [r for r in big if r.get("tag") == "box"]
    witrecs = [r for r in big if r.get("tag") != "box"]
    chunk = 250
    chunks = [boxrecs[i:i + chunk] for i in range(0, len(boxrecs), chunk)]
    t0 = time.time()
    adir = ck.scratch("apalache")
    with ThreadPoolExecutor(max_workers=par) as ex:
        futs = [ex.submit(apalache_batch, os.path.join(adir, "c%03d" % i), "B%03d" % i, ch) for i, ch in enumerate(chunks)]
        wfuts = [ex.submit(apalache_batch, os.path.join(adir, "w%d" % i), "W%d" % i, [r]) for i, r in enumerate(witrecs)]
        cfut = ex.submit(apalache_control, adir, chunks[0])
        results = [f.result() for f in futs]
        wresults = [f.result() for f in wfuts]
        ctl = cfut.result()
    awall = time.time() - t0
    core.log("  [apalache] %d chunks of <= %d records + %d witnesses + control, %d parallel: %.0fs (chunk max %.0fs)" % (
        len(chunks), chunk, len(witrecs), par, awall, max(r[1] for r in results)))
    ck.cov["validations"].append(dict(module="ForwardPolicyRules.AgreeS (Apalache batch)", chunks=len(chunks),
                                      records=len(boxrecs), wall_s=round(awall, 1),
                                      result="accepted" if all(r[0] == "ok" for r in results) else "rejected"))
    ck.cov["apalache_cmd"] = "apalache-mc check --length=0 --inv=AllAgree B<nnn>.tla"
    okrecs = 0
    rejected = []
    for i, (st, wall, out) in enumerate(results):
        if st == "error":
            raise Inconclusive("Apalache failed on chunk %d:\n%s" % (i, out[-3000:]))
        if st == "ok":
            okrecs += len(chunks[i])
        else:
            rejected.append(i)
    if rejected:
        # one isolated reproduction for each of the first three rejected chunks, side by side
        with ThreadPoolExecutor(max_workers=3) as ex:
            futs = [ex.submit(failing_records, os.path.join(adir, "c%03d" % i), "B%03d" % i, chunks[i], par)
                    for i in rejected[:3]]
            for f in futs:
                for r in f.result():
                    report_box(ck, r, adir)
        ck.cov["apalache_chunks_rejected"] = len(rejected)
    ck.cov["traces_validated_against_impl"] += okrecs
    ck.cov["distinct_nontrivial"] += len({core.sha(json.dumps(case_of(r), sort_keys=True)) for r in boxrecs})
    bh = {}
    for r in boxrecs:
        bh[r["v"]] = bh.get(r["v"], 0) + 1
    ck.cov["verdicts_box"] = bh
    if all(r[0] == "ok" for r in results):
        if ctl[0] != "violated":
            raise Inconclusive("Apalache negative control not rejected (%s): %s" % (ctl[0], ctl[2][-1500:]))
        ck.cov.setdefault("negative_controls", []).append(dict(mutation=ctl[3] + " (Apalache chunk)", rejected_by="AllAgree"))

    # ---- (iii) witnesses outside the box
    wsum = []
    for r, (st, wall, out) in zip(witrecs, wresults):
        if st == "error":
            raise Inconclusive("Apalache failed on witness %s:\n%s" % (r["tag"], out[-3000:]))
        wsum.append(dict(tag=r["tag"], forward=r["v"], transit=r["vt"], agrees_with_exact_arithmetic=(st == "ok")))
        if st == "violated":
            key = KEY_F5B if r["tag"].startswith("F5b") else KEY_F5
            p = os.path.join(ck.out, "witness_%s.ndjson" % _safe(r["tag"]))
            core.write_ndjson(p, [r])
            ck.violation(key, "outside the realistic box the link's verdict differs from exact arithmetic (%s): "
                              "CheckHtlcForward=%s CheckHtlcTransit=%s on %s" % (r["tag"], r["v"], r["vt"], json.dumps(case_of(r))),
                         files={"cases.ndjson": p}, text="witness %s; judged by ForwardPolicyRules.AgreeS with SMT integers" % r["tag"])
    ck.cov["witnesses_outside_box"] = wsum

    ck.cov["samples"] += [dict(kind="lattice", first=_head(lat_trace, 2)),
                          dict(kind="box", first=boxrecs[:2]), dict(kind="witness", first=witrecs[:1])]
    ck.cov["rule"] = (ck.cov.get("rule_switch", "") + ck.cov.get("rule_inbound", "") +
                      "aux: TLC-enumerated bounds lattice x every answer of a traffic shaper (configured or not, records "
                      "none/wire/asset/both, channel handled or not, aux bandwidth around the link's), executed through "
                      "CheckHtlcForward and CheckHtlcTransit of a real channelLink with an executor-side shaper, judged by TLC; "
                      "lattice: TLC-enumerated boundary lattice (every comparison's -1/0/+1 neighbourhood crossed, small "
                      "integers), each case executed through CheckHtlcForward and CheckHtlcTransit of a real channelLink "
                      "and judged by TLC; box: seeded boundary-biased 64-bit cases judged by Apalache; distinct = distinct "
                      "input tuples; every case is a full decision (non-trivial by construction: inputs sit on or next to a threshold)")
    ck.cov["trusted_base"] = ["TLC 1.8.0 + CommunityModules (Json, CSV)", "Apalache 0.58.0 / Z3 (SMT integers)",
                              "executor projection: wire failure type + FailureDetail -> verdict name",
                              "link.Bandwidth() as reported by the real channel is an input of the judgement",
                              "python generator of box inputs (placement only, no judgement)",
                              "executor-side AuxTrafficShaper (answers what the case says: IsCustomHTLC by record type, "
                              "ShouldHandleTraffic, PaymentBandwidth)",
                              "incoming side: executor plays the remote peer of the incoming channel (update_add_htlc + commitment "
                              "dance through lnwallet) and the event loop of the incoming link object (processRemoteAdds / "
                              "resolveFwdPkg on the packages loaded from disk); mock onion decoder of the package's tests"]
    ck.assumptions += ["must-agree domain = realistic box: out <= 10^12 msat, base < 2^32, rates <= 10^6 ppm, |inbound rate| <= 10^6 ppm, "
                       "heights/expiries/deltas < 2^31; outside it only the listed / Apalache-generated F5 and F5b witnesses are judged",
                       "max_htlc = 0 is read as 'no maximum' (lnd's encoding)",
                       "lattice/box/switch parts: no AuxTrafficShaper configured (bandwidth = channel.AvailableBalance()); the "
                       "traffic-shaper part takes the shaper's answers as environment inputs (named deviations: a custom HTLC the "
                       "shaper recognises is exempt from min/max_htlc, a channel it handles has the bandwidth it reports)",
                       "incoming side: one add per forwarding package, legacy onion payloads naming a channel, the switch keeps "
                       "running across link restarts (a duplicate of a committed circuit is dropped, not failed); the crash window "
                       "between SetFwdFilter and Switch.ForwardPackets is played by the link's closed quit channel",
                       "switch level: one incoming (mock) link, channels without option-scid-alias / zero-conf, fixed height; "
                       "the remote peers are silent after update_add_htlc (wire tap), so handed-over HTLCs stay pending; "
                       "dust-exposure rejections of the switch are outside the explored amounts"]


# --------------------------------------------------------------------------- (v) link level with a traffic shaper
AUX_INVS = ["AuxDecisionAgrees", "ShaperAloneChangesNothing", "AcceptOutsideLimitsOnlyIfCustom",
            "AcceptAboveBandwidthOnlyIfHandled"]
AUX_BAD = [("recordsExempt", "min/max exemption granted when a shaper is configured and ANY custom record is present"),
           ("shaperExempt", "min/max exemption granted whenever a shaper is configured"),
           ("auxBwUnhandled", "the shaper's bandwidth used for a channel it does not handle")]
AUX_GUARDS = [("exemptAccept", "an HTLC below min_htlc is accepted (custom HTLC)"),
              ("wireRejected", "an HTLC with ordinary wire records on a node with a shaper is rejected for min_htlc"),
              ("auxBwAccept", "an HTLC above the link's own bandwidth is accepted (shaper's bandwidth)"),
              ("auxBwReject", "an HTLC within the link's own bandwidth is rejected for the shaper's bandwidth")]


def aux_mc(ck):
    x = ["-noGenerateSpecTE"]
    ck.model_check(SPEC, "ForwardPolicyAuxMC", "ForwardPolicyAuxMC.cfg",
                   "link level with a traffic shaper: decision machine on the bounds lattice x every answer of the shaper "
                   "(fwd + transit)", name="mc_aux", timeout=900, workers=2, extra=x)
    def bad(v, what):
        r = ck.model_check(SPEC, "ForwardPolicyAuxMC", "ForwardPolicyAuxMC_bad.cfg", "traffic shaper (slice of the lattice), wrong variant must break the property: " + what,
                           must_hold=False, name="mc_aux_bad_" + v, timeout=600, workers=2,
                           constants={"Variant": '"%s"' % v}, extra=x)
        if (r.violation or "").replace("invariant ", "") not in AUX_INVS:
            raise Inconclusive("the invariants of ForwardPolicyAux do not see the wrong variant '%s' (%s)" % (v, r.violation))

    def guard(g, what):
        r = ck.model_check(SPEC, "ForwardPolicyAuxMC", "ForwardPolicyAuxMC_guard.cfg", "traffic shaper, vacuity guard: " + what,
                           must_hold=False, name="mc_aux_guard_" + g, timeout=600, workers=2,
                           constants={"Guard": '"%s"' % g}, extra=x)
        if r.violation != "invariant GuardInv":
            raise Inconclusive("vacuity: ForwardPolicyAux never reaches '%s' (%s)" % (what, r.violation))
    with ThreadPoolExecutor(max_workers=2) as ex:
        futs = [ex.submit(bad, v, w) for v, w in AUX_BAD] + [ex.submit(guard, g, w) for g, w in AUX_GUARDS]
        for f in futs:
            f.result()


def gen_aux(ck):
    r = ck.tlc(SPEC, "ForwardPolicyAuxGen", "ForwardPolicyAuxGen.cfg", name="gen_aux", mode="mc", workers=1,
               timeout=900, extra=["-noGenerateSpecTE"])
    p = os.path.join(r.dir, "cases_aux.ndjson")
    if r.error or r.violation or not os.path.exists(p):
        raise Inconclusive("traffic-shaper lattice generation failed: %s\n%s" % (r.error or r.violation, r.out[-3000:]))
    n = sum(1 for _ in open(p))
    if n != r.distinct - 1:
        raise Inconclusive("traffic-shaper lattice dump has %d lines for %d distinct cases" % (n, r.distinct - 1))
    core.log("  [gen] traffic-shaper lattice: %d distinct cases, %.0fs" % (n, r.wall))
    ck.cov["model_runs"].append(dict(what="generate traffic-shaper lattice", module="ForwardPolicyAuxGen", cases=n,
                                     wall_s=round(r.wall, 1)))
    return p, n


def aux_validate(ck, trace, name):
    return ck.validate(SPEC, "ForwardPolicyAuxTrace", "ForwardPolicyAuxTrace.cfg", trace, name=name, timeout=900)


def aux_judge(ck, trace, naux):
    """TLC validates every recorded verdict of the traffic-shaper lattice; negative controls on an accepted trace."""
    hist, n = {}, 0
    with open(trace) as fi:
        for line in fi:
            n += 1
            m = re.search(r'"shaper":(\d),"rec":"([^"]*)","handles":(\d).*"v":"([^"]*)","vt":"([^"]*)"', line)
            k = "shaper%s/%s/handles%s:%s" % (m.group(1), m.group(2), m.group(3), m.group(4))
            hist[k] = hist.get(k, 0) + 1
    if n != naux:
        raise Inconclusive("traffic-shaper executor recorded %d cases, expected %d" % (n, naux))
    ck.cov["evaluations"] += 2 * n
    ck.cov["verdicts_aux"] = hist
    v = aux_validate(ck, trace, "val_aux")
    if not v["ok"]:
        ln = v["line"] or 1
        bad = None
        with open(trace) as fi:
            for i, line in enumerate(fi, 1):
                if i == ln:
                    bad = json.loads(line)
                    break
        p = os.path.join(ck.out, "failing_aux_case.ndjson")
        core.write_ndjson(p, [bad] if bad else [])
        inv = (v["invariant"] or "").replace("invariant ", "")
        a = bad or {}
        ck.violation("aux:%s:shaper%s/%s/handles%s" % (inv, a.get("shaper"), a.get("rec"), a.get("handles")),
                     "real channelLink with a traffic shaper deviates from spec/ForwardPolicy/ForwardPolicyAux (%s): %s"
                     % (inv, json.dumps(bad)), files={"cases_aux.ndjson": p}, text=v["cex"])
        return
    for k in ("shaper1/wire/handles0:AmountBelowMinimum", "shaper1/asset/handles0:ok", "shaper1/both/handles1:ok",
              "shaper1/none/handles1:InsufficientBalance", "shaper0/asset/handles0:HtlcExceedsMax"):
        if not hist.get(k):
            raise Inconclusive("vacuity: no recorded traffic-shaper case '%s'" % k)
    ck.cov["traces_validated_against_impl"] += n
    ck.cov["distinct_nontrivial"] += n      # the dump is a set of distinct cases (TLC fingerprints)
    # negative controls: ONE recorded field of an accepted trace is corrupted
    recs = _head(trace, 100000)
    ctl = []
    muts = [("v: AmountBelowMinimum -> ok on a case with a shaper and ordinary wire records", "ForwardAgreesAux",
             lambda r: r["shaper"] == 1 and r["rec"] == "wire" and r["v"] == "AmountBelowMinimum", lambda r: r.update(v="ok")),
            ("rec: asset -> wire on an accepted custom HTLC below min_htlc", "ForwardAgreesAux",
             lambda r: r["shaper"] == 1 and r["rec"] == "asset" and r["v"] == "ok" and r["out"] < r["minH"], lambda r: r.update(rec="wire")),
            ("handles: 1 -> 0 on an HTLC accepted above the link's own bandwidth", "ForwardAgreesAux",
             lambda r: r["shaper"] == 1 and r["handles"] == 1 and r["v"] == "ok" and r["out"] > r["bw"], lambda r: r.update(handles=0)),
            ("vt: -> ok on a transit rejection with a shaper", "TransitAgreesAux",
             lambda r: r["shaper"] == 1 and r["vt"] != "ok", lambda r: r.update(vt="ok"))]
    for k, (mut, expect, pick, corrupt) in enumerate(muts):
        i = next((j for j, r in enumerate(recs) if pick(r)), None)
        if i is None:
            raise Inconclusive("traffic-shaper negative control: no recorded case for '%s'" % mut)
        lo = max(0, i - 50)
        bad = copy.deepcopy(recs[lo:i + 50])
        corrupt(bad[i - lo])
        p = os.path.join(ck.out, "control_aux_%d.ndjson" % k)
        core.write_ndjson(p, bad)
        v = aux_validate(ck, p, "control_aux_%d" % k)
        inv = (v["invariant"] or "").replace("invariant ", "")
        if v["ok"]:
            raise Inconclusive("traffic-shaper negative control accepted (%s): trace validation is not binding" % mut)
        if v["line"] != i - lo + 1 or inv != expect:
            raise Inconclusive("traffic-shaper negative control '%s' rejected by %s at line %s, expected %s at line %d"
                               % (mut, inv, v["line"], expect, i - lo + 1))
        ctl.append(dict(mutation=mut + " (traffic-shaper trace)", rejected_by=v["invariant"], at_line=v["line"]))
    ck.cov.setdefault("negative_controls", []).extend(ctl)
    ck.cov["samples"].append(dict(kind="aux", first=[r for r in recs if r["shaper"] == 1 and r["rec"] == "wire"][:1]))


def aux_part(ck):
    """development: the traffic-shaper part alone (VERIF_C09_PARTS=aux)."""
    with ThreadPoolExecutor(max_workers=2) as ex:
        fmc = ex.submit(aux_mc, ck)
        p, n = gen_aux(ck)
        res = ck.go_test("./htlcswitch/", "^TestVerifC09Aux$", HARNESS, env={"VERIF_AUX_CASES": p}, name="exec_aux",
                         timeout=1500, extra_overlay=EXTRA_OVERLAY)
        trace = os.path.join(res["dir"], "trace_aux.ndjson")
        if res["rc"] != 0 or not os.path.exists(trace):
            raise Inconclusive("traffic-shaper executor failed:\n" + res["out"][-3000:])
        aux_judge(ck, trace, n)
        fmc.result()
    ck.cov["rule"] = "traffic-shaper lattice alone (development)"
    ck.cov["trusted_base"] = ["TLC"]



# --------------------------------------------------------------------------- (vi) incoming side
IN_INVS = ["InLinkHoldsAdvertised", "InboundFeeAsAdvertised"] + ["PolicyPropagated", "HandedOnlyIfAdvertisedAccepts",
           "FailedOnlyIfNoLinkAccepts", "FailureNamesViolatedRule", "UnknownNextPeerOnlyIf", "DecisionAsAdvertised"]
IN_BAD = [("replayZeroFee", "a re-forwarded add (package already Processed) carries the zero inbound fee"),
          ("restartDefault", "the link created at a restart holds the default (zero) inbound fee, not the advertised one")]
IN_GUARDS = [("redecided", "a Processed package without circuit is decided again after a restart"),
             ("redecidedFee", "... and the inbound fee changes that decision"),
             ("dropped", "a package whose circuit is committed is processed again")]


def inbound_mc(ck, thorough):
    x = ["-noGenerateSpecTE"]
    ck.model_check(SPEC, "SwitchInboundMC", "SwitchInboundMC.cfg",
                   "incoming side: every behaviour of <= %d steps (inbound-fee updates, adds locked in, packages processed "
                   "with / without reaching the switch, restarts), 5 inbound fees x 6 incoming amounts on their thresholds"
                   % (7 if thorough else 6), name="mc_inbound", timeout=1700, workers=4,
                   constants={"MaxSteps": 7} if thorough else None, extra=x)
    for v, what in IN_BAD:
        r = ck.model_check(SPEC, "SwitchInboundMC", "SwitchInboundMC.cfg", "incoming side, wrong variant must break the property: " + what,
                           must_hold=False, name="mc_inbound_bad_" + v, timeout=600, workers=2,
                           constants={"Variant": '"%s"' % v}, extra=x)
        if (r.violation or "").replace("invariant ", "") not in IN_INVS:
            raise Inconclusive("the invariants of SwitchInbound do not see the wrong variant '%s' (%s)" % (v, r.violation))
    for g, what in IN_GUARDS:
        r = ck.model_check(SPEC, "SwitchInboundMC", "SwitchInboundMC_guard.cfg", "incoming side, vacuity guard: " + what,
                           must_hold=False, name="mc_inbound_guard_" + g, timeout=600, workers=2,
                           constants={"Guard": '"%s"' % g}, extra=x)
        if r.violation != "invariant GuardInv":
            raise Inconclusive("vacuity: SwitchInbound never reaches '%s' (%s)" % (what, r.violation))


def inbound_execute(ck, sched_dir, name="exec_inbound"):
    res = ck.go_test("./htlcswitch/", "^TestVerifC09Inbound$", HARNESS, env={"VERIF_INBOUND": sched_dir, "VERIF_PAR": 4},
                     name=name, timeout=900, extra_overlay=EXTRA_OVERLAY)
    trace = os.path.join(res["dir"], "trace_inbound.ndjson")
    if res["rc"] != 0 or not os.path.exists(trace):
        raise Inconclusive("incoming-side executor failed:\n" + res["out"][-3000:])
    return trace


def inbound_validate(ck, trace, name):
    return ck.validate(SPEC, "SwitchInboundTrace", "SwitchInboundTrace.cfg", trace, name=name, timeout=900)


IN_SCHED_KEYS = ("a", "c", "set", "pol", "rt", "rx", "h", "hn", "init", "k", "reach", "fee")


def inbound_report(ck, recs, v):
    inv = (v["invariant"] or "").replace("invariant ", "")
    ln = v["line"] or 1
    a, b = core.slice_trace(recs, ln, _is_reset)
    one = recs[a:b]
    bad = recs[min(ln, len(recs)) - 1]
    if inv == "EnvAsModel":
        raise Inconclusive("incoming-side fixture did not behave as the model assumes at step %d of %s: %s"
                           % (ln - a - 1, bad.get("plan"), json.dumps(bad)[:1500]))
    replayed = bad.get("a") == "Proc" and any(r.get("a") == "Proc" and r.get("k") == bad.get("k") for r in one[:ln - a - 1])
    key = "inbound:%s:%s%s" % (inv, bad.get("a"), ":reforwarded" if replayed else "")
    tp = os.path.join(ck.out, "failing_inbound_trace.ndjson")
    core.write_ndjson(tp, one)
    sp = os.path.join(ck.out, "failing_inbound_schedule.ndjson")
    core.write_ndjson(sp, [{k: r[k] for k in IN_SCHED_KEYS} for r in one])
    lock = next((r for r in one if r.get("a") == "LockIn" and r.get("npkg") == bad.get("k")), {})
    what = ("package %s (add %s -> %s, %s) processed, reach=%s: packet inbound fee %s, outcome %s %s %s"
            % (bad.get("k"), json.dumps(lock.get("h")), lock.get("rx"), "re-forwarded" if replayed else "first time",
               bad.get("reach"), json.dumps(bad.get("pif")), bad.get("res"), bad.get("to"), bad.get("v"))
            if bad.get("a") == "Proc" else bad.get("a"))
    ck.violation(key, "real incoming link + Switch deviate from spec/ForwardPolicy/SwitchInbound (%s) at step %d of schedule %s: "
                      "%s; incoming link holds inbound fee %s" % (inv, ln - a - 1, bad.get("plan"), what, json.dumps(bad.get("enfin"))),
                 files={"trace_inbound.ndjson": tp, "schedule_inbound.ndjson": sp}, text=v["cex"])
    return key


def inbound_stats(recs):
    st = dict(behaviours=0, steps=0, updates=0, lockins=0, processed=0, decided=0, handed=0, failed_fee=0, unreached=0,
              restarts=0, redecided=0, redecided_fee_matters=0, dropped_duplicates=0)
    distinct = set()
    seen_proc, fee, adds = set(), {"base": 0, "rate": 0}, {}
    for r in recs:
        a = r["a"]
        if a == "Reset":
            st["behaviours"] += 1
            seen_proc, fee, adds = set(), {"base": 0, "rate": 0}, {}
            continue
        st["steps"] += 1
        if a == "UpdIn":
            st["updates"] += 1
            fee = r["fee"]
        elif a == "LockIn":
            st["lockins"] += 1
            adds[r["npkg"]] = (r["h"], r["rx"])
        elif a == "Restart":
            st["restarts"] += 1
        elif a == "Proc":
            st["processed"] += 1
            again = r["k"] in seen_proc
            seen_proc.add(r["k"])
            if r["res"] in ("fwd", "fail"):
                st["decided"] += 1
                st["handed"] += r["res"] == "fwd"
                st["failed_fee"] += r["v"] == "FeeInsufficient"
                if again:
                    st["redecided"] += 1
                    if fee != {"base": 0, "rate": 0}:
                        st["redecided_fee_matters"] += 1
                distinct.add(core.sha(json.dumps([adds.get(r["k"]), fee, again, r["reg"], r["bw"]], sort_keys=True)))
            elif r["reach"] == 0:
                st["unreached"] += 1
            elif r["circb"] == 1:
                st["dropped_duplicates"] += 1
    return st, len(distinct)


def inbound_controls(ck, recs):
    muts = [
        ("res: a re-forwarded add failed with fee_insufficient turned into a hand-over to the requested channel",
         "HandedOnlyIfAdvertisedAccepts",
         lambda r, one, i: r["a"] == "Proc" and r["v"] == "FeeInsufficient" and any(x["a"] == "Proc" and x["k"] == r["k"] for x in one[:i]),
         lambda r, one: r.update(res="fwd", v="ok", to=next(x["rx"] for x in one if x["a"] == "LockIn" and x["npkg"] == r["k"]))),
        ("pif: the inbound fee carried by the packet zeroed on a step with a non-zero advertised fee", "PacketCarriesAdvertisedFee",
         lambda r, one, i: r["a"] == "Proc" and r["npk"] > 0 and r["pif"] != {"base": 0, "rate": 0},
         lambda r, one: r.update(pif={"base": 0, "rate": 0})),
        ("enfin: the incoming link's inbound fee after an update left at the old value", "InLinkHoldsAdvertisedFee",
         lambda r, one, i: r["a"] == "UpdIn" and i > 0 and one[i - 1]["enfin"] != r["enfin"],
         lambda r, one: r.update(enfin={"base": r["enfin"]["base"] + 1, "rate": r["enfin"]["rate"]})),
        ("res: the decision of a re-forwarded add without circuit removed (as if dropped)", "DecidedWhenModelDecides",
         lambda r, one, i: r["a"] == "Proc" and r["res"] in ("fwd", "fail") and any(x["a"] == "Proc" and x["k"] == r["k"] for x in one[:i]),
         lambda r, one: r.update(res="none", to="-", v="-")),
    ]
    out = []
    bounds = [i for i, r in enumerate(recs) if r["a"] == "Reset"] + [len(recs)]
    for k, (mut, expect, pick, corrupt) in enumerate(muts):
        found = None
        for a, b in zip(bounds, bounds[1:]):
            one = recs[a:b]
            i = next((j for j, r in enumerate(one) if pick(r, one, j)), None)
            if i is not None:
                found = (copy.deepcopy(one), i)
                break
        if found is None:
            raise Inconclusive("incoming-side negative control: no recorded step for '%s'" % mut)
        one, i = found
        corrupt(one[i], one)
        p = os.path.join(ck.out, "control_inbound_%d.ndjson" % k)
        core.write_ndjson(p, one)
        v = inbound_validate(ck, p, "control_inbound_%d" % k)
        inv = (v["invariant"] or "").replace("invariant ", "")
        if v["ok"]:
            raise Inconclusive("incoming-side negative control accepted (%s): trace validation is not binding" % mut)
        if v["line"] != i + 1 or inv != expect:
            raise Inconclusive("incoming-side negative control '%s' rejected by %s at line %s, expected %s at line %d"
                               % (mut, inv, v["line"], expect, i + 1))
        out.append(dict(mutation=mut + " (incoming-side trace)", rejected_by=v["invariant"], at_line=v["line"]))
    ck.cov.setdefault("negative_controls", []).extend(out)


def inbound_part(ck, thorough):
    """(vi) model check SwitchInbound, generate schedules, replay them on the real incoming link + Switch, validate."""
    with ThreadPoolExecutor(max_workers=2) as ex:
        fmc = ex.submit(inbound_mc, ck, thorough)
        files = ck.generate(SPEC, "SwitchInboundGen", "SwitchInboundGen.cfg", 400 if thorough else 60, 40,
                            constants={"MaxLen": 31 if thorough else 25, "MaxPkgs": 5 if thorough else 4},
                            name="gen_inbound", timeout=1500)
        trace = inbound_execute(ck, os.path.dirname(files[0]))
        recs = core.read_ndjson(trace)
        st, distinct = inbound_stats(recs)
        if st["behaviours"] != len(files):
            raise Inconclusive("incoming-side executor recorded %d behaviours for %d schedules" % (st["behaviours"], len(files)))
        ck.cov["evaluations"] += st["steps"]
        ck.cov["incoming_side"] = st
        v = inbound_validate(ck, trace, "val_inbound")
        if not v["ok"]:
            inbound_report(ck, recs, v)
        else:
            for k in ("redecided", "redecided_fee_matters", "dropped_duplicates", "unreached", "failed_fee", "handed", "restarts"):
                if not st[k]:
                    raise Inconclusive("vacuity: no '%s' among the executed incoming-side steps" % k)
            ck.cov["traces_validated_against_impl"] += st["behaviours"]
            ck.cov["distinct_nontrivial"] += distinct
            inbound_controls(ck, recs)
        fmc.result()
    ck.cov["samples"].append(dict(kind="inbound", first=[r for r in recs if r["a"] == "Proc" and r["res"] in ("fwd", "fail")][:1]))
    ck.cov["rule_inbound"] = ("incoming side: TLC-simulated behaviours of SwitchInbound (inbound-fee updates, adds locked in through "
                              "the real commitment dance, forwarding packages processed by the real processRemoteAdds / resolveFwdPkg "
                              "with the batch reaching Switch.ForwardPackets or not, restarts) on a real incoming channelLink + the "
                              "real Switch, every step validated by TLC; distinct = distinct (add, advertised inbound fee, "
                              "first/re-forwarded, link state, bandwidths) of decided packages; ")



# --------------------------------------------------------------------------- (iv) switch level
SW_CHANS = ["c1", "c2", "c3", "c4"]
SW_PROPERTY_INVS = ["PolicyPropagated", "HandedOnlyIfAdvertisedAccepts", "FailedOnlyIfNoLinkAccepts",
                    "FailureNamesViolatedRule", "UnknownNextPeerOnlyIf", "DecisionAsAdvertised", "DecidedAtCurrentHeight"]
SW_GUARDS = [("shifted", "an HTLC is handed to a parallel channel, not the requested one"),
             ("policyFail", "a forward fails with a policy failure of the requested channel"),
             ("staleChannel", "a policy is advertised for a channel without a live link"),
             ("bwFail", "a forward fails for lack of bandwidth on every parallel channel"),
             ("skipIneligible", "an HTLC is handed over although the requested link is not eligible"),
             ("nodeHop", "a node-addressed (blinded) next hop is handed to a link"),
             ("reorgDecides", "a forward is decided after a reorg onto a shorter branch, differently than at the highest height seen")]
SW_BAD = [("stopAtMissing", "UpdateForwardingPolicies that stops at the first channel without a live link"),
          ("honourRequested", "handPacketAdd that prefers the requested channel among ALL candidates"),
          ("staleHeight", "handlePacketAdd that decides at the highest height seen, not at the height of the last epoch")]
# the epoch palette (block epochs in any order, HTLC expiries on the thresholds of every height): SwitchPolicyMC_epoch.cfg
SW_EPOCH_CONSTS = {"PolNames": '{"PA", "PF"}', "Heights": "{98, 100, 101, 104}",
                   "HtlcNames": '{"H5", "H6", "H12", "H13", "H14", "H15"}'}


def _is_reset(r):
    return r.get("a") == "Reset"


def switch_mc(ck, thorough):
    x = ["-noGenerateSpecTE"]
    ck.model_check(SPEC, "SwitchPolicyMC", "SwitchPolicyMC%s.cfg" % ("_thorough" if thorough else ""),
                   "switch level: every behaviour of <= 3 steps from every link registration, 4 channels "
                   "(2 parallel + 1 other peer + 1 pending), %s palettes" % ("larger" if thorough else "small"),
                   name="mc_switch", timeout=1700, workers=4, extra=x)
    if thorough:
        ck.model_check(SPEC, "SwitchPolicyMC", "SwitchPolicyMC.cfg",
                       "switch level: every behaviour of <= 4 steps, small palettes", name="mc_switch_deep", timeout=1700,
                       workers=4, constants={"MaxSteps": 4}, extra=x)
    ck.model_check(SPEC, "SwitchPolicyMC", "SwitchPolicyMC_epoch.cfg",
                   "switch level, block epochs: every behaviour of <= 3 steps with epochs of 4 heights in any order "
                   "(up, same, down = reorg) and HTLC expiries on the too-soon / too-far thresholds of every height",
                   name="mc_switch_epoch", timeout=1700, workers=4, extra=x)
    for g, what in SW_GUARDS:
        consts = {"Guard": '"%s"' % g}
        if g == "reorgDecides":
            consts.update(SW_EPOCH_CONSTS)
        r = ck.model_check(SPEC, "SwitchPolicyMC", "SwitchPolicyMC_guard.cfg", "switch level, vacuity guard: " + what,
                           must_hold=False, name="mc_switch_guard_" + g, timeout=600, workers=2,
                           constants=consts, extra=x)
        if r.violation != "invariant GuardInv":
            raise Inconclusive("vacuity: SwitchPolicy never reaches '%s' (%s)" % (what, r.violation))
    for v, what in SW_BAD:
        consts = {"Variant": '"%s"' % v}
        if v == "staleHeight":
            consts.update(SW_EPOCH_CONSTS)
        r = ck.model_check(SPEC, "SwitchPolicyMC", "SwitchPolicyMC_bad.cfg", "switch level, wrong variant must break the property: " + what,
                           must_hold=False, name="mc_switch_bad_" + v, timeout=600, workers=2,
                           constants=consts, extra=x)
        if (r.violation or "").replace("invariant ", "") not in SW_PROPERTY_INVS:
            raise Inconclusive("the invariants of SwitchPolicy do not see the wrong variant '%s' (%s)" % (v, r.violation))


def switch_execute(ck, sched_dir, name="exec_switch"):
    res = ck.go_test("./htlcswitch/", "^TestVerifC09Switch$", HARNESS, env={"VERIF_SWPOL": sched_dir, "VERIF_PAR": 4},
                     name=name, timeout=900, extra_overlay=EXTRA_OVERLAY)
    trace = os.path.join(res["dir"], "trace_switch.ndjson")
    if res["rc"] != 0 or not os.path.exists(trace):
        raise Inconclusive("switch-level executor failed:\n" + res["out"][-3000:])
    return trace


def switch_validate(ck, trace, name):
    return ck.validate(SPEC, "SwitchPolicyTrace", "SwitchPolicyTrace.cfg", trace, name=name, timeout=900)


def switch_report(ck, recs, v, seen=()):
    """A rejected behaviour of the real switch: cut it out, name the clause and the step.  Returns the key."""
    inv = (v["invariant"] or "").replace("invariant ", "")
    ln = v["line"] or 1
    a, b = core.slice_trace(recs, ln, _is_reset)
    one = recs[a:b]
    bad = recs[min(ln, len(recs)) - 1]
    key = "switch:%s:%s" % (inv, bad.get("a"))
    if key in seen:
        return key
    if inv == "EnvAsModel":
        raise Inconclusive("switch-level fixture did not behave as the model assumes (link eligibility / height) at step %d "
                           "of %s: %s" % (ln - a, bad.get("plan"), json.dumps(bad)[:1500]))
    tp = os.path.join(ck.out, "failing_switch_trace.ndjson")
    core.write_ndjson(tp, one)
    sp = os.path.join(ck.out, "failing_switch_schedule.ndjson")
    keys = ("a", "c", "set", "pol", "rt", "rx", "h", "hn", "init")
    core.write_ndjson(sp, [{k: r[k] for k in keys} for r in one])
    what = {"Fwd": "forward %s via %s/%s -> %s %s %s" % (json.dumps(bad.get("h")), bad.get("rt"), bad.get("rx"), bad.get("res"),
                                                       bad.get("to"), bad.get("v")),
            "Upd": "policy update of %s to %s -> links enforce %s" % (
                [c for c in SW_CHANS if bad.get("set", {}).get(c)], json.dumps(bad.get("pol")), json.dumps(bad.get("enf"))),
            "Epoch": "block epoch of height %s -> Switch.BestHeight() = %s" % (bad.get("hn"), bad.get("height")),
            }.get(bad.get("a"), bad.get("a"))
    n = len([k for k in seen]) + 1
    tp2, sp2 = tp.replace(".ndjson", "_%d.ndjson" % n), sp.replace(".ndjson", "_%d.ndjson" % n)
    os.replace(tp, tp2)
    os.replace(sp, sp2)
    tp, sp = tp2, sp2
    ck.violation(key,
                 "real Switch deviates from spec/ForwardPolicy/SwitchPolicy (%s) at step %d of schedule %s: %s; link state %s"
                 % (inv, ln - a - 1, bad.get("plan"), what, json.dumps({k: bad.get(k) for k in ("reg", "el", "bw")})),
                 files={"trace_switch.ndjson": tp, "schedule_switch.ndjson": sp}, text=v["cex"])
    return key


def switch_controls(ck, recs):
    """Negative controls: ONE recorded field of an accepted behaviour is corrupted - the validator must
    reject at that line with the clause the corruption breaks."""
    def live_other_peer(r, c):
        o = "c3" if c in ("c1", "c2") else "c1"
        return o
    muts = [
        ("to: hand-over moved to a channel of the other peer", "HandedOnlyIfAdvertisedAccepts",
         lambda r: r["a"] == "Fwd" and r["res"] == "fwd",
         lambda r: r.update(to=live_other_peer(r, r["to"]))),
        ("res: a policy failure turned into a hand-over to the requested channel", "HandedOnlyIfAdvertisedAccepts",
         lambda r: r["a"] == "Fwd" and r["res"] == "fail" and r["v"] != "FailUnknownNextPeer",
         lambda r: r.update(res="fwd", to=r["rx"], v="ok")),
        ("enf: base fee of a live link after a policy update + 1", "LinkEnforcesAdvertised",
         lambda r: r["a"] == "Upd" and any(r["set"][c] and r["reg"][c] == "live" for c in SW_CHANS),
         lambda r: [r["enf"][c].update(base=r["enf"][c]["base"] + 1) for c in SW_CHANS
                    if r["set"][c] and r["reg"][c] == "live"][:1]),
        ("v: FeeInsufficient renamed to ExpiryTooFar", "FailureNamesViolatedRule",
         lambda r: r["a"] == "Fwd" and r["v"] == "FeeInsufficient" and r["h"]["outExp"] == 140 and r["h"]["inExp"] <= 150,
         lambda r: r.update(v="ExpiryTooFar")),
        ("res: a hand-over turned into unknown_next_peer", "FailedOnlyIfNoLinkAccepts",
         lambda r: r["a"] == "Fwd" and r["res"] == "fwd" and r["rt"] == "chan",
         lambda r: r.update(res="fail", to="-", v="FailUnknownNextPeer")),
        ("height: the switch's height after a block epoch that goes back left at the higher height before it",
         "HeightIsCurrent",
         lambda r: r["a"] == "Epoch" and r.get("_prev_height", 0) > r["hn"],
         lambda r: r.update(height=r["_prev_height"])),
        ("v: an expiry_too_far failure at the current (lower) height turned into a hand-over, as at the height before the reorg",
         "HandedOnlyIfAdvertisedAccepts",
         lambda r: r["a"] == "Fwd" and r["v"] == "ExpiryTooFar" and r["rt"] == "chan" and r["h"]["inExp"] - r["h"]["outExp"] <= 2016
         and r.get("_max_height", 0) > r["height"] and r["h"]["outExp"] <= r["_max_height"] + 2016,
         lambda r: r.update(res="fwd", to=r["rx"], v="ok")),
    ]
    mx = 0
    for j, r in enumerate(recs):      # helper annotations for picking (removed before a control trace is written)
        if r["a"] == "Reset":
            mx = 0
        r["_prev_height"] = recs[j - 1]["height"] if j and r["a"] != "Reset" else r["height"]
        mx = max(mx, r["height"])
        r["_max_height"] = mx
    out = []
    for k, (mut, expect, pick, corrupt) in enumerate(muts):
        i = next((j for j, r in enumerate(recs) if pick(r)), None)
        if i is None and mut.startswith("v: an expiry_too_far"):
            continue        # needs a rare coincidence (that failure right after a reorg); the height control above is the binding one
        if i is None:
            raise Inconclusive("switch-level negative control: no recorded step for '%s'" % mut)
        a, b = core.slice_trace(recs, i + 1, _is_reset)
        one = copy.deepcopy(recs[a:b])
        corrupt(one[i - a])
        for r in one:
            r.pop("_prev_height", None), r.pop("_max_height", None)
        p = os.path.join(ck.out, "control_switch_%d.ndjson" % k)
        core.write_ndjson(p, one)
        v = switch_validate(ck, p, "control_switch_%d" % k)
        inv = (v["invariant"] or "").replace("invariant ", "")
        if v["ok"]:
            raise Inconclusive("switch-level negative control accepted (%s): trace validation is not binding" % mut)
        if v["line"] != i - a + 1 or inv != expect:
            raise Inconclusive("switch-level negative control '%s' rejected by %s at line %s, expected %s at line %d"
                               % (mut, inv, v["line"], expect, i - a + 1))
        out.append(dict(mutation=mut + " (switch trace)", rejected_by=v["invariant"], at_line=v["line"]))
    for r in recs:
        r.pop("_prev_height", None), r.pop("_max_height", None)
    ck.cov.setdefault("negative_controls", []).extend(out)


def switch_stats(recs):
    st = dict(behaviours=0, steps=0, forwards=0, handed=0, shifted=0, failed_policy=0, failed_unknown=0,
              handed_past_ineligible=0, node_hops_handed=0, updates=0, updates_with_linkless_channel=0,
              updates_reaching_live_link=0, adds=0, removes=0, flushes=0, epochs=0, epochs_down=0,
              forwards_below_highest_height=0, expiry_verdicts_below_highest_height=0)
    distinct = set()
    prev, mx = 0, 0
    for r in recs:
        a = r["a"]
        hb, prev = prev, r["height"]
        if a == "Reset":
            st["behaviours"] += 1
            mx = r["height"]
            continue
        mx = max(mx, r["height"], r.get("hn", 0))
        st["steps"] += 1
        if a == "Fwd":
            st["forwards"] += 1
            if r["height"] < mx:
                st["forwards_below_highest_height"] += 1
                if r["v"] in ("ExpiryTooSoon", "ExpiryTooFar") or r["h"]["outExp"] in (102, 103, 107, 2115, 2117, 2120):
                    st["expiry_verdicts_below_highest_height"] += 1
            if r["res"] == "fwd":
                st["handed"] += 1
                if r["rt"] == "chan" and r["to"] != r["rx"]:
                    st["shifted"] += 1
                    if not r["el"].get(r["rx"]):
                        st["handed_past_ineligible"] += 1
                if r["rt"] == "node":
                    st["node_hops_handed"] += 1
            elif r["v"] == "FailUnknownNextPeer":
                st["failed_unknown"] += 1
            else:
                st["failed_policy"] += 1
            live = [c for c in SW_CHANS if r["reg"][c] == "live"]
            if len(live) >= 1:
                distinct.add(core.sha(json.dumps([a, r["h"], r["rt"], r["rx"], r["reg"], r["el"], r["height"],
                                                  {c: r["enf"][c] for c in live}, {c: r["bw"][c] for c in live}],
                                                 sort_keys=True)))
        elif a == "Upd":
            st["updates"] += 1
            s = [c for c in SW_CHANS if r["set"][c]]
            if any(r["reg"][c] != "live" for c in s):
                st["updates_with_linkless_channel"] += 1
            if any(r["reg"][c] == "live" for c in s):
                st["updates_reaching_live_link"] += 1
                distinct.add(core.sha(json.dumps([a, r["set"], r["pol"], r["reg"]], sort_keys=True)))
        elif a == "Epoch":
            st["epochs"] += 1
            if r["hn"] < hb:
                st["epochs_down"] += 1
        elif a == "Add":
            st["adds"] += 1
        elif a == "Remove":
            st["removes"] += 1
        else:
            st["flushes"] += 1
    return st, len(distinct)


def switch_part(ck, thorough):
    """(iv) model check SwitchPolicy, generate schedules, replay them on the real Switch, validate."""
    with ThreadPoolExecutor(max_workers=2) as ex:
        fmc = ex.submit(switch_mc, ck, thorough)
        files = ck.generate(SPEC, "SwitchPolicyGen", "SwitchPolicyGen.cfg", 900 if thorough else 150, 40,
                            constants={"MaxLen": 25 if thorough else 19}, name="gen_switch", timeout=1500)
        trace = switch_execute(ck, os.path.dirname(files[0]))
        recs = core.read_ndjson(trace)
        st, distinct = switch_stats(recs)
        if st["behaviours"] != len(files):
            raise Inconclusive("switch-level executor recorded %d behaviours for %d schedules" % (st["behaviours"], len(files)))
        ck.cov["evaluations"] += st["steps"]
        ck.cov["switch_level"] = st
        v = switch_validate(ck, trace, "val_switch")
        if not v["ok"]:
            # report the rejected behaviour, then look at the others: up to four differently keyed deviations
            rest, keys = recs, set()
            for k in range(4):
                key = switch_report(ck, rest, v, seen=keys)
                keys.add(key)
                a, b = core.slice_trace(rest, v["line"] or 1, _is_reset)
                rest = rest[:a] + rest[b:]
                if not rest:
                    break
                p = os.path.join(ck.out, "trace_switch_rest_%d.ndjson" % k)
                core.write_ndjson(p, rest)
                v = switch_validate(ck, p, "val_switch_rest_%d" % k)
                if v["ok"]:
                    break
        else:
            # vacuity of an ACCEPTED run only (a defective switch may well never shift an HTLC)
            for k in ("shifted", "failed_policy", "updates_with_linkless_channel", "handed_past_ineligible",
                      "node_hops_handed", "adds", "removes", "epochs_down", "expiry_verdicts_below_highest_height"):
                if not st[k]:
                    raise Inconclusive("vacuity: no '%s' among the executed switch-level steps" % k)
            ck.cov["traces_validated_against_impl"] += st["behaviours"]
            ck.cov["distinct_nontrivial"] += distinct
            switch_controls(ck, recs)
        fmc.result()
    ck.cov["samples"].append(dict(kind="switch", first=[r for r in recs if r["a"] == "Fwd" and r["res"] == "fwd"
                                                           and r["rt"] == "chan" and r["to"] != r["rx"]][:1]))
    ck.cov["rule_switch"] = ("switch: TLC-simulated behaviours of SwitchPolicy (policy updates of any subset of 4 channels, "
                             "links added/removed/flushed, HTLCs on the thresholds of the advertised policies, channel- and "
                             "node-addressed) replayed on a real Switch with real channelLinks, every step validated by TLC; "
                             "distinct = distinct (link state, policies, bandwidths, HTLC, next hop) of forwards and "
                             "(registration, batch, policy) of updates that reach a live link; ")
    ck.cov["rule"] = ck.cov["rule_switch"] + ck.cov.get("rule", "")
    if "wire tap at the remote peers (update_add_htlc per channel) + failure handed to the incoming mock link" not in ck.cov["trusted_base"]:
        ck.cov["trusted_base"] = list(ck.cov["trusted_base"]) + [
            "wire tap at the remote peers (update_add_htlc per channel) + failure handed to the incoming mock link",
            "executor plays graph + peer: creates a link with the policy last advertised for its channel"]


def switch_replay(ck):
    """--replay <violation dir with schedule_switch.ndjson>: run the schedule again, validate."""
    d = ck.scratch("replay_sched")
    shutil.copy(os.path.join(ck.replay, "schedule_switch.ndjson"), os.path.join(d, "b_1.ndjson"))
    trace = switch_execute(ck, d, name="replay_exec_switch")
    recs = core.read_ndjson(trace)
    ck.cov["evaluations"] += len(recs) - 1
    v = switch_validate(ck, trace, "replay_val_switch")
    core.log("  replay switch schedule: %s" % ("accepted" if v["ok"] else v["invariant"]))
    if not v["ok"]:
        switch_report(ck, recs, v)
    else:
        ck.cov["traces_validated_against_impl"] += 1
    ck.cov["samples"].append(dict(kind="replay-switch", first=recs[:2]))
    ck.cov["states"] = max(ck.cov["states"], 1)
    ck.cov["transitions"] = max(ck.cov["transitions"], 1)
    ck.cov["rule"] = "replay of a stored switch-level schedule"


def _head(path, n):
    out = []
    with open(path) as fi:
        for line in fi:
            out.append(json.loads(line))
            if len(out) >= n:
                break
    return out


def report_tlc(ck, lat_trace, v):
    ln = v["line"] or 1
    bad = None
    with open(lat_trace) as fi:
        for i, line in enumerate(fi, 1):
            if i == ln:
                bad = json.loads(line)
                break
    p = os.path.join(ck.out, "failing_case.ndjson")
    core.write_ndjson(p, [bad] if bad else [])
    inv = (v["invariant"] or "").replace("invariant ", "")
    ck.violation("lattice:%s:%s/%s" % (inv, bad and bad.get("v"), bad and bad.get("vt")),
                 "real channelLink deviates from spec/ForwardPolicy (%s) at lattice case %s" % (inv, json.dumps(bad)),
                 files={"cases.ndjson": p}, text=v["cex"])


def report_box(ck, r, adir):
    p = os.path.join(ck.out, "failing_box_case_%s.ndjson" % core.sha(json.dumps(r, sort_keys=True)))
    core.write_ndjson(p, [r])
    ck.violation("box:%s/%s" % (r["v"], r["vt"]),
                 "inside the realistic box the link's verdict differs from exact arithmetic: forward=%s transit=%s on %s"
                 % (r["v"], r["vt"], json.dumps(case_of(r))), files={"cases.ndjson": p},
                 text="judged by ForwardPolicyRules.AgreeB / AgreeTransitB with SMT integers (Apalache)")


def tlc_control(ck, lat_trace):
    """Negative control: one accepted case of a valid trace is turned into a rejection (and one rejection's
    incoming amount is left but its verdict set to ok) - the validator must reject."""
    recs = _head(lat_trace, 20000)
    i = next((k for k, r in enumerate(recs) if r["v"] == "ok"), None)
    if i is None:
        raise Inconclusive("no accepted case in the first 20000 lattice lines for the negative control")
    ctl = []
    j = next((k for k, r in enumerate(recs) if r["v"] == "ok" and r["out"] >= 1), i)
    for mut, at, fn in (("v: ok -> FeeInsufficient", i, lambda r: r.update(v="FeeInsufficient")),
                        ("in := out - 1 on an accepted case", j, lambda r: r.update({"in": r["out"] - 1})),
                        ("vt: -> ok on a transit rejection",
                         next((k for k, r in enumerate(recs) if r["vt"] != "ok"), 0), lambda r: r.update(vt="ok"))):
        bad = copy.deepcopy(recs)
        fn(bad[at])
        p = os.path.join(ck.out, "control_lattice_%d.ndjson" % len(ctl))
        core.write_ndjson(p, bad)
        v = ck.validate(SPEC, "ForwardPolicyTrace", "ForwardPolicyTrace.cfg", p, name="control_lattice_%d" % len(ctl))
        if v["ok"]:
            raise Inconclusive("negative control accepted (%s): trace validation is not binding" % mut)
        if v["line"] != at + 1:
            raise Inconclusive("negative control rejected at line %s, expected %d" % (v["line"], at + 1))
        ctl.append(dict(mutation=mut, rejected_by=v["invariant"], at_line=v["line"]))
    ck.cov.setdefault("negative_controls", []).extend(ctl)


def apalache_control(adir, recs):
    """Negative control: one verdict of a valid chunk flipped - Apalache must report a violation."""
    bad = copy.deepcopy(recs[:40])
    i = next((k for k, r in enumerate(bad) if r["v"] == "ok"), 0)
    mut = "v: %s -> %s" % (bad[i]["v"], "FeeInsufficient" if bad[i]["v"] == "ok" else "ok")
    bad[i]["v"] = "FeeInsufficient" if bad[i]["v"] == "ok" else "ok"
    st, wall, out = apalache_batch(os.path.join(adir, "control"), "Ctl", bad)
    return st, wall, out, mut


def replay(ck, par):
    """--replay <violation dir or cases file>: execute the stored inputs again and judge them with Apalache."""
    p = ck.replay
    if os.path.isdir(p):
        p = os.path.join(p, "cases.ndjson")
    cases = [case_of(r) | {"tag": r.get("tag") or "replay"} for r in core.read_ndjson(p)]
    cp = os.path.join(ck.out, "replay_cases.ndjson")
    core.write_ndjson(cp, cases)
    recs = core.read_ndjson(execute(ck, cp, name="replay_exec"))
    ck.cov["evaluations"] += 2 * len(recs)
    adir = ck.scratch("apalache_replay")
    for i, r in enumerate(recs):
        st, wall, out = apalache_batch(os.path.join(adir, "r%d" % i), "R%d" % i, [r])
        core.log("  replay %d: forward=%s transit=%s -> %s" % (i, r["v"], r["vt"], st))
        if st == "error":
            raise Inconclusive("Apalache failed on replay:\n" + out[-2000:])
        if st == "violated":
            tag = str(r.get("tag", ""))
            key = KEY_F5B if tag.startswith("F5b") else KEY_F5 if tag.startswith("F5") else "replay:%s/%s" % (r["v"], r["vt"])
            core.write_ndjson(os.path.join(ck.out, "replay_bad_%d.ndjson" % i), [r])
            ck.violation(key, "replayed case disagrees with exact arithmetic: %s" % json.dumps(r),
                         files={"cases.ndjson": os.path.join(ck.out, "replay_bad_%d.ndjson" % i)})
        else:
            ck.cov["traces_validated_against_impl"] += 1
    ck.cov["samples"].append(dict(kind="replay", first=recs[:2]))
    ck.cov["states"] = max(ck.cov["states"], 1)
    ck.cov["transitions"] = max(ck.cov["transitions"], 1)
    ck.cov["rule"] = "replay of stored inputs"
