"""C09 An HTLC is forwarded only if it meets the advertised policy and loses no money.

spec/ForwardPolicy:
  ForwardPolicyRules.tla  the property as pure operators over unbounded integers (Violated / Agree)
  ForwardPolicy.tla       the decision as a state machine shaped like link.go (one action per comparison,
                          machine words W64/W32 as parameters: 0 = ideal)
  ForwardPolicyMC.tla     the exhaustive boundary lattice on small integers (548 310 cases)
Pipeline:
  (i)   TLC: MC of the machine on the lattice (ideal words; scaled words inside the box; scaled words find
        F5/F5b by themselves), lattice dumped by TLC (ForwardPolicyGen), executed on a real channelLink
        (CheckHtlcForward + CheckHtlcTransit), every recorded verdict validated by TLC (ForwardPolicyTrace).
  (ii)  64-bit: seeded boundary-biased cases over the realistic box, executed on the real link, validated
        by Apalache (SMT integers) in parallel chunks against the same rules.
  (iii) outside the box: targeted witnesses of F5 (int64 wrap in InboundFee.CalcFee) and F5b (uint32 wrap
        of heightNow + delta), judged by Apalache one by one; a disagreement is reported under its own key.
"""
import copy
import json
import os
import random
import re
import shutil
import time
from concurrent.futures import ThreadPoolExecutor

from .. import core
from ..core import Inconclusive

SPEC = os.path.join(core.VERIF, "spec", "ForwardPolicy")
LEVEL = "model_checking"

FIELDS = ["in", "out", "inExp", "outExp", "height", "base", "rate", "minH", "maxH", "delta", "rdelta",
          "maxCltv", "ibase", "irate", "bw"]
BW_SMALL = 1000                    # msat - the lattice's channel (ForwardPolicyMC.cfg: BW)
BW_BOX = 500_000_000_000           # 5 BTC of spendable bandwidth for the realistic box
BW_BIG = 20_000_000_000_000        # 200 BTC: room for the F5 witnesses
MIL = 1_000_000
KEY_F5 = "F5:inbound-fee-int64-overflow"
KEY_F5B = "F5b:height-plus-delta-uint32-wrap"
VERDICTS = ["ok", "FeeInsufficient", "AmountBelowMinimum", "HtlcExceedsMax", "InsufficientBalance",
            "ExpiryTooSoon", "ExpiryTooFar", "IncorrectCltvExpiry"]


# --------------------------------------------------------------------------- case generation (inputs only)
def _tdiv(a, b):
    return a // b if a >= 0 else -((-a) // b)


def _need(out, base, rate, ibase, irate):
    """Input placement only (where the fee boundary lies) - never used to judge a verdict."""
    of = base + out * rate // MIL
    r = max(-10 * MIL, min(10 * MIL, irate))
    return out + of + ibase + _tdiv(r * (out + of), MIL)


def box_cases(seed, n):
    """Seeded, boundary-biased inputs over the realistic box: out <= 10^12 msat, rates <= 10^6 ppm,
    |inbound rate| <= 10^6 ppm, heights/expiries < 2^31.  Every comparison's operands are drawn from the
    other side's threshold -2..+2."""
    rng = random.Random(seed * 7919 + 17)
    bw = BW_BOX

    def near(x):
        d = rng.randrange(3)
        return max(0, x + rng.choice((-d, d, 0)))

    out = []
    while len(out) < n:
        c = {}
        c["base"] = rng.choice((0, 1, 1000, 5000, 1_000_000, 4294967295, rng.randrange(0, 100000)))
        c["rate"] = rng.choice((0, 1, 100, 2500, 999_999, 1_000_000, rng.randrange(0, MIL + 1)))
        o = rng.choice((1, 999, 1000, 100_000, 1_000_000, 123_456_789, bw - 1, bw, bw + 1, 10 ** 12 - 1, 10 ** 12,
                        rng.randrange(1, 10 ** 12), rng.randrange(1, 10 ** 7), rng.randrange(1, bw)))
        if c["rate"] > 0 and rng.random() < 0.3:      # out * rate next to a multiple of 10^6 (rounding)
            m = rng.randrange(1, 10 ** 6)
            o = -(-m * MIL // c["rate"])
        o = c["out"] = min(near(o), 10 ** 12)
        # min/max around the amount; most of the time on the passing side of the threshold
        c["minH"] = rng.choice((0, 1, 1000, max(0, o - 1), o, o, o + 1))
        c["maxH"] = rng.choice((0, 10 ** 12, bw, o + 1, o, o, max(0, o - 1), max(1, o - 1)))
        c["ibase"] = rng.choice((0, 1, 1000, 500_000, 2147483647, rng.randrange(0, 10 ** 6))) * rng.choice((1, -1))
        c["irate"] = rng.choice((0, 1, 100, 50_000, 999_999, 1_000_000, rng.randrange(0, MIL + 1))) * rng.choice((1, -1))
        need = max(0, _need(c["out"], c["base"], c["rate"], c["ibase"], c["irate"]))
        c["in"] = near(max(need, c["out"])) if rng.random() < 0.9 else near(rng.choice((need, c["out"])))
        c["rdelta"] = rng.choice((0, 3, 10, 40))
        c["maxCltv"] = rng.choice((10, 2016, 100_000))
        c["delta"] = rng.choice((0, 1, 40, 144, c["maxCltv"], c["maxCltv"] + 1))
        h = rng.choice((0, 1, 500_000, 800_000, 2 ** 31 - 1 - 300_000, rng.randrange(0, 2 ** 31 - 300_000)))
        c["height"] = h
        if rng.random() < 0.75:     # keep the expiry side passing often so that all eight rules get decided
            oe = rng.choice((h + c["rdelta"] + 1, h + c["maxCltv"], h + c["rdelta"] + 1 + rng.randrange(0, max(1, c["maxCltv"] - c["rdelta"]))))
            oe = oe if rng.random() < 0.5 else near(oe)
        else:
            oe = near(rng.choice((h + c["rdelta"], h + c["rdelta"] + 1, h + c["maxCltv"], h + 100)))
        c["outExp"] = oe
        c["inExp"] = near(rng.choice((oe, oe + c["delta"], oe + c["maxCltv"], oe + 40, oe + c["delta"])))
        c["bw"] = bw
        c["tag"] = "box"
        assert c["inExp"] < 2 ** 31 and c["outExp"] < 2 ** 31
        out.append(c)
    return out


def witnesses():
    """Targeted inputs outside the realistic box where machine words wrap (DESIGN 10.6/10.7)."""
    common = dict(inExp=800_143, outExp=800_103, height=800_000, base=0, rate=0, minH=0, maxH=0, delta=40,
                  rdelta=3, maxCltv=2016, ibase=0, bw=BW_BIG)
    w = []
    # F5: |clamped inbound rate| * (out + outFee) >= 2^63
    o = 950_000_000_000
    w.append(dict(common, tag="F5:discount-1000pct-9.5BTC", out=o, **{"in": o}, irate=-10_000_000))
    w.append(dict(common, tag="F5:int32min-clamped-9.9BTC", out=990_000_000_000, **{"in": 990_000_000_000}, irate=-2147483648))
    w.append(dict(common, tag="F5:surcharge-1000pct-9.5BTC", out=o, **{"in": o}, irate=10_000_000))
    w.append(dict(common, tag="F5:discount-100pct-18BTC", out=18_000_000_000_000, **{"in": 18_000_000_000_000},
                  irate=-1_000_000))
    # F5b: heightNow + OutgoingCltvRejectDelta / + MaxOutgoingCltvExpiry wrap in uint32
    amounts = dict(out=1_000_000, base=1000, rate=0, minH=0, maxH=0, ibase=0, irate=0, bw=BW_BIG, **{"in": 1_001_000})
    w.append(dict(amounts, tag="F5b:expired-htlc-accepted", height=2 ** 32 - 1, rdelta=3, maxCltv=2016, delta=40,
                  outExp=3, inExp=43))
    w.append(dict(amounts, tag="F5b:valid-expiry-rejected", height=2 ** 32 - 1000, rdelta=3, maxCltv=2016, delta=40,
                  outExp=2 ** 32 - 900, inExp=2 ** 32 - 860))
    return w


# --------------------------------------------------------------------------- Apalache batch validation
BATCH_HEAD = """---- MODULE %s ----
(* generated: recorded cases of the real channelLink, judged by ForwardPolicyRules (scalar boolean form AgreeS) *)
EXTENDS ForwardPolicyRules
VARIABLE
  \\* @type: Int;
  dummy
\\* @type: (Int, Int, Int, Int, Int, Int, Int, Int, Int, Int, Int, Int, Int, Int, Int, Str, Str) => Bool;
Chk(a1, a2, a3, a4, a5, a6, a7, a8, a9, a10, a11, a12, a13, a14, a15, v, vt) ==
  /\\ AgreeS(a1, a2, a3, a4, a5, a6, a7, a8, a9, a10, a11, a12, a13, a14, a15, v, TRUE)
  /\\ AgreeS(a1, a2, a3, a4, a5, a6, a7, a8, a9, a10, a11, a12, a13, a14, a15, vt, FALSE)
"""


def batch_module(name, recs):
    """One operator per record (keeps Apalache's type checker linear), grouped conjunctions."""
    lines = [BATCH_HEAD % name]
    for i, r in enumerate(recs):
        lines.append("R%d == Chk(%s, \"%s\", \"%s\")" % (
            i, ", ".join(str(int(r[f])) for f in FIELDS), _safe(r["v"]), _safe(r["vt"])))
    groups = []
    for g in range(0, len(recs), 20):
        groups.append("G%d" % (g // 20))
        lines.append("G%d == %s" % (g // 20, " /\\ ".join("R%d" % i for i in range(g, min(g + 20, len(recs))))))
    lines.append("AllAgree == " + " /\\ ".join(groups))
    lines.append("Init == dummy = 0\nNext == UNCHANGED dummy\n====\n")
    return "\n".join(lines)


def _safe(s):
    return re.sub(r"[^A-Za-z0-9_:.-]", "_", str(s))


def apalache_batch(d, name, recs, timeout=900):
    """Returns ('ok'|'violated'|'error', wall, output)."""
    os.makedirs(d, exist_ok=True)
    shutil.copy(os.path.join(SPEC, "ForwardPolicyRules.tla"), d)
    with open(os.path.join(d, name + ".tla"), "w") as fo:
        fo.write(batch_module(name, recs))
    cmd = ["apalache-mc", "check", "--length=0", "--inv=AllAgree", "--out-dir=" + os.path.join(d, "_apalache-out"),
           name + ".tla"]
    rc, out, wall = core.sh(cmd, cwd=d, timeout=timeout, outfile=os.path.join(d, name + ".out"),
                            env={"JVM_ARGS": "-Xmx2g", "JVM_GC_ARGS": "-XX:+UseSerialGC"})
    shutil.rmtree(os.path.join(d, "_apalache-out"), ignore_errors=True)
    if rc == 124:
        subprocess_kill(d)
        return "error", wall, "timeout"
    if "The outcome is: NoError" in out:
        return "ok", wall, out
    if "The outcome is: Error" in out and re.search(r"violat|Found \d+ error", out):
        return "violated", wall, out
    return "error", wall, out


def subprocess_kill(d):
    import subprocess
    subprocess.run("pkill -f 'apalache.*%s'" % re.escape(d), shell=True)


def failing_records(d, name, recs, par):
    """Binary search of a rejected chunk for ONE record that Apalache rejects (a chunk of a broken build may
    contain hundreds; one deterministic reproduction per chunk is what the report needs)."""
    k = 0
    while len(recs) > 1:
        k += 1
        h = len(recs) // 2
        st, _, out = apalache_batch(os.path.join(d, "bisect%d" % k), "%sb%d" % (name, k), recs[:h])
        if st == "error":
            raise Inconclusive("Apalache failed while bisecting %s:\n%s" % (name, out[-2000:]))
        recs = recs[:h] if st == "violated" else recs[h:]
    st, _, out = apalache_batch(os.path.join(d, "bisect_last"), name + "one", recs)
    if st != "violated":
        raise Inconclusive("bisection of %s did not isolate a rejected record (%s)" % (name, st))
    return recs


# --------------------------------------------------------------------------- symbolic runs (Apalache)
def apalache_sym(d, name, cinit, init, inv, timeout=900):
    """ForwardPolicyApa with the real word widths. Returns (status, wall, out, witness-case-or-None)."""
    os.makedirs(d, exist_ok=True)
    for f in ("ForwardPolicyRules.tla", "ForwardPolicy.tla", "ForwardPolicyApa.tla"):
        shutil.copy(os.path.join(SPEC, f), d)
    od = os.path.join(d, "_apalache-out")
    cmd = ["apalache-mc", "check", "--cinit=" + cinit, "--init=" + init, "--next=ApaNext", "--inv=" + inv, "--length=9",
           "--out-dir=" + od, "ForwardPolicyApa.tla"]
    rc, out, wall = core.sh(cmd, cwd=d, timeout=timeout, outfile=os.path.join(d, name + ".out"),
                            env={"JVM_ARGS": "-Xmx3g", "JVM_GC_ARGS": "-XX:+UseSerialGC"})
    wit = None
    st = "error"
    if rc == 124:
        subprocess_kill(d)
    elif "The outcome is: NoError" in out:
        st = "ok"
    elif "The outcome is: Error" in out and "Found 1 error" in out:
        st = "violated"
        import glob
        fs = sorted(glob.glob(os.path.join(od, "*", "*", "violation1.itf.json")))
        if fs:
            last = json.load(open(fs[-1]))["states"][-1]
            num = lambda v: int(v["#bigint"]) if isinstance(v, dict) else int(v)
            wit = {k: num(v) for k, v in last["c"].items()}
            wit["_model_verdict"] = last["verdict"]
            wit["_model_kind"] = last["kind"]
    shutil.rmtree(od, ignore_errors=True)
    return st, wall, out, wit


SYM_RUNS = [  # name, cinit, init, invariant, expected, what
    ("box", "CInit", "InitBox", "AgreesWhenDone", "ok",
     "Apalache, real words 2^64/2^32, ANY case of the realistic box: the machine agrees with the rules (length 9 = whole machine)"),
    ("wordsF5", "CInit", "InitWords", "F5Free", "ok",
     "Apalache, real words, ANY int32 inbound rate and amounts up to 180 BTC: no int64 wrap disagreement with the split CalcFee (881cf42)"),
    ("reach", "CInit", "InitBox", "NeverAccepts", "violated", "vacuity guard: an accepting forward is reachable in the box"),
    ("witF5", "CInitPreFix", "InitWitness", "F5Free", "violated",
     "Apalache finds an F5 witness (int64 wrap) for CalcFee as it was before 881cf42, on the 200 BTC channel"),
    ("witF5b", "CInit", "InitWitness", "F5bFree", "violated", "Apalache finds an F5b witness (uint32 wrap) with everyday margins"),
]


def sym_part(ck, sdir):
    """All symbolic runs in parallel; returns Apalache-generated witness cases for the executor."""
    with ThreadPoolExecutor(max_workers=5) as ex:
        futs = [(r, ex.submit(apalache_sym, os.path.join(sdir, r[0]), r[0], r[1], r[2], r[3])) for r in SYM_RUNS]
        res = [(r, f.result()) for r, f in futs]
    wits = []
    for (name, cinit, init, inv, expected, what), (st, wall, out, wit) in res:
        core.log("  [apalache-sym] %s (%s / %s): %s, %.0fs" % (name, init, inv, st, wall))
        ck.cov["model_runs"].append(dict(what=what, module="ForwardPolicyApa", cinit=cinit, init=init, invariant=inv,
                                         outcome=st, expected=expected, wall_s=round(wall, 1)))
        if st == "error":
            raise Inconclusive("Apalache failed on ForwardPolicyApa %s/%s:\n%s" % (init, inv, out[-3000:]))
        if st != expected:
            raise Inconclusive("spec problem (not a verdict about the code): ForwardPolicyApa %s/%s is %s, expected %s\n%s"
                               % (init, inv, st, expected, out[-2000:]))
        if name.startswith("wit") and wit:
            c = {f: wit[f] for f in FIELDS}
            c["tag"] = "F5b:apalache-witness" if name == "witF5b" else "F5:apalache-witness-for-pre-881cf42-code"
            wits.append(c)
    return wits


# --------------------------------------------------------------------------- the check
def mc_jobs(ck, thorough):
    """(callable, expected-violation) for every TLC model-checking run; they run side by side."""
    jobs = []
    x = ["-noGenerateSpecTE"]
    sfx = "_thorough" if thorough else ""
    jobs.append(lambda: ck.model_check(SPEC, "ForwardPolicyMC", "ForwardPolicyMC%s.cfg" % sfx,
                                       "decision machine on the full boundary lattice, ideal words (fwd + transit)",
                                       name="mc_ideal", timeout=1200, workers=4, extra=x))
    jobs.append(lambda: ck.model_check(SPEC, "ForwardPolicyMC", "ForwardPolicyMC_wrap%s.cfg" % sfx,
                                       "decision machine, scaled machine words (2^24 / 2^12): agrees inside the scaled box",
                                       name="mc_wrap", timeout=1200, workers=4, extra=x))

    def find(cfg, inv, what):
        r = ck.model_check(SPEC, "ForwardPolicyMC", cfg, "scaled words, no box: TLC must find the " + what,
                           must_hold=False, name="mc_" + inv, timeout=900, workers=2, extra=x)
        if r.violation != "invariant " + inv:
            raise Inconclusive("vacuity: the machine with wrapping words does not exhibit the %s (%s)" % (what, r.violation))
    jobs.append(lambda: find("ForwardPolicyMC_findF5.cfg", "F5Free", "signed product wrap (F5 class)"))
    jobs.append(lambda: find("ForwardPolicyMC_findF5b.cfg", "F5bFree", "height + delta wrap (F5b class)"))
    consts = None if thorough else {"Bases": "{0, 13}", "Rates": "{0, 2500, 1000000}", "IBaseMags": "{0, 7}",
                                    "IRateMags": "{0, 999, 1000000}", "Heights": "{100}"}
    jobs.append(lambda: ck.model_check(SPEC, "ForwardPolicyMC", "ForwardPolicyMC_boolform%s.cfg" % sfx,
                                       "scalar boolean form of the judgement (Apalache) = set form (TLC), every verdict, %s lattice"
                                       % ("full" if thorough else "reduced"),
                                       name="mc_boolform", timeout=1200, workers=2, constants=consts, extra=x))
    return jobs


def gen_lattice(ck, thorough):
    r = ck.tlc(SPEC, "ForwardPolicyGen", "ForwardPolicyGen%s.cfg" % ("_thorough" if thorough else ""), name="gen_lattice", mode="mc", workers=1,
               timeout=900, extra=["-noGenerateSpecTE"])
    p = os.path.join(r.dir, "cases.ndjson")
    if r.error or r.violation or not os.path.exists(p):
        raise Inconclusive("lattice generation failed: %s\n%s" % (r.error or r.violation, r.out[-3000:]))
    n = sum(1 for _ in open(p))
    if n != r.distinct - 1:
        raise Inconclusive("lattice dump has %d lines for %d distinct cases" % (n, r.distinct - 1))
    core.log("  [gen] boundary lattice: %d distinct cases, %.0fs" % (n, r.wall))
    ck.cov["model_runs"].append(dict(what="generate lattice", module="ForwardPolicyGen", cases=n, wall_s=round(r.wall, 1)))
    return p, n


def execute(ck, cases_path, name="exec", extra_overlay=None):
    res = ck.go_test("./htlcswitch/", "^TestVerifC09ForwardPolicy$", ["htlcswitch/c09_test.go"],
                     env={"VERIF_CASES": cases_path}, name=name, timeout=1500,
                     extra_overlay=extra_overlay or EXTRA_OVERLAY)
    trace = os.path.join(res["dir"], "trace.ndjson")
    if res["rc"] != 0 or not os.path.exists(trace):
        raise Inconclusive("executor failed:\n" + res["out"][-3000:])
    return trace


EXTRA_OVERLAY = None
if os.environ.get("VERIF_C09_OVERLAY"):     # mutation controls / candidate repairs: "pkg/file.go=/path/patched.go,..."
    EXTRA_OVERLAY = dict(x.split("=", 1) for x in os.environ["VERIF_C09_OVERLAY"].split(","))


def case_of(r):
    return {f: r[f] for f in FIELDS}


def lattice_chain(ck, thorough, fut_wits):
    """generate the lattice -> execute everything on the real link -> TLC validates the lattice part."""
    lattice_path, nlat = gen_lattice(ck, thorough)
    nbox = 24000 if thorough else 2500
    box = box_cases(ck.seed, nbox)
    wit = witnesses() + fut_wits.result()
    allcases = os.path.join(ck.out, "cases_all.ndjson")
    shutil.copy(lattice_path, allcases)
    with open(allcases, "a") as fo:
        for c in box + wit:
            fo.write(json.dumps(c, separators=(",", ":")) + "\n")
    trace = execute(ck, allcases)

    lat_trace = os.path.join(ck.out, "trace_lattice.ndjson")
    big, nl, hist = [], 0, {}
    with open(trace) as fi, open(lat_trace, "w") as fo:
        for line in fi:
            if '"tag"' in line:
                big.append(json.loads(line))
            else:
                fo.write(line)
                nl += 1
                m = re.search(r'"v":"([^"]*)","vt":"([^"]*)"', line)
                hist[m.group(1)] = hist.get(m.group(1), 0) + 1
                hist["transit:" + m.group(2)] = hist.get("transit:" + m.group(2), 0) + 1
    if nl != nlat or len(big) != len(box) + len(wit):
        raise Inconclusive("executor recorded %d+%d cases, expected %d+%d" % (nl, len(big), nlat, len(box) + len(wit)))
    for v in VERDICTS:
        if not hist.get(v):
            raise Inconclusive("vacuity: verdict %s never returned by CheckHtlcForward on the lattice" % v)
    ck.cov["evaluations"] += 2 * (nl + len(big))
    ck.cov["verdicts_lattice"] = hist
    return lat_trace, nl, big


def run(ck):
    thorough = ck.tier == "thorough"
    par = int(os.environ.get("VERIF_C09_PAR", "0")) or min(16, core.NCPU)
    if getattr(ck, "replay", None):
        return replay(ck, par)

    # ---- (i) model checking (TLC + Apalache symbolic), lattice generation and execution, side by side
    sdir = ck.scratch("apalache_sym")
    with ThreadPoolExecutor(max_workers=8) as ex:
        fut_wits = ex.submit(sym_part, ck, sdir)
        fut_chain = ex.submit(lattice_chain, ck, thorough, fut_wits)
        futs = [ex.submit(j) for j in mc_jobs(ck, thorough)]
        errs = []
        for f in [fut_wits, fut_chain] + futs:
            try:
                f.result()
            except Inconclusive as e:
                errs.append(e)
        if errs:
            raise errs[0]
    ck.cov["exhaustive"] = True
    lat_trace, nl, big = fut_chain.result()

    # ---- (i) TLC validates every lattice verdict
    v = ck.validate(SPEC, "ForwardPolicyTrace", "ForwardPolicyTrace.cfg", lat_trace, name="val_lattice", timeout=1500)
    if not v["ok"]:
        report_tlc(ck, lat_trace, v)
    else:
        ck.cov["traces_validated_against_impl"] += nl
        tlc_control(ck, lat_trace)
    ck.cov["distinct_nontrivial"] += nl     # the lattice dump is a set of distinct cases (TLC fingerprints)

    # ---- (ii) Apalache validates the 64-bit cases in parallel chunks
    boxrecs = [r for r in big if r.get("tag") == "box"]
    witrecs = [r for r in big if r.get("tag") != "box"]
    chunk = 250
    chunks = [boxrecs[i:i + chunk] for i in range(0, len(boxrecs), chunk)]
    t0 = time.time()
    adir = ck.scratch("apalache")
    with ThreadPoolExecutor(max_workers=par) as ex:
        futs = [ex.submit(apalache_batch, os.path.join(adir, "c%03d" % i), "B%03d" % i, ch) for i, ch in enumerate(chunks)]
        wfuts = [ex.submit(apalache_batch, os.path.join(adir, "w%d" % i), "W%d" % i, [r]) for i, r in enumerate(witrecs)]
        cfut = ex.submit(apalache_control, adir, chunks[0])
        results = [f.result() for f in futs]
        wresults = [f.result() for f in wfuts]
        ctl = cfut.result()
    awall = time.time() - t0
    core.log("  [apalache] %d chunks of <= %d records + %d witnesses + control, %d parallel: %.0fs (chunk max %.0fs)" % (
        len(chunks), chunk, len(witrecs), par, awall, max(r[1] for r in results)))
    ck.cov["validations"].append(dict(module="ForwardPolicyRules.AgreeS (Apalache batch)", chunks=len(chunks),
                                      records=len(boxrecs), wall_s=round(awall, 1),
                                      result="accepted" if all(r[0] == "ok" for r in results) else "rejected"))
    ck.cov["apalache_cmd"] = "apalache-mc check --length=0 --inv=AllAgree B<nnn>.tla"
    okrecs = 0
    rejected = []
    for i, (st, wall, out) in enumerate(results):
        if st == "error":
            raise Inconclusive("Apalache failed on chunk %d:\n%s" % (i, out[-3000:]))
        if st == "ok":
            okrecs += len(chunks[i])
        else:
            rejected.append(i)
    if rejected:
        # one isolated reproduction for each of the first three rejected chunks, side by side
        with ThreadPoolExecutor(max_workers=3) as ex:
            futs = [ex.submit(failing_records, os.path.join(adir, "c%03d" % i), "B%03d" % i, chunks[i], par)
                    for i in rejected[:3]]
            for f in futs:
                for r in f.result():
                    report_box(ck, r, adir)
        ck.cov["apalache_chunks_rejected"] = len(rejected)
    ck.cov["traces_validated_against_impl"] += okrecs
    ck.cov["distinct_nontrivial"] += len({core.sha(json.dumps(case_of(r), sort_keys=True)) for r in boxrecs})
    bh = {}
    for r in boxrecs:
        bh[r["v"]] = bh.get(r["v"], 0) + 1
    ck.cov["verdicts_box"] = bh
    if all(r[0] == "ok" for r in results):
        if ctl[0] != "violated":
            raise Inconclusive("Apalache negative control not rejected (%s): %s" % (ctl[0], ctl[2][-1500:]))
        ck.cov.setdefault("negative_controls", []).append(dict(mutation=ctl[3] + " (Apalache chunk)", rejected_by="AllAgree"))

    # ---- (iii) witnesses outside the box
    wsum = []
    for r, (st, wall, out) in zip(witrecs, wresults):
        if st == "error":
            raise Inconclusive("Apalache failed on witness %s:\n%s" % (r["tag"], out[-3000:]))
        wsum.append(dict(tag=r["tag"], forward=r["v"], transit=r["vt"], agrees_with_exact_arithmetic=(st == "ok")))
        if st == "violated":
            key = KEY_F5B if r["tag"].startswith("F5b") else KEY_F5
            p = os.path.join(ck.out, "witness_%s.ndjson" % _safe(r["tag"]))
            core.write_ndjson(p, [r])
            ck.violation(key, "outside the realistic box the link's verdict differs from exact arithmetic (%s): "
                              "CheckHtlcForward=%s CheckHtlcTransit=%s on %s" % (r["tag"], r["v"], r["vt"], json.dumps(case_of(r))),
                         files={"cases.ndjson": p}, text="witness %s; judged by ForwardPolicyRules.AgreeS with SMT integers" % r["tag"])
    ck.cov["witnesses_outside_box"] = wsum

    ck.cov["samples"] += [dict(kind="lattice", first=_head(lat_trace, 2)),
                          dict(kind="box", first=boxrecs[:2]), dict(kind="witness", first=witrecs[:1])]
    ck.cov["rule"] = ("lattice: TLC-enumerated boundary lattice (every comparison's -1/0/+1 neighbourhood crossed, small "
                      "integers), each case executed through CheckHtlcForward and CheckHtlcTransit of a real channelLink "
                      "and judged by TLC; box: seeded boundary-biased 64-bit cases judged by Apalache; distinct = distinct "
                      "input tuples; every case is a full decision (non-trivial by construction: inputs sit on or next to a threshold)")
    ck.cov["trusted_base"] = ["TLC 1.8.0 + CommunityModules (Json, CSV)", "Apalache 0.58.0 / Z3 (SMT integers)",
                              "executor projection: wire failure type + FailureDetail -> verdict name",
                              "link.Bandwidth() as reported by the real channel is an input of the judgement",
                              "python generator of box inputs (placement only, no judgement)"]
    ck.assumptions += ["must-agree domain = realistic box: out <= 10^12 msat, base < 2^32, rates <= 10^6 ppm, |inbound rate| <= 10^6 ppm, "
                       "heights/expiries/deltas < 2^31; outside it only the listed / Apalache-generated F5 and F5b witnesses are judged",
                       "max_htlc = 0 is read as 'no maximum' (lnd's encoding)",
                       "no AuxTrafficShaper (custom channels) configured: bandwidth = channel.AvailableBalance()",
                       "Switch.handlePacketAdd's choice among links is not part of this check (C08)"]


def _head(path, n):
    out = []
    with open(path) as fi:
        for line in fi:
            out.append(json.loads(line))
            if len(out) >= n:
                break
    return out


def report_tlc(ck, lat_trace, v):
    ln = v["line"] or 1
    bad = None
    with open(lat_trace) as fi:
        for i, line in enumerate(fi, 1):
            if i == ln:
                bad = json.loads(line)
                break
    p = os.path.join(ck.out, "failing_case.ndjson")
    core.write_ndjson(p, [bad] if bad else [])
    inv = (v["invariant"] or "").replace("invariant ", "")
    ck.violation("lattice:%s:%s/%s" % (inv, bad and bad.get("v"), bad and bad.get("vt")),
                 "real channelLink deviates from spec/ForwardPolicy (%s) at lattice case %s" % (inv, json.dumps(bad)),
                 files={"cases.ndjson": p}, text=v["cex"])


def report_box(ck, r, adir):
    p = os.path.join(ck.out, "failing_box_case_%s.ndjson" % core.sha(json.dumps(r, sort_keys=True)))
    core.write_ndjson(p, [r])
    ck.violation("box:%s/%s" % (r["v"], r["vt"]),
                 "inside the realistic box the link's verdict differs from exact arithmetic: forward=%s transit=%s on %s"
                 % (r["v"], r["vt"], json.dumps(case_of(r))), files={"cases.ndjson": p},
                 text="judged by ForwardPolicyRules.AgreeB / AgreeTransitB with SMT integers (Apalache)")


def tlc_control(ck, lat_trace):
    """Negative control: one accepted case of a valid trace is turned into a rejection (and one rejection's
    incoming amount is left but its verdict set to ok) - the validator must reject."""
    recs = _head(lat_trace, 20000)
    i = next((k for k, r in enumerate(recs) if r["v"] == "ok"), None)
    if i is None:
        raise Inconclusive("no accepted case in the first 20000 lattice lines for the negative control")
    ctl = []
    j = next((k for k, r in enumerate(recs) if r["v"] == "ok" and r["out"] >= 1), i)
    for mut, at, fn in (("v: ok -> FeeInsufficient", i, lambda r: r.update(v="FeeInsufficient")),
                        ("in := out - 1 on an accepted case", j, lambda r: r.update({"in": r["out"] - 1})),
                        ("vt: -> ok on a transit rejection",
                         next((k for k, r in enumerate(recs) if r["vt"] != "ok"), 0), lambda r: r.update(vt="ok"))):
        bad = copy.deepcopy(recs)
        fn(bad[at])
        p = os.path.join(ck.out, "control_lattice_%d.ndjson" % len(ctl))
        core.write_ndjson(p, bad)
        v = ck.validate(SPEC, "ForwardPolicyTrace", "ForwardPolicyTrace.cfg", p, name="control_lattice_%d" % len(ctl))
        if v["ok"]:
            raise Inconclusive("negative control accepted (%s): trace validation is not binding" % mut)
        if v["line"] != at + 1:
            raise Inconclusive("negative control rejected at line %s, expected %d" % (v["line"], at + 1))
        ctl.append(dict(mutation=mut, rejected_by=v["invariant"], at_line=v["line"]))
    ck.cov.setdefault("negative_controls", []).extend(ctl)


def apalache_control(adir, recs):
    """Negative control: one verdict of a valid chunk flipped - Apalache must report a violation."""
    bad = copy.deepcopy(recs[:40])
    i = next((k for k, r in enumerate(bad) if r["v"] == "ok"), 0)
    mut = "v: %s -> %s" % (bad[i]["v"], "FeeInsufficient" if bad[i]["v"] == "ok" else "ok")
    bad[i]["v"] = "FeeInsufficient" if bad[i]["v"] == "ok" else "ok"
    st, wall, out = apalache_batch(os.path.join(adir, "control"), "Ctl", bad)
    return st, wall, out, mut


def replay(ck, par):
    """--replay <violation dir or cases file>: execute the stored inputs again and judge them with Apalache."""
    p = ck.replay
    if os.path.isdir(p):
        p = os.path.join(p, "cases.ndjson")
    cases = [case_of(r) | {"tag": r.get("tag") or "replay"} for r in core.read_ndjson(p)]
    cp = os.path.join(ck.out, "replay_cases.ndjson")
    core.write_ndjson(cp, cases)
    recs = core.read_ndjson(execute(ck, cp, name="replay_exec"))
    ck.cov["evaluations"] += 2 * len(recs)
    adir = ck.scratch("apalache_replay")
    for i, r in enumerate(recs):
        st, wall, out = apalache_batch(os.path.join(adir, "r%d" % i), "R%d" % i, [r])
        core.log("  replay %d: forward=%s transit=%s -> %s" % (i, r["v"], r["vt"], st))
        if st == "error":
            raise Inconclusive("Apalache failed on replay:\n" + out[-2000:])
        if st == "violated":
            tag = str(r.get("tag", ""))
            key = KEY_F5B if tag.startswith("F5b") else KEY_F5 if tag.startswith("F5") else "replay:%s/%s" % (r["v"], r["vt"])
            core.write_ndjson(os.path.join(ck.out, "replay_bad_%d.ndjson" % i), [r])
            ck.violation(key, "replayed case disagrees with exact arithmetic: %s" % json.dumps(r),
                         files={"cases.ndjson": os.path.join(ck.out, "replay_bad_%d.ndjson" % i)})
        else:
            ck.cov["traces_validated_against_impl"] += 1
    ck.cov["samples"].append(dict(kind="replay", first=recs[:2]))
    ck.cov["states"] = max(ck.cov["states"], 1)
    ck.cov["transitions"] = max(ck.cov["transitions"], 1)
    ck.cov["rule"] = "replay of stored inputs"
