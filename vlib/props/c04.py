"""C04: every revoked counterparty commitment can be fully punished from persisted data.

  (a) TLC on the bounded model (ChannelCloseMC): RevLogMatches - the revocation-log entry of height h is
      exactly the commitment the counterparty held at h; RevokedIsLoggedOrCurrent;
  (b) TLC-generated behaviours (ChannelGen) are replayed on two real lnwallet channels of all seven channel
      types from inside package contractcourt (harness/contractcourt/c04_justice_test.go; exported lnwallet
      API + the two-function shim harness/lnwallet/c04_export.go injected through the overlay). After every
      revocation the revoking side's would-be broadcast (ForceClose() of a reloaded copy) is kept. At the end,
      for BOTH parties as cheater and EVERY revoked height, from a victim state freshly read from the
      database, with the breach transaction and with nil (stored amounts; every 4th history runs with
      no-rev-log-amt-data): GetStateNumHint, NewBreachRetribution, contractcourt's newRetributionInfo and
      createJusticeTx (spend-all, commit-outputs-only and HTLCs-only variants), btcd's script interpreter on
      every input against the cheater's REAL transaction; then again after the cheater took every HTLC to the
      second level - one second-level transaction per HTLC (convertToSecondLevelRevoke) and, on anchor channel
      types, ALL of them aggregated into one transaction (SINGLE|ANYONECANPAY; fed through updateBreachInfo):
      each justice input must follow its HTLC to the output at the position of the spending input, with that
      output's amount; finally every revoked height is put through the chain watcher's own handleCommitSpend
      on a copy of the channel read from the database BEFORE the history (a stale handle nobody updates): it
      must hand a retribution for exactly that state to the breach arbitrator;
  (c) TLC validates: base events form a behaviour of spec/Channel with the same error verdicts, and each
      `Justice` line carries what the spec computes from disk[p].revlog[h]: number and kind of inputs, exact
      amounts (balances net of the fee the opener pays, trimmed outputs absent), indexes/amounts stored in the
      revocation log = those of the real transaction, state hint = h, all interpreter verdicts true.
"""
import os
from .. import core
from ..core import Inconclusive
from . import c05 as close

LEVEL = "model_checking"
SHIM = {"lnwallet/zz_verif_c04_export.go": os.path.join(core.VERIF, "harness", "lnwallet", "c04_export.go"),
        "channeldb/zz_verif_c04_legacy.go": os.path.join(core.VERIF, "harness", "channeldb", "c04_legacy_export.go")}


def keyfn(badrec, hdr, inv):
    role = "opener" if badrec.get("p") == hdr.get("opener") else "nonopener"
    bad = sorted({"k%d" % i["k"] for i in badrec.get("ins", []) if i["eng"] != 1 or i["eng2"] != 1})
    if any(s["eng"] != 1 or s["oidx"] != s["j"] or s["amt"] != s["txamt"] for s in badrec.get("sl", [])):
        bad.append("sl")
    if badrec.get("bsl2") == 1 and (badrec.get("ball") != 1 or any(
            s["eng"] != 1 or s["oidx"] != s["j"] or s["amt"] != s["txamt"] for s in badrec.get("bsl", []))):
        bad.append("bsl")
    if badrec.get("y") == 2:
        bad.append("watcher")
    return "C04:%s:Justice:%s:%s:%s" % (inv, hdr.get("type"), role, "+".join(bad) or "-")


def quirk(badrec, hdr, inv):
    # the one named deviation of ChannelCloseTrace: lease channel, victim = opener, own to_remote input invalid
    if inv == "JEngine" and keyfn(badrec, hdr, inv) == "C04:JEngine:Justice:lease:opener:k0":
        return {"LeaseJusticeQuirk": "TRUE"}
    return None


def controls(ck, recs, cfg, consts):
    def pick(bad, pred):
        c = [i for i, r in enumerate(bad) if pred(r)]
        return c[len(c) // 2] if c else None

    good = lambda r: r["a"] == "Justice" and r["err"] == "" and r["y"] < 2

    def m_eng(bad):
        i = pick(bad, lambda r: good(r) and len(r["ins"]) >= 3)
        if i is not None:
            bad[i]["ins"][-1]["eng"] = 0
        return i

    def m_amt(bad):
        i = pick(bad, lambda r: good(r) and r["ins"])
        if i is not None:
            bad[i]["ins"][0]["amt"] += 1
            bad[i]["ins"][0]["txamt"] += 1
        return i

    def m_hint(bad):
        i = pick(bad, lambda r: r["a"] == "Justice" and r["y"] < 2)
        if i is not None:
            bad[i]["hint"] += 1
        return i

    def m_newer(bad):
        # HTLC entries taken from the NEXT commitment: one more HTLC input than the revoked one has
        i = pick(bad, lambda r: good(r) and any(x["k"] >= 2 for x in r["ins"]))
        if i is not None:
            x = dict([x for x in bad[i]["ins"] if x["k"] >= 2][0])
            x["idx"] = 99
            bad[i]["ins"].append(x)
            bad[i]["nin"] += 1
            bad[i]["nouttx"] += 1
            bad[i]["nhtlclog"] += 1
        return i

    def m_batch(bad):
        # the two second-level outputs of an aggregated transaction confused
        i = pick(bad, lambda r: good(r) and r["bsl2"] == 1)
        if i is not None:
            bad[i]["bsl"][1]["oidx"] = bad[i]["bsl"][0]["oidx"]
        return i

    def m_watch(bad):
        i = pick(bad, lambda r: r["a"] == "Justice" and r["y"] == 2)
        if i is not None:
            bad[i]["rec"] = 0
        return i

    for mut, what in ((m_batch, "batched second level: two HTLCs mapped to the same output"),
                      (m_watch, "chain watcher with a stale handle did not hand over a retribution"),
                      (m_eng, "one HTLC justice input rejected by the interpreter"),
                      (m_amt, "to_remote amount +1 sat (both in the descriptor and in the transaction)"),
                      (m_hint, "state hint decodes to h+1"),
                      (m_newer, "one HTLC input too many (entries of a newer commitment)")):
        close.control(ck, recs, cfg, mut, what, constants=consts, nmax=1500)


def run(ck, extra_overlay=None):
    prop = "C04"
    files, g = close.model_and_behaviours(ck, prop)
    ov = dict(SHIM)
    ov.update(close.channel_common.fixture_overlay(ck))
    ov.update(extra_overlay or {})
    res = ck.go_test("./contractcourt/", "^TestVerifC04Justice$", ["contractcourt/c04_justice_test.go"],
                     env={"VERIF_SCHED": os.path.dirname(files[0]), "VERIF_TYPES": close.ALL_TYPES, "VERIF_THAW": 600},
                     timeout=3000, extra_overlay=ov)
    trace = os.path.join(res["dir"], "trace.ndjson")
    if not os.path.exists(trace) or os.path.getsize(trace) == 0:
        raise Inconclusive("executor produced no trace:\n" + res["out"][-3000:])
    if res["rc"] != 0 and "panic:" in res["out"]:
        ck.violation("C04:panic", "real lnwallet/contractcourt code panicked while punishing a revoked state",
                     files={"go.out": os.path.join(res["dir"], "go.out")}, text=res["out"][-4000:])
        return
    if res["rc"] != 0:
        raise Inconclusive("executor failed:\n" + res["out"][-3000:])
    recs = core.read_ndjson(trace)
    cfg = "ChannelCloseTrace_C04.cfg"
    obs = ("Justice",)
    ok = close.judge(ck, prop, recs, cfg, obs, "C04", keyfn=keyfn, quirk=quirk)
    ndiv = res["out"].count("VERIF-DIVERGED ")
    if ndiv and ok and not ck.violations and not ck.known_hits:
        raise Inconclusive("%d behaviours could not be replayed to the end, yet every recorded step conforms" % ndiv)
    jw = [r for r in recs if r["a"] == "Justice" and r["y"] == 2]
    js = [r for r in recs if r["a"] == "Justice" and r["y"] < 2]
    close.evidence(ck, recs, g, obs,
                   "at the end of each behaviour every revoked height of both parties is punished from a victim state "
                   "read back from the database, with the breach tx and with nil")
    ck.cov["trusted_base"].append("harness/lnwallet/c04_export.go: two setters injected into package lnwallet "
                                  "(fixture capacity, taproot verification nonce on reestablish)")
    ck.cov["justice"] = dict(
        evaluations=len(js), with_breach_tx=sum(1 for r in js if r["y"] == 1),
        from_stored_amounts=sum(1 for r in js if r["y"] == 0 and r["err"] == ""),
        no_amount_data_histories_missing=sum(1 for r in js if r["err"] == "missing"),
        justice_inputs=sum(len(r["ins"]) for r in js), htlc_inputs=sum(1 for r in js for i in r["ins"] if i["k"] >= 2),
        second_level_inputs=sum(len(r["sl"]) for r in js),
        batched_second_level_cases=sum(1 for r in js if r.get("bsl2") == 1),
        batched_second_level_inputs=sum(len(r.get("bsl", [])) for r in js),
        chain_watcher_stale_handle_recognitions=len(jw),
        script_executions=sum(2 * len(r["ins"]) + len(r["sl"]) + 2 * len(r.get("bsl", [])) for r in js),
        with_trimmed_output=sum(1 for r in js if r["err"] == "" and (r["ouridx"] < 0 or r["theiridx"] < 0)))
    big = [r for r in js if len(r["ins"]) >= 3]
    if big:
        r = big[len(big) // 2]
        ck.cov["samples"].append({k: r[k] for k in r if k not in ("sl",)})
    # negative controls are run under the same constants the batch was finally accepted with
    quirk_on = any("LeaseJusticeQuirk" in n for n in ck.notes)
    if not ck.violations and (ok or quirk_on):
        controls(ck, recs, cfg, {"LeaseJusticeQuirk": "TRUE"} if quirk_on else None)
