"""C10 Wire codecs are total, canonical and lossless for every BOLT message - claimed PARTIALLY.

Part A (decided with the spec, reported separately in the evidence as coverage["tlv"]):
  spec/TlvStream - a byte-level recogniser of tlv.Stream.decode and, written independently from the
  encoder, Canonical; TLC proves `accepts <=> Canonical` and decode-then-encode = input exhaustively
  (a) for all byte strings of length <= L over {00,01,02,03,fc,fd,fe,ff} and (b) at token level for the
  whole tree of <= MaxRecs records over the BigSize boundary classes in every (non-)minimal width.
  The same inputs run through the four decoding entry points of the REAL tlv.Stream (inside /repo/tlv)
  and TlvStreamTrace decides every recorded answer.
Part B (input exploration with a thin spec): spec/WireLaws - framing of ReadMessage/WriteMessage over
  the whole 16-bit type / failure-code space, and the codec laws as trace invariants over a mutation
  plan (type x operator x position class) that TLC enumerates and the lnwire executor must cover exactly.
  The plan has a value-boundary part (operators val-int / val-bytes / val-len): every scalar, fixed-size and
  length-prefixed field of every message type and of every failure message (found by walking the generated Go
  value) is set to the boundary classes of its encoding (BigSize width boundaries, byte patterns with an
  interior zero / 0xff / invalid UTF-8, lengths 0,1,0xfc..0x100); WireLaws.ValueLaw (with the value domains
  stated in the spec) decides the round trip - deviation class `value-roundtrip`, key
  wire:value-roundtrip:<kind>:<type>:<Struct.Field>.
  The plan has a record-level part for the TLV extension of every message type (operators rec-ins / rec-drop /
  rec-len: one unknown record of every type class x value-length class - EMPTY included - at its canonical
  position; presence/absence of the records present; the value of a present record resized with its length
  prefix adjusted).  spec/WireLaws/WireExt.tla is the model of the extension handling (Put / Extract / Split /
  Encode with the tlv.TypeMap explicit) that TLC checks for Partition / EmptyKept / Lossless; WireLaws.RecAccept
  and RecPreserved bind the real codec to it - deviation classes ext-record-lost (key
  wire:ext-record-lost:msg:<type>:<type classes>:<length classes>), ext-not-reproduced, ext-canonical-rejected;
  any other law broken by a record-level case carries the operator: wire:<law>:msg:<type>:rec-len.
"""
import concurrent.futures
import copy
import json
import os

from .. import core
from ..core import Inconclusive

LEVEL = "other"
TLV = os.path.join(core.VERIF, "spec", "TlvStream")
WL = os.path.join(core.VERIF, "spec", "WireLaws")
WORKERS = int(os.environ.get("VERIF_TLC_WORKERS", "4"))
NONP2P = ("Decode", "Parsed")
API_NAME = {"Decode": "Decode", "DecodeP2P": "DecodeP2P", "Parsed": "DecodeWithParsedTypes",
            "ParsedP2P": "DecodeWithParsedTypesP2P"}


# ----------------------------------------------------------------------------------------- helpers
def unquote_tlc_lines(path):
    """CSVWrite writes each JSON document as a quoted TLA+ string: undo that."""
    out = []
    with open(path) as fi:
        for line in fi:
            line = line.strip()
            if line:
                v = json.loads(line)
                out.append(json.loads(v) if isinstance(v, str) else v)
    return out


def run_postcond(ck, spec_dir, module, cfg, trace, name, constants=None, timeout=1800):
    """Trace validation whose verdict is the POSTCONDITION NoDeviation + dev.txt (all deviation classes in
    one pass).  Returns (ok, devs) with devs = list of token lists from dev.txt."""
    r = ck.tlc(spec_dir, module, cfg, name=name, mode="trace", workers=1, files={"trace.ndjson": trace},
               constants=constants, timeout=timeout)
    nlines = sum(1 for _ in open(trace))
    devs = []
    dp = os.path.join(r.dir, "dev.txt")
    if os.path.exists(dp):
        for line in open(dp):
            toks = [json.loads(x) if x.startswith('"') else x for x in line.split()]
            if toks:
                devs.append(toks)
    notes = []
    np_ = os.path.join(r.dir, "note.txt")
    if os.path.exists(np_):
        notes = [[json.loads(x) if x.startswith('"') else x for x in line.split()] for line in open(np_)]
    post_false = bool(r.error and "Postcondition NoDeviation" in r.error) or "Postcondition NoDeviation" in r.out
    if r.violation or (r.error and not post_false):
        # a deadlock / invariant failure / tool error: the model could not even consume the trace
        raise Inconclusive("trace validation failed to run to the end (%s/%s): %s\n%s" % (
            module, cfg, r.violation or r.error, r.out[-3000:]))
    if not post_false and not r.ok:
        raise Inconclusive("unexpected TLC result for %s: %s" % (module, r.out[-2000:]))
    if post_false != bool(devs):
        raise Inconclusive("postcondition and dev.txt disagree (%s): %d deviations" % (module, len(devs)))
    ck.cov["validations"].append(dict(module=module, cfg=cfg, lines=nlines, wall_s=round(r.wall, 1),
                                      result="accepted" if not devs else "%d deviations" % len(devs),
                                      states=r.distinct))
    if not ck.cov.get("validator_cmd"):
        ck.cov["validator_cmd"] = r.cmd
    core.log("  [val] %s/%s %s: %d lines, %.0fs -> %s" % (module, cfg, name, nlines, r.wall,
                                                         "accepted" if not devs else "%d deviations" % len(devs)))
    return (not devs), devs, notes


def batches_by_size(path, max_bytes):
    out, cur, size = [], [], 0
    with open(path) as fi:
        for line in fi:
            if cur and size + len(line) > max_bytes:
                out.append(cur)
                cur, size = [], 0
            cur.append(line)
            size += len(line)
    if cur:
        out.append(cur)
    return out


# ------------------------------------------------------------------------------------------ part A
def tlv_key(api, kind, cls):
    if api in NONP2P and cls == "len>=2^63":
        return "F4:tlv-nonp2p-length-ge-2^63:%s" % API_NAME[api]
    if api in NONP2P and cls == "len>65536" and kind in ("alloc", "panic"):
        return "F4:tlv-nonp2p-prealloc-from-length:%s" % API_NAME[api]
    return "tlv:%s:%s:%s" % (kind, API_NAME.get(api, api), cls)


def part_tlv(ck):
    thorough = ck.tier == "thorough"
    L_mc = 7 if thorough else 6
    L_exec = 6 if thorough else 5
    recs_mc = 3 if thorough else 2
    recs_exec = 2
    tlvcov = dict(alphabet="00 01 02 03 fc fd fe ff", known_types="1:uint8 (DUint8) 2:[]byte (DVarBytes) 3:uint16 (DUint16)")

    # (a) exhaustive model checking: recogniser accepts exactly Canonical, and is lossless
    if os.environ.get("VERIF_C10_SKIP_MC"):      # development / mutation-control runs only
        ck.notes.append("VERIF_C10_SKIP_MC set: exhaustive model checking skipped in this run")
        L_mc, recs_mc = 2, 1
    r = ck.model_check(TLV, "TlvStreamMC", "TlvStreamMC.cfg", "TlvStream bytes L<=%d x {p2p,non-p2p}" % L_mc,
                       constants={"L": L_mc}, name="mc_bytes", workers=WORKERS, timeout=2400)
    tlvcov["mc_bytes"] = dict(L=L_mc, states=r.distinct, wall_s=round(r.wall, 1))
    r = ck.model_check(TLV, "TlvStreamTokMC", "TlvStreamTokMC.cfg",
                       "TlvStream tokens <=%d records over 13 BigSize classes" % recs_mc,
                       constants={"MaxRecs": recs_mc}, name="mc_tokens", workers=WORKERS, timeout=2400)
    tlvcov["mc_tokens"] = dict(MaxRecs=recs_mc, states=r.distinct, wall_s=round(r.wall, 1))
    # vacuity guard: the neighbourhood of F4 (a record length of 2^63 awaiting its value) is reached
    rv = ck.tlc(TLV, "TlvStreamTokMC", "TlvStreamTokMC_reach.cfg", name="mc_reach", mode="mc", workers=2,
                constants={"MaxRecs": 1}, timeout=600)
    if rv.violation != "invariant ReachesHuge":
        raise Inconclusive("token model does not reach a 2^63 length (vacuous): %s" % (rv.violation or rv.error))

    # (b) TLC generates the token-level inputs
    g = ck.tlc(TLV, "TlvStreamGen", "TlvStreamGen.cfg", name="gen_tokens", mode="mc", workers=2,
               constants={"MaxRecs": recs_exec}, timeout=2400)
    if g.error or g.violation:
        raise Inconclusive("token generation failed: %s\n%s" % (g.error or g.violation, g.out[-2000:]))
    seen, toks = set(), []
    for rec in unquote_tlc_lines(os.path.join(g.dir, "tok.ndjson")):
        k = json.dumps(rec["inp"])
        if k not in seen:
            seen.add(k)
            toks.append(rec)
    tokfile = os.path.join(ck.out, "tok_inputs.ndjson")
    core.write_ndjson(tokfile, toks)
    ck.cov["model_runs"].append(dict(what="generate token inputs", module="TlvStreamGen", behaviours=len(toks),
                                     wall_s=round(g.wall, 1)))
    core.log("  [gen] TlvStreamGen: %d distinct token-level inputs, %.0fs" % (len(toks), g.wall))

    # (c) execute on the real tlv.Stream, inside the tlv module
    res = ck.go_test("./", "^TestVerifC10Tlv$", ["tlv/c10_test.go"], moddir=os.path.join(core.REPO, "tlv"),
                     kit=False, env={"VERIF_L": L_exec, "VERIF_TOK": tokfile}, name="exec_tlv", timeout=1500)
    trace = os.path.join(res["dir"], "trace.ndjson")
    if res["rc"] != 0 or not os.path.exists(trace):
        raise Inconclusive("tlv executor failed:\n" + res["out"][-3000:])

    # (d) validate, in batches (<= 25 MB), a few TLC runs side by side
    bs = batches_by_size(trace, 25_000_000)
    paths = []
    for i, b in enumerate(bs):
        p = os.path.join(ck.out, "tlv_batch_%d.ndjson" % i)
        open(p, "w").writelines(b)
        paths.append(p)
    devs_all, notes_all = [], []
    with concurrent.futures.ThreadPoolExecutor(max_workers=min(3, len(paths))) as ex:
        futs = [ex.submit(run_postcond, ck, TLV, "TlvStreamTrace", "TlvStreamTrace.cfg", p, "val_tlv_%d" % i)
                for i, p in enumerate(paths)]
        for i, f in enumerate(futs):
            ok, devs, notes = f.result()
            devs_all += [(i, d) for d in devs]
            notes_all += notes

    # statistics (measured on the trace) -----------------------------------------------------------
    n_in = n_acc = n_skip = 0
    distinct = set()
    sample_acc = sample_rej = None
    by_batch = []
    for p in paths:
        recs = core.read_ndjson(p)
        by_batch.append(recs)
        for rec in recs:
            n_in += 1
            rr = rec["r"]
            verdicts = tuple((rr[a]["o"], rr[a]["e"]) for a in ("Decode", "DecodeP2P", "Parsed", "ParsedP2P"))
            n_skip += sum(rr[a]["s"] for a in rr)
            if any(rr[a]["o"] == 1 for a in rr):
                n_acc += 1
                if rec["inp"]:
                    distinct.add(core.sha(json.dumps(rec["inp"])))
                if sample_acc is None and len(rec["inp"]) >= 4:
                    sample_acc = rec
            elif sample_rej is None and len(rec["inp"]) >= 3:
                sample_rej = rec
            _ = verdicts
    ck.cov["evaluations"] += 4 * n_in - n_skip
    ck.cov["distinct_nontrivial"] += len(distinct)
    ck.cov["traces_validated_against_impl"] += n_in
    tlvcov.update(executed_inputs=n_in, entry_points=4, accepted_by_some_entry_point=n_acc,
                  byte_level_L=L_exec, token_level_inputs=len(toks), token_level_MaxRecs=recs_exec,
                  calls_not_executed_by_allocation_guard=n_skip)
    for s in (sample_acc, sample_rej):
        if s is not None:
            ck.cov["samples"].append({"tlv": s})

    # (e) deviations -> violations, one per class ---------------------------------------------------
    classes = {}
    for bi, d in devs_all:
        api, kind, cls, line = d[0], d[1], d[2], int(d[3])
        classes.setdefault(tlv_key(api, kind, cls), []).append((bi, api, kind, cls, line))
    tlvcov["deviation_classes"] = {k: len(v) for k, v in classes.items()}
    ec = {}
    for n in notes_all:
        k = "%s: code '%s' / model '%s'" % (API_NAME.get(n[0], n[0]), n[1], n[2])
        ec[k] = ec.get(k, 0) + 1
    tlvcov["rejected_by_both_with_different_error_class"] = ec
    for key, items in sorted(classes.items()):
        bi, api, kind, cls, line = items[0]
        rec = by_batch[bi][line - 1]
        one = os.path.join(ck.out, "tlv_failing_input.ndjson")
        core.write_ndjson(one, [rec])
        inp = bytes(b for b, n in rec["inp"] for _ in range(min(n, 64)))
        kinds = sorted({i[2] for i in items})
        ck.violation(key,
                     "tlv.Stream.%s deviates from spec/TlvStream on %d executed inputs of class '%s' (%s); first: "
                     "input (runs [byte,count]) %s = %s%s -> code %s, model rejects/accepts per Canonical" % (
                         API_NAME.get(api, api), len(items), cls, ",".join(kinds), json.dumps(rec["inp"])[:200],
                         inp.hex()[:120], "..." if len(inp) > 60 else "", json.dumps(rec["r"][api])),
                     files={"trace.ndjson": one})

    # (f) negative control: corrupt one recorded answer of a line the validator accepted
    ctl = None
    flagged = {(bi, int(d[3])) for bi, d in devs_all}
    for i, rec in enumerate(by_batch[0]):
        if (0, i + 1) not in flagged and rec["r"]["DecodeP2P"]["o"] == 1 and len(rec["inp"]) >= 3:
            ctl = copy.deepcopy(rec)
            break
    if ctl is None:
        raise Inconclusive("no accepted line for the negative control")
    ctl["r"]["DecodeP2P"]["o"] = 0
    ctl["r"]["DecodeP2P"]["e"] = "eof"
    ctl["r"]["DecodeP2P"]["k"] = []
    cp = os.path.join(ck.out, "tlv_control.ndjson")
    core.write_ndjson(cp, [ctl])
    ok, devs, _ = run_postcond(ck, TLV, "TlvStreamTrace", "TlvStreamTrace.cfg", cp, "control_tlv")
    if ok or not any(d[0] == "DecodeP2P" and d[1] == "reject-canonical" for d in devs):
        raise Inconclusive("negative control accepted: TLV trace validation is not binding")
    ck.cov.setdefault("negative_controls", []).append(
        dict(part="tlv", mutation="DecodeP2P verdict of an accepted input flipped to reject",
             rejected_by="reject-canonical"))
    ck.cov["tlv"] = tlvcov
    return tlvcov


# ------------------------------------------------------------------------------------------ part B
REC_TYPES = ["o9d", "ofb", "efc", "ofd", "efffe", "offff", "c10001", "s3b9aca01", "cffffffff", "c100000001"]
REC_LENS = ["l0", "l1", "lfc", "lfd", "lff", "l100"]
REC_TYPE_SETS = {"all-types": set(REC_TYPES), "unsigned-range": set(REC_TYPES) - {"o9d", "s3b9aca01"},
                 "below-custom-range": set(REC_TYPES[:6]), "custom-range": set(REC_TYPES[6:])}


def lost_signature(lost):
    """Name of a set of (type class, length class) pairs: '<types>:<lengths>' if it is a product, else 'mixed'."""
    ts, ls = {a for a, _ in lost}, {b for _, b in lost}
    if lost != {(a, b) for a in ts for b in ls}:
        return "mixed:" + "+".join(sorted("%s.%s" % x for x in lost))[:80]
    tn = next((n for n, v in REC_TYPE_SETS.items() if v == ts), "+".join(x for x in REC_TYPES if x in ts))
    ln = "all-lengths" if ls == set(REC_LENS) else "+".join(x for x in REC_LENS if x in ls)
    return "%s:%s" % (tn, ln)


def build_wire_control(ck, recs, flagged):
    """Negative control (always): an accepted mutant whose re-encoding is claimed not to be a fixpoint must be
    reported at exactly that line; likewise a value-boundary case (a field that reached the encoding and came back
    equal) claimed to have come back different, and one claimed to have set another field than the one the
    repetition selects; a record-level case whose inserted empty-valued record came back, claimed lost, and one
    claimed to be of another type class than the plan cell says; and with the last plan line removed (the line
    numbers of the others stay) the plan must be reported as not covered."""
    def law(x):
        return x["a"] == "Law" and x["na"] == 0 and x["pan"] == 0 and x["hang"] == 0
    i = next((i for i, x in enumerate(recs) if law(x) and x["d1"] == 1 and x["op"] == "flip" and x["fix"] == 1
              and (i + 1) not in flagged), None)
    okval = [j for j, x in enumerate(recs) if law(x) and x["op"] in ("val-int", "val-bytes") and x["same"] == 1
             and x["e0"] == 1 and x["chg"] == 1 and x["d1"] == 1 and x["veq"] == 1 and x["nf"] >= 2 and x["fix"] == 1
             and (j + 1) not in flagged]
    okrec = [j for j, x in enumerate(recs) if law(x) and x["op"] == "rec-ins" and x["d1"] == 1 and x["fix"] == 1
             and x["rkept"] == 1 and x["same"] == 1 and x["lcls"] == "l0" and (j + 1) not in flagged]
    if i is None or len(okval) < 2 or len(okrec) < 2:
        raise Inconclusive("no case for the negative control (flip %s, value-boundary %d, record-level %d)" % (
            i, len(okval), len(okrec)))
    jv, jf = okval[0], okval[len(okval) // 2]
    jr, jc = okrec[0], okrec[len(okrec) // 2]
    last = max(j for j, x in enumerate(recs) if x["a"] == "Law")
    if last in (i, jv, jf, jr, jc):
        raise Inconclusive("negative control lines collide")
    bad = list(recs)
    for j in (i, jv, jf, jr, jc):
        bad[j] = dict(recs[j])
    bad[i]["fix"] = 0
    bad[jv]["veq"] = 0
    bad[jf]["fi"] = bad[jf]["fi"] % bad[jf]["nf"] + 1
    bad[jr]["rkept"] = 0
    bad[jc]["tcls"] = "efc" if bad[jc]["tcls"] != "efc" else "ofb"
    del bad[last]
    cp = os.path.join(ck.out, "wire_control.ndjson")
    core.write_ndjson(cp, bad)
    return dict(path=cp, i=i, jv=jv, jf=jf, jr=jr, jc=jc, bad=bad)


def check_wire_control(ck, ctl, ok2, devs2):
    i, jv, jf, jr, jc, bad = (ctl[k] for k in ("i", "jv", "jf", "jr", "jc", "bad"))
    if ok2 or not any(d[0] == "fixpoint" and int(d[4]) == i + 1 for d in devs2):
        raise Inconclusive("negative control accepted: WireLaws trace validation is not binding")
    if not any(d[0] == "value-roundtrip" and int(d[4]) == jv + 1 for d in devs2):
        raise Inconclusive("negative control accepted: the value-boundary law (ValueLaw) is not binding")
    if not any(d[0] == "field-plan" and int(d[4]) == jf + 1 for d in devs2):
        raise Inconclusive("negative control accepted: the field selection of the value-boundary plan is not binding")
    if not any(d[0] == "ext-record-lost" and int(d[4]) == jr + 1 for d in devs2):
        raise Inconclusive("negative control accepted: the record-level law (RecPreserved) is not binding")
    if not any(d[0] == "field-plan" and int(d[4]) == jc + 1 for d in devs2):
        raise Inconclusive("negative control accepted: the record class of a record-level case is not binding")
    if not any(d[0] == "plan-not-covered" for d in devs2):
        raise Inconclusive("negative control accepted: plan coverage is not binding")
    ck.cov.setdefault("negative_controls", []).append(
        dict(part="wirelaws", mutation="fix=0 on an accepted mutant (line %d); last plan line removed" % (i + 1),
             rejected_by="fixpoint; plan-not-covered"))
    ck.cov["negative_controls"].append(
        dict(part="wirelaws record-level", mutation="rkept=0 on %s %s rec-ins %s (line %d); tcls changed on line %d" % (
            bad[jr]["kind"], bad[jr]["t"], bad[jr]["pos"], jr + 1, jc + 1),
             rejected_by="ext-record-lost; field-plan"))
    ck.cov["negative_controls"].append(
        dict(part="wirelaws value-boundary", mutation="veq=0 on %s %s %s=%s (line %d); fi changed on line %d" % (
            bad[jv]["kind"], bad[jv]["t"], bad[jv]["fld"], bad[jv]["pos"], jv + 1, jf + 1),
             rejected_by="value-roundtrip; field-plan"))


def part_wire(ck):
    thorough = ck.tier == "thorough"
    reps = 120 if thorough else 24
    rec_reps = 24 if thorough else 8     # record-level cells: the classes are fixed, a repetition varies the message
    r = ck.model_check(WL, "WireLawsMC", "WireLawsMC.cfg", "WireLaws plan + framing model", name="mc_wirelaws",
                       workers=2, timeout=600)
    maxrecs = 3 if thorough else 2
    if os.environ.get("VERIF_C10_SKIP_MC"):
        maxrecs = 1
    rx = ck.model_check(WL, "WireExt", "WireExtMC.cfg", "WireExt extension model (Put/Extract/Split/Encode), <=%d records "
                        "over 12 type x 6 length classes, 3 paths" % maxrecs, constants={"MaxRecs": maxrecs},
                        name="mc_wireext", workers=WORKERS, timeout=1200)
    rv = ck.tlc(WL, "WireExt", "WireExtMC_reach.cfg", name="mc_wireext_reach", mode="mc", workers=2, timeout=600)
    if rv.violation != "invariant ReachEmptyMix":
        raise Inconclusive("WireExt does not reach typed + empty unknown + custom record (vacuous): %s" % (
            rv.violation or rv.error))
    g = ck.tlc(WL, "WireLawsGen", "WireLawsGen.cfg", name="gen_plan", mode="mc", workers=1, timeout=600)
    if g.error or g.violation:
        raise Inconclusive("plan generation failed: %s\n%s" % (g.error or g.violation, g.out[-2000:]))
    cells = unquote_tlc_lines(os.path.join(g.dir, "plan.ndjson"))
    plan = os.path.join(ck.out, "plan.ndjson")
    core.write_ndjson(plan, cells)
    core.log("  [gen] WireLawsGen: %d plan cells x %d repetitions" % (len(cells), reps))
    ck.cov["model_runs"].append(dict(what="generate mutation plan", module="WireLawsGen", behaviours=len(cells),
                                     wall_s=round(g.wall, 1)))

    res = ck.go_test("./lnwire/", "^TestVerifC10WireLaws$", ["lnwire/c10_test.go"],
                     env={"VERIF_PLAN": plan, "VERIF_REPS": reps, "VERIF_REC_REPS": rec_reps}, name="exec_lnwire", timeout=1500)
    trace = os.path.join(res["dir"], "trace.ndjson")
    if res["rc"] != 0 or not os.path.exists(trace):
        raise Inconclusive("lnwire executor failed:\n" + res["out"][-3000:])
    recs = core.read_ndjson(trace)
    # the validation of the trace and of its corrupted copy (negative control) run side by side; the control lines are
    # picked among the cases whose recorded bits satisfy every law, and checked afterwards not to be lines the
    # validator flagged (otherwise the control is rebuilt without them and run again)
    cons = {"Reps": reps, "RecReps": rec_reps}
    ctl = build_wire_control(ck, recs, set())
    with concurrent.futures.ThreadPoolExecutor(max_workers=2) as ex:
        f1 = ex.submit(run_postcond, ck, WL, "WireLawsTrace", "WireLawsTrace.cfg", trace, "val_wirelaws", cons)
        f2 = ex.submit(run_postcond, ck, WL, "WireLawsTrace", "WireLawsTrace.cfg", ctl["path"], "control_wirelaws", cons)
        ok, devs, _ = f1.result()
        ok2, devs2, _ = f2.result()
    laws = [x for x in recs if x["a"] == "Law"]
    execd = [x for x in laws if x["na"] == 0]
    acc = [x for x in execd if x["d1"] == 1]
    ck.cov["evaluations"] += len(execd) + 2 * 65536 + sum(1 for x in recs if x["a"] in ("Write", "ReadShort"))
    ck.cov["distinct_nontrivial"] += len({x["h"] for x in execd if x["op"] != "valid"})
    ck.cov["traces_validated_against_impl"] += 1
    vals = [x for x in execd if x["op"].startswith("val-")]
    vchg = [x for x in vals if x["e0"] == 1 and x["chg"] == 1]
    value_part = dict(
        plan_cells=len([c for c in cells if c["op"].startswith("val-")]),
        cases_executed=len(vals),
        cases_reaching_the_encoding=len(vchg),
        came_back_equal=len([x for x in vchg if x["d1"] == 1 and x["veq"] == 1 and x["same"] == 1]),
        encoder_refused=len([x for x in vals if x["e0"] == 0]),
        decoder_refused=len([x for x in vals if x["e0"] == 1 and x["d1"] == 0]),
        distinct_fields={k: len({(x["t"], x["path"]) for x in vals if x["kind"] == k}) for k in ("msg", "fail", "pkt")},
        distinct_field_class_pairs=len({(x["kind"], x["t"], x["path"], x["pos"]) for x in vals}),
        struct_fields=len({x["fld"] for x in vals}))
    rl = [x for x in execd if x["op"].startswith("rec-")]
    rins = [x for x in rl if x["op"] == "rec-ins"]
    record_part = dict(
        model=dict(module="WireExt", MaxRecs=maxrecs, states=rx.distinct, wall_s=round(rx.wall, 1)),
        plan_cells=len([c for c in cells if c["op"].startswith("rec-")]),
        cases_executed=len(rl),
        not_applicable=len([x for x in laws if x["op"].startswith("rec-") and x["na"] == 1]),
        types_with_extension=len({(x["kind"], x["t"]) for x in rl}),
        rec_ins=dict(executed=len(rins), accepted=len([x for x in rins if x["d1"] == 1]),
                     record_kept_and_byte_identical=len([x for x in rins if x["rkept"] == 1 and x["same"] == 1]),
                     empty_value_cases_kept=len([x for x in rins if x["lcls"] == "l0" and x["rkept"] == 1]),
                     distinct_type_x_length_classes=len({(x["tcls"], x["lcls"]) for x in rins})),
        rec_drop=dict(executed=len([x for x in rl if x["op"] == "rec-drop"]),
                      accepted=len([x for x in rl if x["op"] == "rec-drop" and x["d1"] == 1])),
        rec_len=dict(executed=len([x for x in rl if x["op"] == "rec-len"]),
                     accepted=len([x for x in rl if x["op"] == "rec-len" and x["d1"] == 1]),
                     distinct_record_types_resized=len({(x["t"], x["rt"]) for x in rl if x["op"] == "rec-len"})))
    wl = dict(plan_cells=len(cells), repetitions=reps, record_level_repetitions=rec_reps, record_level=record_part, cases_executed=len(execd), not_applicable=len(laws) - len(execd),
              value_boundary=value_part,
              accepted=len(acc), rejected=len(execd) - len(acc),
              accepted_mutants=len([x for x in acc if x["op"] not in ("valid", "ext-odd")]),
              max_alloc_bytes=max([x["alloc"] for x in execd] or [0]),
              max_input_len=max([x["ilen"] for x in execd] or [0]),
              dispatch_ranges=len([x for x in recs if x["a"] == "Dispatch"]),
              message_types=len({x["t"] for x in laws if x["kind"] == "msg"}),
              failure_codes=len({x["t"] for x in laws if x["kind"] == "fail"}))
    ck.cov["wirelaws"] = wl
    for x in (next((x for x in acc if x["op"] == "flip"), None), next((x for x in execd if x["op"] == "len+1"), None),
              next((x for x in vchg if x["op"] == "val-int" and x["pos"] == "i10000"), None),
              next((x for x in vchg if x["op"] == "val-bytes" and x["pos"] == "bz"), None),
              next((x for x in rins if x["lcls"] == "l0" and x["rkept"] == 1 and x["tcls"] == "ofd"), None)):
        if x:
            ck.cov["samples"].append({"law": x})

    # a defect that breaks the generated value of a type (not one field) makes the case of every field of that type
    # deviate: more than three fields of one type are reported under one key wire:value-roundtrip:<kind>:<type>:*
    vr_fields = {}
    for d in devs:
        if d[0] == "value-roundtrip" and int(d[4]) - 1 < len(recs):
            vr_fields.setdefault((d[1], d[2]), set()).add(recs[int(d[4]) - 1].get("fld"))
    # an unknown record lost by the codec is named by WHICH records a message type loses (a product of type classes
    # and value-length classes of the rec-ins cells that were accepted): the names only describe the recorded set
    lost_sig = {}
    for t in {d[2] for d in devs if d[0] == "ext-record-lost"}:
        lines = {int(d[4]) for d in devs if d[0] == "ext-record-lost" and d[2] == t}
        lost = {(recs[i - 1]["tcls"], recs[i - 1]["lcls"]) for i in lines if i - 1 < len(recs)}
        lost_sig[t] = lost_signature(lost)
    classes = {}
    for d in devs:
        what, kind, t, op, line = d[0], d[1], d[2], d[3], int(d[4])
        key = "wire:%s:%s:%s" % (what, kind, t) if kind in ("msg", "fail", "pkt") and what not in (
            "dispatch", "range-gap", "dispatch-type") else "wire:%s:%s:%s:%s" % (what, kind, t, op)
        if what == "ext-record-lost":
            key = "wire:ext-record-lost:%s:%s:%s" % (kind, t, lost_sig.get(t, "?"))
        elif str(op).startswith("rec-") and what not in ("ext-not-reproduced", "ext-canonical-rejected"):
            key = "wire:%s:%s:%s:%s" % (what, kind, t, op)
        if what == "value-roundtrip" and line - 1 < len(recs):
            # the value-boundary part names the field: wire:value-roundtrip:fail:16406:InvalidOnionPayload.Type
            key = "wire:value-roundtrip:%s:%s:%s" % (kind, t, recs[line - 1].get("fld") or op)
            if len(vr_fields.get((kind, t), ())) > 3:
                key = "wire:value-roundtrip:%s:%s:*" % (kind, t)
        classes.setdefault(key, []).append((what, kind, t, op, line))
    wl["deviation_classes"] = {k: len(v) for k, v in classes.items()}
    for key, items in sorted(classes.items()):
        what, kind, t, op, line = items[0]
        rec = recs[line - 1] if line - 1 < len(recs) else {}
        one = os.path.join(ck.out, "wire_failing_case.ndjson")
        core.write_ndjson(one, [rec])
        ops = sorted({i[3] for i in items})
        flds = sorted({recs[i[4] - 1].get("fld", "") for i in items if i[4] - 1 < len(recs)} - {""})
        ck.violation(key, "lnwire breaks law '%s' for %s %s on %d cases (operators %s%s); first: %s. Reproduce: "
                          "VERIF_SEED=%d, plan cell (%s,%s,%s,%s) rep %s" % (
                              what, kind, t, len(items), ",".join(map(str, ops)),
                              "; fields " + ",".join(flds[:12]) if flds else "", json.dumps(rec)[:600], ck.seed,
                              kind, t, rec.get("op"), rec.get("pos"), rec.get("rep")),
                     files={"trace.ndjson": one})

    flagged = {int(d[4]) for d in devs}
    if flagged & {ctl[k] + 1 for k in ("i", "jv", "jf", "jr", "jc")}:
        ctl = build_wire_control(ck, recs, flagged)
        ok2, devs2, _ = run_postcond(ck, WL, "WireLawsTrace", "WireLawsTrace.cfg", ctl["path"], "control_wirelaws", cons)
    check_wire_control(ck, ctl, ok2, devs2)
    return wl


def run(ck):
    parts = os.environ.get("VERIF_C10_PARTS", "tlv,wire").split(",")
    if "tlv" in parts:
        part_tlv(ck)
    if "wire" in parts:
        part_wire(ck)
    ck.cov["exhaustive"] = False
    ck.cov["explanation"] = (
        "Level 'other' because the property is only partially decided by a model. (1) TLV sub-result, model_checking "
        "grade: TLC proves on spec/TlvStream that the byte-level recogniser of Stream.decode accepts exactly the "
        "independently (encoder-)defined Canonical streams and that decode-then-encode is the identity, exhaustively "
        "for all byte strings up to the stated length over the 8-byte boundary alphabet and for the whole token tree "
        "over 13 BigSize boundary classes in every width; the same inputs are executed on the four entry points of "
        "the real tlv.Stream and every answer (accept/reject, error class, decoded known records, TypeMap keys, "
        "re-encoded bytes, panic, over-allocation) is decided by TLC against the recogniser - see coverage.tlv. "
        "(2) Message layouts are NOT modelled: spec/WireLaws specifies only the framing (type/failure-code dispatch "
        "over all 65536 values, payload bound, all-or-nothing write) and the codec laws (totality, bound, canonical "
        "fixpoint, value round trip, unknown odd extension record preserved) as predicates over single "
        "observations; the inputs are a TLC-enumerated mutation plan (type x operator x position class) applied "
        "to generator-built valid encodings - structure-aware input exploration with a trivial specification, "
        "see coverage.wirelaws. The value-boundary part of the plan (coverage.wirelaws.value_boundary) sets every "
        "scalar / fixed-size / length-prefixed field of every generated message and failure value to the boundary "
        "classes of its encoding and judges `decodes back to an equal value, byte-identically` with the value "
        "domains stated in the spec (InDomain). The record-level part (coverage.wirelaws.record_level) concerns the TLV "
        "extension every message type carries after its fixed layout: spec/WireLaws/WireExt.tla models its handling "
        "(Put / Extract into the tlv.TypeMap with nil = parsed typed record / Split into typed, custom and extra "
        "records / Encode by merge and sort) and TLC checks Partition, EmptyKept (an unknown record with an EMPTY value "
        "is a record) and Lossless for all canonical streams of the stated size; the plan cells rec-ins (one unknown "
        "record of each of 10 type classes x 6 value-length classes at its canonical position in the extension of a "
        "generated encoding), rec-drop (a present record or all removed) and rec-len (the value of a present record "
        "emptied / resized by one byte or one 8-byte element / doubled, length prefix adjusted) run on every message "
        "type; RecAccept / RecPreserved decide rec-ins from the recorded bits (accepted, record found in the "
        "extension of the re-encoding, re-encoding byte-identical), rec-drop and rec-len are judged by totality, bound "
        "and the fixpoint law. Nothing is claimed about field-by-field correctness of a layout beyond these laws.")
    ck.cov["rule"] = (
        "tlv: evaluations = entry-point calls on enumerated inputs (all byte strings <= L over the alphabet + every "
        "leaf of the TLC token tree); distinct_nontrivial = distinct non-empty inputs accepted by at least one entry "
        "point. wirelaws: evaluations = executed plan cases + 2*65536 dispatch probes + write-bound probes; "
        "distinct_nontrivial = distinct mutated inputs (hash of the bytes; a value-boundary case counts by the hash "
        "of the encoding of the value with the field set; a record-level case by the hash of fixed part + new "
        "extension), valid encodings not counted")
    ck.cov["trusted_base"] = [
        "TLC 1.8.0 + CommunityModules (Json, CSV)",
        "executor projections: error identity -> class, known-record values, TypeMap keys, bytes.Equal, "
        "runtime/metrics heap allocation delta, recover()",
        "lnwire: the package's own generators (RandTestMessage, onionFailures) define 'well-formed value'; "
        "reflect.DeepEqual as value equality (as TestLightningWireProtocol does)",
        "Num abstraction: 64-bit values as big-endian byte strings (order/equality only)"]
    ck.assumptions += [
        "known-record table {1:uint8, 2:[]byte, 3:uint16} built with tlv.MakePrimitiveRecord (DUint8, DVarBytes, "
        "DUint16); the other primitive/truncated decoders of the tlv package are not part of the TLV sub-result",
        "byte level is bounded by L (a 9-byte BigSize cannot complete with a value inside L=7); the token level "
        "covers the wide encodings with symbolic boundary classes only",
        "allocation guard: an entry point observed allocating > 1 MiB + 4x input twice is not called again on inputs "
        "that claim >= 2^24 bytes (recorded, counted in coverage.tlv.calls_not_executed_by_allocation_guard)",
        "message part: position classes head/mid/tail of the decoder's own read boundaries; one random byte/bit "
        "pattern per cell and repetition (seeded); zlib-encoded short channel ids only as the generators build them",
        "value-boundary part: fields are the leaves of the Go value reachable through lnwire/tlv/fn/wire/color structs "
        "(maps - feature vectors, custom records -, net.Addr lists, curve points and scalars are opaque; of a list the "
        "first two elements); one field per case, the other fields keep the generated values; a field whose boundary "
        "value does not change the encoding is not judged for value equality (not on the wire in that value); the "
        "value domains (3-byte short_channel_id parts, 2-byte output index, encoding type, DNS port, message_flags, "
        "musig2 nonces, alias text, script / alias lengths) are the named exceptions of WireLaws.InDomain",
        "record-level part: the extension of an encoding is what the decoder hands to ExtraOpaqueData.Decode (or, for a "
        "pure-TLV message, to the tlv stream decoder) - found by watching the reads of one decode of the valid encoding; "
        "the 10 unknown record types (157, 251, 252, 253, 65534, 65535, 65537, 1000000001, 2^32-1, 2^32+1) are not typed "
        "records of any lnd message; one inserted record per case (WireExt checks streams of up to MaxRecs records on "
        "the model only); record values are a fixed byte pattern; messages without extension are WireLaws.NoExtTypes "
        "(warning, error, ping, pong, onion_message); failure messages are not part of the record-level plan; the "
        "rec-drop / rec-len cases are only judged by totality, bound and fixpoint (an accepted message with a record "
        "missing or resized need not reproduce the input byte for byte)"]
