"""C01: decided with spec/Channel (see channel_common.py, DESIGN.md 4.1 and 5)."""
from . import channel_common

LEVEL = "model_checking"


def run(ck):
    channel_common.run_channel(ck, "C01")
