"""C07 The switch forwards each HTLC at most once and relays at most one response.

spec/CircuitMap: the circuit map at the granularity of its own critical sections (memory phase /
transaction / rollback-or-apply phase of every call, the three phases of NewCircuitMap, Crash).
  (a) exhaustive TLC on small universes (sequential-deep and concurrent configurations),
  (b) TLC-generated schedules replayed on the real htlcswitch circuit map over a bolt file, the
      goroutines parked before/after every transaction, write failures and crashes injected,
  (c) a free-running seeded driver on a larger universe (3 threads, batches of 3),
  (d) TLC trace validation of everything recorded (returns, memory, the two buckets),
  (e) negative control, and - thorough tier - the API-level anomalies (H9, H10, H11) located by TLC
      on the relaxed model and replayed on the real map.
spec/CircuitMap/SwitchForward: the switch-level forwarding path (Switch.ForwardPackets on the batch of a
forwarding package: CommitCircuits -> routeAsync per packet -> the link is stopped in the middle ->
rollback of the circuits that were not handed over -> the re-created link replays the package), judged
for "an incoming HTLC is handed to an outgoing channel at most once, and is not lost":
  (f) exhaustive TLC + the two defect witnesses (rollback of all / of no circuits),
  (g) TLC-generated schedules and a directed one replayed on a real, started Switch (real forwarder,
      circuit map, mailboxes, forwarding package; harness/htlcswitch/c07_switch_test.go),
  (h) TLC trace validation (SwitchForwardTrace) + negative controls.
spec/CircuitMap/SwitchResponse: the switch-level RESPONSE path (off-chain settle/fails from the outgoing
channel's forwarding package incl. replays, on-chain resolution messages - ProcessContractResolution, the
resolution-message store, reforwardResponses / reforwardResolutions at start-up -, closeCircuit's closing
arbitration, the mail orchestrator's live index and unclaimed queue across AddLink / RemoveLink, the incoming
link's mailbox, commit and acks, the ack ticker, cleanClosedChannels' purge with its resolution-message
exception), judged for "at most one settle-or-fail per HTLC is delivered back to the incoming channel, and a
response that was durably accepted is not lost across restarts and link flaps":
  (i) exhaustive TLC + the two defect witnesses (reforwardResolutions looks the circuit up in the wrong
      index / BindLiveShortChanID keeps the unclaimed queue),
  (j) TLC-generated schedules replayed on a real, started Switch (harness/htlcswitch/c07_resp_test.go),
  (k) TLC trace validation (SwitchResponseTrace) + negative controls.
"""
import copy
import glob
import json
import os
import shutil

from .. import core
from ..core import Inconclusive

SPEC = os.path.join(core.VERIF, "spec", "CircuitMap")
LEVEL = "model_checking"
HARNESS = ["htlcswitch/c07_test.go", "htlcswitch/c07_switch_test.go", "htlcswitch/c07_resp_test.go"]
INVS = ("AtMostOnceForward AtMostOneResponse RestartExact OpenedConsistent OpenedSubsetPending "
        "OneRecordPerKey OneCircuitPerOut MemDiskAgree ClosedSubset")


def tla_set(xs):
    return "{" + ", ".join(str(x) for x in xs) + "}"


def is_reset(r):
    return r.get("a") == "Reset"


def execute(ck, test, env, name, overlay=None, timeout=900):
    # mutation controls / candidate repairs: VERIF_C07_OVERLAY=<patched circuit_map.go> replaces the source
    if overlay is None and os.environ.get("VERIF_C07_OVERLAY"):
        overlay = {"htlcswitch/circuit_map.go": os.environ["VERIF_C07_OVERLAY"]}
    res = ck.go_test("./htlcswitch/", "^%s$" % test, HARNESS, env=env, name=name, timeout=timeout,
                     extra_overlay=overlay)
    trace = os.path.join(res["dir"], "trace.ndjson")
    if not os.path.exists(trace) or os.path.getsize(trace) == 0:
        raise Inconclusive("executor produced no trace:\n" + res["out"][-3000:])
    recs = core.read_ndjson(trace)
    # the executor never judges.  A step it could not perform is recorded in `note` and rejected by
    # the trace spec (ConformNote) - after the deviation that caused it.  A dead driver (panic,
    # stuck thread) leaves a truncated trace: inconclusive unless the validator finds a deviation.
    ck.exec_dead = res["out"][-3000:] if res["rc"] != 0 else None
    return res, recs


def write_meta(ck, name, consts, env, key=None):
    p = os.path.join(ck.out, name + "_meta.json")
    json.dump(dict(constants=consts, env=env, key=key), open(p, "w"))
    return p


def env_of(consts):
    """Executor environment (universe) from the TLA+ constants."""
    nums = lambda t: ",".join(x.strip() for x in t.strip("{}").split(",") if x.strip())
    return dict(VERIF_C07_IN=nums(consts["InChans"]), VERIF_C07_OUT=nums(consts["OutChans"]),
                VERIF_C07_IDS=len(nums(consts["Ids"]).split(",")))


def validate(ck, recs, consts, name, what, expect_ok=True, key=None):
    """Validate a Reset-batched record list; on rejection cut out the offending trace."""
    p = os.path.join(ck.out, name + ".ndjson")
    core.write_ndjson(p, recs)
    v = ck.validate(SPEC, "CircuitMapTrace", "CircuitMapTrace.cfg", p, constants=consts, name=name)
    if v["ok"] or not expect_ok:
        return v
    if v["invariant"] == "invariant ConformNote":
        bad = recs[min((v["line"] or 1) - 1, len(recs) - 1)]
        raise Inconclusive("executor could not follow a schedule that conformed so far (harness problem): %s" % str(bad)[:500])
    a, b = core.slice_trace(recs, v["line"] or 1, is_reset)
    one = os.path.join(ck.out, name + "_failing_trace.ndjson")
    core.write_ndjson(one, recs[a:b])
    bad = recs[min((v["line"] or 1) - 1, len(recs) - 1)]
    sched = os.path.join(ck.out, name + "_failing_schedule.ndjson")
    core.write_ndjson(sched, [{k: r[k] for k in ("a", "t", "ins", "outs", "c", "ok")} for r in recs[a + 1:b]])
    ck.violation(key or "circuitmap:%s:%s" % ((v["invariant"] or "").replace("invariant ", ""), bad.get("a")),
                 "%s: the real circuit map deviates from spec/CircuitMap (%s) at line %s of the trace, step %s" % (
                     what, v["invariant"], v["line"], str({k: bad.get(k) for k in ("a", "t", "ins", "outs", "c", "ok", "err", "adds", "drops", "fails")})[:400]),
                 files={"trace.ndjson": one, "schedule.ndjson": sched,
                        "meta.json": write_meta(ck, name, consts, env_of(consts), key)}, text=v["cex"])
    return v


def dead_driver_check(ck, all_ok):
    if all_ok and getattr(ck, "exec_dead", None):
        raise Inconclusive("executor died although everything it recorded conforms:\n" + ck.exec_dead)


def negative_control(ck, recs, consts):
    """Corrupt one recorded answer of a valid trace: the validator must reject it."""
    bad = copy.deepcopy(recs)
    cands = [i for i, r in enumerate(bad) if r.get("a") == "CommitDisk" and r.get("ok") == 1 and r.get("adds")]
    if not cands:
        raise Inconclusive("no successful CommitDisk for the negative control")
    i = cands[len(cands) // 2]
    a, b = core.slice_trace(bad, i + 1, is_reset)
    one = bad[a:b]
    j = i - a
    # the circuit is reported as dropped instead of added
    one[j]["drops"] = one[j]["drops"] + [one[j]["adds"][-1]]
    one[j]["adds"] = one[j]["adds"][:-1]
    v1 = validate(ck, one, consts, "control_ret", "control", expect_ok=False)
    # a keystone vanishes from the keystone bucket
    two = copy.deepcopy(recs[a:b])
    ks = [k for k, r in enumerate(two) if r.get("dkeys")]
    v2 = None
    if ks:
        k = ks[len(ks) // 2]
        two[k]["dkeys"] = two[k]["dkeys"][1:]
        v2 = validate(ck, two, consts, "control_disk", "control", expect_ok=False)
    for v, m in ((v1, "an Adds answer recorded as Drops"), (v2, "a keystone removed from the recorded bucket")):
        if v is None:
            continue
        if v["ok"]:
            raise Inconclusive("negative control accepted (%s): trace validation is not binding" % m)
        ck.cov.setdefault("negative_controls", []).append(
            dict(mutation=m, rejected_by=v["invariant"], at_line=v["line"]))


def distinct_behaviours(recs):
    seen, cur = set(), []
    nontrivial = 0
    for r in recs + [{"a": "Reset"}]:
        if r["a"] == "Reset":
            if cur:
                h = core.sha(str(cur))
                if h not in seen and any(x[0] in ("CommitDisk", "DeleteDisk", "OpenDisk") for x in cur):
                    nontrivial += 1
                seen.add(h)
            cur = []
        else:
            cur.append((r["a"], r.get("t"), str(r.get("ins")), str(r.get("outs")), r.get("c"), r.get("ok")))
    return nontrivial


def universe_consts(inch, outch, nids, threads, batch):
    return {"InChans": tla_set(inch), "OutChans": tla_set(outch), "Ids": tla_set(range(nids)),
            "Threads": tla_set(range(1, threads + 1)), "MaxBatch": batch}


def anomaly(ck, key, what, relaxed, cfg):
    """Locate an API-level anomaly on the relaxed model (exhaustive BFS; TLC dumps the schedule that
    reaches the first state breaking the property), replay it on the real map, validate the
    recorded trace against the relaxed model: with the conformance invariants only it must be
    accepted (the real map follows the model step by step), with the property invariants it must
    be rejected (the real map is in the bad state).  Then the anomaly is real and is reported."""
    tag = key.split(":")[0]
    r = ck.tlc(SPEC, "CircuitMapGen", cfg, name="witness_" + tag, mode="mc", timeout=1500,
               workers=min(8, core.NCPU))
    ck.cov["model_runs"].append(dict(what="witness search " + key, module="CircuitMapGen", cfg=cfg, **r.summary()))
    core.log("  [witness] %s: %d distinct states, %.0fs -> %s" % (tag, r.distinct, r.wall, r.violation or r.error or "none"))
    w = os.path.join(r.dir, "witness.ndjson")
    if r.error:
        raise Inconclusive("witness search failed: %s\n%s" % (r.error, r.out[-2000:]))
    if not r.violation or not os.path.exists(w):
        ck.notes.append("%s: the relaxed model has no counterexample within the bounds" % key)
        return
    sched = ck.scratch("sched_" + tag)
    shutil.copy(w, os.path.join(sched, "b_1.ndjson"))
    res, recs = execute(ck, "TestVerifC07CircuitMap",
                        dict(VERIF_SCHED=sched, VERIF_C07_IN="0,1", VERIF_C07_OUT="2", VERIF_C07_IDS=2),
                        "exec_" + tag)
    p = os.path.join(ck.out, "anomaly_%s.ndjson" % tag)
    core.write_ndjson(p, recs)
    consts = dict(universe_consts([0, 1], [2], 2, 2, 2), Relaxed=relaxed)
    v1 = ck.validate(SPEC, "CircuitMapTrace", "CircuitMapTraceConform.cfg", p, constants=consts,
                     name="val_conform_" + tag)
    if not v1["ok"]:
        # the real map does not do what the relaxed model says: an ordinary deviation
        ck.notes.append("%s: the real map does NOT follow the model's counterexample (%s at line %s)" % (
            key, v1["invariant"], v1["line"]))
        validate(ck, recs, consts, "anomaly_dev_" + tag, what)
        return
    v2 = ck.validate(SPEC, "CircuitMapTrace", "CircuitMapTrace.cfg", p, constants=consts,
                     name="val_prop_" + tag)
    if v2["ok"]:
        raise Inconclusive("%s: the witness schedule does not break the property on the recorded trace" % key)
    steps = " ; ".join("%s%s%s" % (x["a"], "[t%d]" % x["t"] if x["t"] else "", "" if x["ok"] else "(write fails)")
                       for x in core.read_ndjson(w))
    ck.cov["traces_validated_against_impl"] += 1
    ck.cov["evaluations"] += len(recs) - 1
    ck.violation(key, "%s. The real circuit map follows the model's counterexample step by step [%s] and ends "
                      "in the state that breaks %s (trace line %s)" % (what, steps, v2["invariant"], v2["line"]),
                 files={"trace.ndjson": p, "schedule.ndjson": w,
                        "meta.json": write_meta(ck, tag, consts, env_of(consts), key)}, text=v2["cex"])


def histogram(recs):
    h = {}
    for r in recs:
        if r["a"] == "Reset":
            continue
        k = r["a"] + ("" if r.get("ok", 1) else ":fail")
        h[k] = h.get(k, 0) + 1
    return h


def replay(ck):
    """./vcheck C07 --replay <violation dir>: run the stored schedule on the real map again and
    validate what it records with the stored constants."""
    d = ck.replay
    meta = json.load(open(os.path.join(d, "meta.json")))
    if meta.get("part") == SWF_KEY:
        return swf_replay(ck, d, meta)
    if meta.get("part") == SWR_KEY:
        return swr_replay(ck, d, meta)
    ck.model_check(SPEC, "CircuitMapMC", "CircuitMapMC.cfg", "CircuitMap (replay sanity run)",
                   constants=dict(universe_consts([1], [2, 3], 2, 2, 1), Relaxed="{}", MaxOps=3, MaxCrash=1, MaxFail=1),
                   name="mc_replay", timeout=600, workers=4)
    sched = ck.scratch("sched_replay")
    shutil.copy(os.path.join(d, "schedule.ndjson"), os.path.join(sched, "b_1.ndjson"))
    res, recs = execute(ck, "TestVerifC07CircuitMap", dict(meta["env"], VERIF_SCHED=sched), "exec_replay")
    ck.cov["evaluations"] += len(recs) - 1
    ck.cov["traces_validated_against_impl"] += 1
    v = validate(ck, recs, meta["constants"], "val_replay", "replay of %s" % d, key=meta.get("key"))
    ck.cov["samples"].append({"replay": d, "accepted": v["ok"]})
    describe(ck)


def run(ck):
    if getattr(ck, "replay", None):
        return replay(ck)
    thorough = ck.tier == "thorough"
    W = min(8, core.NCPU)
    skip = os.environ.get("C07_DEV_SKIP", "").split(",")   # development only: mc,gen,random,anomaly

    # ---------------------------------------------------------------- (a) model checking
    # universe: incoming channels {hop.Source, 1} x 2 ids, one outgoing channel x 2 ids (resp. two
    # outgoing channels); bounds fitted to measured state counts (see the report in DESIGN/brief)
    small = universe_consts([0, 1], [2], 2, 2, 2)
    two_out = dict(small, InChans="{1}", OutChans="{2, 3}")
    base = dict(Relaxed="{}")
    if not thorough:
        configs = [
            ("sequential, 5 calls", dict(small, Threads="{1}", MaxBatch=1, MaxOps=5, MaxCrash=1, MaxFail=1)),
            ("two threads, 3 calls, batches of 2", dict(small, MaxOps=3, MaxCrash=1, MaxFail=1)),
            ("three threads, 3 calls", dict(small, Threads="{1, 2, 3}", MaxBatch=1, MaxOps=3, MaxCrash=1, MaxFail=1)),
            ("two outgoing channels, 3 calls", dict(two_out, MaxBatch=1, MaxOps=3, MaxCrash=1, MaxFail=1)),
        ]
    else:
        configs = [
            ("sequential, 7 calls", dict(small, Threads="{1}", MaxBatch=1, MaxOps=7, MaxCrash=1, MaxFail=1)),
            ("sequential, 3 calls, batches of 2, two crashes, two write failures",
             dict(small, Threads="{1}", MaxBatch=2, MaxOps=3, MaxCrash=2, MaxFail=2)),
            ("two threads, 4 calls, batches of 2", dict(small, MaxOps=4, MaxCrash=1, MaxFail=1)),
            ("three threads, 4 calls", dict(small, Threads="{1, 2, 3}", MaxBatch=1, MaxOps=4, MaxCrash=1, MaxFail=1)),
            ("two outgoing channels, 4 calls, batches of 2", dict(two_out, MaxBatch=2, MaxOps=4, MaxCrash=1, MaxFail=1)),
            ("three ids, sequential, 5 calls", dict(small, Ids="{0, 1, 2}", Threads="{1}", MaxBatch=1, MaxOps=5,
                                                    MaxCrash=1, MaxFail=1)),
        ]
    if "mc" in skip:
        configs = []
    for i, (what, c) in enumerate(configs):
        ck.model_check(SPEC, "CircuitMapMC", "CircuitMapMC.cfg", "CircuitMap " + what,
                       constants=dict(base, **c), name="mc_%d" % (i + 1), timeout=2400, workers=W)
    ck.cov["exhaustive"] = True
    ck.cov["invariants"] = INVS.split()

    total = 0
    # ---------------------------------------------------------------- (b) generated schedules
    if "gen" not in skip:
        total += generated(ck, thorough, base)
    # ---------------------------------------------------------------- (c) free-running seeded driver
    if "random" not in skip:
        total += seeded(ck, thorough, base)
    ck.cov["traces_validated_against_impl"] += total
    # ---------------------------------------------------------------- (f)-(h) switch-level forwarding path
    if "swfwd" not in skip:
        switch_forward(ck, thorough)
    # ---------------------------------------------------------------- (i)-(k) switch-level response path
    if "swresp" not in skip:
        switch_response(ck, thorough)
    # ---------------------------------------------------------------- (e) anomalies outside the assumptions
    if thorough and "anomaly" not in skip:
        anomalies(ck)
    describe(ck)


def generated(ck, thorough, base):
    inch, outch, nids = [0, 1], [2, 3], 3
    gconsts = dict(universe_consts(inch, outch, nids, 2, 2), **base)
    num, maxlen = (1000, 90) if thorough else (160, 80)
    files = ck.generate(SPEC, "CircuitMapGen", "CircuitMapGen.cfg", num, maxlen + 5,
                        constants=dict(gconsts, MaxLen=maxlen, CloseAfter=maxlen // 2, CrashEvery=maxlen // 5,
                                       Thin="TRUE"), name="gen", timeout=1500)
    sched = os.path.dirname(files[0])
    res, recs = execute(ck, "TestVerifC07CircuitMap",
                        dict(VERIF_SCHED=sched, VERIF_C07_IN="0,1", VERIF_C07_OUT="2,3", VERIF_C07_IDS=nids),
                        "exec_gen")
    ok_all = True
    for bi, batch in enumerate(core.split_batches(recs, is_reset, 6_000_000)):
        v = validate(ck, batch, gconsts, "val_gen_%d" % bi, "generated schedule")
        ok_all = ok_all and v["ok"]
    total = sum(1 for r in recs if is_reset(r))
    ck.cov["evaluations"] += len(recs) - total
    ck.cov["distinct_nontrivial"] += distinct_behaviours(recs)
    ck.cov["steps_generated"] = histogram(recs)
    dead_driver_check(ck, ok_all)
    if ok_all:
        negative_control(ck, recs, gconsts)
    keep = ("a", "t", "ins", "outs", "c", "ok", "err", "adds", "drops", "fails", "np", "no")
    i = next((k for k, r in enumerate(recs) if r["a"] == "CommitRollback"), 1)
    ck.cov["samples"].append({"generated schedule, around a failed batch": [
        {k: r[k] for k in keep} for r in recs[max(1, i - 2):i + 2]]})
    j = next((k for k, r in enumerate(recs) if r["a"] == "StartTrim" and r["done"] == 1 and r["pend"]), None)
    if j:
        ck.cov["samples"].append({"after a restart": {k: recs[j][k] for k in ("a", "c", "pend", "opened", "dadds", "dkeys")}})
    return total


def seeded(ck, thorough, base):
    rin, rout, rids, rthr, rbatch = [0, 1, 4], [2, 3], 3, 3, 3
    runs, steps = (500, 150) if thorough else (100, 100)
    res2, recs2 = execute(ck, "TestVerifC07Random",
                          dict(VERIF_C07_IN="0,1,4", VERIF_C07_OUT="2,3", VERIF_C07_IDS=rids,
                               VERIF_C07_THREADS=rthr, VERIF_C07_BATCH=rbatch,
                               VERIF_C07_RUNS=runs, VERIF_C07_STEPS=steps), "exec_random")
    rconsts = dict(universe_consts(rin, rout, rids, rthr, rbatch), **base)
    ok2 = True
    for bi, batch in enumerate(core.split_batches(recs2, is_reset, 6_000_000)):
        v = validate(ck, batch, rconsts, "val_random_%d" % bi, "seeded random schedule (seed %d)" % ck.seed)
        ok2 = ok2 and v["ok"]
    dead_driver_check(ck, ok2)
    n2 = sum(1 for r in recs2 if is_reset(r))
    ck.cov["evaluations"] += len(recs2) - n2
    ck.cov["distinct_nontrivial"] += distinct_behaviours(recs2)
    ck.cov["steps_seeded"] = histogram(recs2)
    return n2


# ------------------------------------------------------------------------------------------------
# Switch-level forwarding path: spec/CircuitMap/SwitchForward{,MC,Gen,Trace}, executor TestVerifC07SwitchForward
SWF_KEY = "switchfwd"
SWF_INVS = "AtMostOnceOut OneMailbox HeldHasCircuit OpenIffCommitted NotLost"


def swf_consts(n, nout):
    return {"N": n, "OutChans": tla_set(range(1, nout + 1)), "Rollback": '"tail"'}


def swf_execute(ck, sched, n, nout, name):
    res = ck.go_test("./htlcswitch/", "^TestVerifC07SwitchForward$", HARNESS,
                     env={"VERIF_C07_SWFWD": sched, "VERIF_C07_SWFWD_N": n, "VERIF_C07_SWFWD_OUT": nout, "VERIF_PAR": 4},
                     name=name, timeout=900,
                     extra_overlay=({"htlcswitch/circuit_map.go": os.environ["VERIF_C07_OVERLAY"]}
                                    if os.environ.get("VERIF_C07_OVERLAY") else None))
    p = os.path.join(res["dir"], "trace_switch.ndjson")
    if not os.path.exists(p) or os.path.getsize(p) == 0:
        raise Inconclusive("switch-level executor produced no trace:\n" + res["out"][-3000:])
    return res, core.read_ndjson(p)


def swf_validate(ck, recs, consts, name, expect_ok=True, sched_dir=None):
    p = os.path.join(ck.out, name + ".ndjson")
    core.write_ndjson(p, recs)
    v = ck.validate(SPEC, "SwitchForwardTrace", "SwitchForwardTrace.cfg", p, constants=consts, name=name)
    if v["ok"] or not expect_ok:
        return v
    line = v["line"] or 1
    a, b = core.slice_trace(recs, line, is_reset)
    bad = recs[min(line - 1, len(recs) - 1)]
    inv = (v["invariant"] or "").replace("invariant ", "")
    if inv == "ConformNote":
        raise Inconclusive("switch-level executor could not follow a schedule that conformed so far (harness problem): %s"
                           % str(bad)[:500])
    one = os.path.join(ck.out, name + "_failing_trace.ndjson")
    core.write_ndjson(one, recs[a:b])
    files = {"trace.ndjson": one,
             "meta.json": write_meta(ck, name, consts, {}, None)}
    meta = json.load(open(files["meta.json"]))
    meta["part"] = SWF_KEY
    json.dump(meta, open(files["meta.json"], "w"))
    plan = recs[a].get("plan")
    if sched_dir and plan and os.path.exists(os.path.join(sched_dir, plan)):
        files["schedule.ndjson"] = os.path.join(sched_dir, plan)
    show = {k: bad.get(k) for k in ("a", "c", "circ", "mb", "fk", "fd", "ret", "infl", "ack", "tk", "oerr", "lg", "cm")}
    ck.violation("%s:%s:%s" % (SWF_KEY, inv, bad.get("a")),
                 "the real Switch deviates from spec/CircuitMap/SwitchForward (%s) at step %d of schedule %s: %s - "
                 "ForwardPackets must keep the circuit of every packet it handed to the forwarder and roll back only "
                 "the circuits of the packets it did not hand over, so that an incoming HTLC is handed to an outgoing "
                 "channel at most once and is not lost" % (v["invariant"], line - a - 1, plan, json.dumps(show)),
                 files=files, text="\n".join(json.dumps(r) for r in recs[a:b]) + "\n" + (v["cex"] or ""))
    return v


def swf_controls(ck, recs, consts):
    """Negative controls: corrupt one recorded field of the valid trace."""
    def one_trace(i):
        a, b = core.slice_trace(recs, i + 1, is_reset)
        return copy.deepcopy(recs[a:b]), i - a
    ctl = []
    # the circuit of a packet that was handed over is recorded as gone after the aborted call (= what a
    # rollback of the whole batch would show)
    i = next((k for k, r in enumerate(recs) if r["a"] == "Abort" and 1 in r["circ"]), None)
    if i is not None:
        t, j = one_trace(i)
        t[j]["circ"] = [0 for _ in t[j]["circ"]]
        ctl.append(("the circuits of the handed-over packets recorded as deleted after an Abort", t))
    # another add is recorded as delivered by the courier
    i = next((k for k, r in enumerate(recs) if r["a"] == "Take" and r["tk"] >= 0), None)
    if i is not None:
        t, j = one_trace(i)
        t[j]["tk"] = (t[j]["tk"] + 1) % len(t[j]["circ"])
        ctl.append(("another add recorded as delivered by a Take", t))
    # a packet is recorded in the other link's mailbox
    # (not in an Urgent state, where the comparison is deferred to the next line: the schedule's next step is then Route / Abort)
    i = next((k for k, r in enumerate(recs) if r["a"] == "HandOver" and r["mb"][0] and r["infl"] == 0
              and k + 1 < len(recs) and recs[k + 1]["a"] not in ("Route", "Abort")), None)
    if i is not None:
        t, j = one_trace(i)
        t[j]["mb"] = [t[j]["mb"][0][:-1], t[j]["mb"][1] + t[j]["mb"][0][-1:]] + t[j]["mb"][2:]
        ctl.append(("a handed-over packet recorded in the other link's mailbox", t))
    if len(ctl) < 2:
        raise Inconclusive("switch level: no Abort/Take step for the negative controls")
    for k, (m, t) in enumerate(ctl):
        v = swf_validate(ck, t, consts, "control_swfwd_%d" % k, expect_ok=False)
        if v["ok"]:
            raise Inconclusive("negative control accepted (switch level: %s): trace validation is not binding" % m)
        ck.cov.setdefault("negative_controls", []).append(
            dict(mutation="switch level: " + m, rejected_by=v["invariant"], at_line=v["line"]))


def switch_forward(ck, thorough):
    skip = os.environ.get("C07_DEV_SKIP", "").split(",")
    # ---- (f) model checking + witnesses
    if "mc" not in skip:
        # measured: 39 840 / 201 360 / 774 564 / 475 638 distinct states, 3 / 8 / 32 / 18 s on 4 workers
        mcs = [("3 adds, 2 outgoing links, 3 link instances", dict(swf_consts(3, 2), MaxLinks=3, MaxOutRestarts=1)),
               ("4 adds, 2 outgoing links, 3 link instances", dict(swf_consts(4, 2), MaxLinks=3, MaxOutRestarts=1))]
        if thorough:
            mcs += [("3 adds, 3 outgoing links, 4 link instances", dict(swf_consts(3, 3), MaxLinks=4, MaxOutRestarts=2)),
                    ("4 adds, 2 outgoing links, 4 link instances", dict(swf_consts(4, 2), MaxLinks=4, MaxOutRestarts=2))]
        for i, (what, c) in enumerate(mcs):
            ck.model_check(SPEC, "SwitchForwardMC", "SwitchForwardMC.cfg", "SwitchForward " + what, constants=c,
                           name="mc_swfwd_%d" % (i + 1), timeout=1500, workers=4)
        for cfg, want, what in (("SwitchForwardWitOnce.cfg", "AtMostOnceOut",
                                 "witness: a rollback of ALL added circuits puts an HTLC on two outgoing channels"),
                                ("SwitchForwardWitLost.cfg", "NotLost",
                                 "witness: no rollback leaves a committed circuit whose packet is nowhere")):
            r = ck.model_check(SPEC, "SwitchForwardMC", cfg, what, must_hold=False, name="wit_" + want, timeout=300, workers=2)
            if r.violation != "invariant " + want:
                raise Inconclusive("%s: expected a violation of %s, got %s" % (what, want, r.violation))
        ck.cov["invariants"] = ck.cov.get("invariants", []) + SWF_INVS.split()
    # ---- (g) schedules: generated + the directed one (stop after the first packet, replay to the other link)
    unis = [(3, 2, 1200, "a"), (4, 3, 600, "b")] if thorough else [(3, 2, 400, "a")]
    agg = dict(traces=0, steps=0, distinct_schedules=0, distinct_with_link_stopped_mid_batch=0, step_histogram={},
               replays_after_abort=0, universes=[])
    for n, nout, num, tag in unis:
        consts = swf_consts(n, nout)
        files = ck.generate(SPEC, "SwitchForwardGen", "SwitchForwardGen.cfg", num, 45,
                            constants=dict(consts, MaxLen=40), name="gen_swfwd_" + tag, timeout=600)
        sched = os.path.dirname(files[0])
        if n == 3:
            shutil.copy(os.path.join(SPEC, "repro", "swfwd_stop_mid_batch_replay.ndjson"), os.path.join(sched, "b_0.ndjson"))
        res, recs = swf_execute(ck, sched, n, nout, "exec_swfwd_" + tag)
        # ---- (h) validation
        ok = True
        for bi, batch in enumerate(core.split_batches(recs, is_reset, 6_000_000)):
            v = swf_validate(ck, batch, consts, "val_swfwd_%s%d" % (tag, bi), sched_dir=sched)
            ok = ok and v["ok"]
        ntr = sum(1 for r in recs if is_reset(r))
        ck.cov["evaluations"] += len(recs) - ntr
        seqs, mid = set(), 0
        a = 0
        for b in [i for i, r in enumerate(recs) if is_reset(r)][1:] + [len(recs)]:
            t = recs[a:b]
            a = b
            h = core.sha(str([(r["a"], r["c"]) for r in t]))
            if h not in seqs and any(r["a"] == "Abort" for r in t):
                mid += 1
            seqs.add(h)
        ck.cov["distinct_nontrivial"] += mid
        agg["traces"] += ntr
        agg["steps"] += len(recs) - ntr
        agg["distinct_schedules"] += len(seqs)
        agg["distinct_with_link_stopped_mid_batch"] += mid
        agg["replays_after_abort"] += sum(1 for r in recs if r["a"] == "Begin" and r["ret"] == "err")
        agg["universes"].append("%d adds, %d outgoing links: %d schedules" % (n, nout, ntr))
        for k, c in histogram(recs).items():
            agg["step_histogram"][k] = agg["step_histogram"].get(k, 0) + c
        ck.cov["switch_forward"] = agg
        if ok:
            if res["rc"] != 0:
                raise Inconclusive("switch-level executor failed although everything it recorded conforms:\n" + res["out"][-3000:])
            ck.cov["traces_validated_against_impl"] += ntr
            if tag == "a":
                swf_controls(ck, recs[:4000], consts)
                i = next((k for k, r in enumerate(recs) if r["a"] == "Abort"), None)
                if i is not None:
                    keep = ("a", "c", "circ", "mb", "fk", "fd", "ret", "infl", "ack")
                    ck.cov["samples"].append({"switch level, a link stopped in the middle of a batch": [
                        {k: r[k] for k in keep} for r in recs[max(0, i - 3):i + 1]]})


def swf_replay(ck, d, meta):
    sched = ck.scratch("sched_replay")
    src = os.path.join(d, "schedule.ndjson")
    if not os.path.exists(src):
        raise Inconclusive("no schedule stored in %s" % d)
    shutil.copy(src, os.path.join(sched, "b_1.ndjson"))
    consts = meta["constants"]
    n = int(consts["N"])
    nout = len([x for x in consts["OutChans"].strip("{}").split(",") if x.strip()])
    ck.model_check(SPEC, "SwitchForwardMC", "SwitchForwardMC.cfg", "SwitchForward (replay sanity run)",
                   constants=dict(consts, MaxLinks=3, MaxOutRestarts=1), name="mc_replay", timeout=600, workers=4)
    res, recs = swf_execute(ck, sched, n, nout, "exec_replay")
    ck.cov["evaluations"] += len(recs) - 1
    ck.cov["traces_validated_against_impl"] += 1
    v = swf_validate(ck, recs, consts, "val_replay", sched_dir=sched)
    ck.cov["samples"].append({"replay": d, "accepted": v["ok"]})
    describe(ck)


# ------------------------------------------------------------------------------------------------
# Switch-level response path: spec/CircuitMap/SwitchResponse{,MC,Gen,Trace}, executor TestVerifC07SwitchResponse
SWR_KEY = "switchresp"
SWR_INVS = "AtMostOneResponse OneQueued NotLost ClosingQueued LogIsPrefix PurgedExact"
SWR_SHOW = ("a", "k", "cp", "co", "cl", "rs", "pk", "mb", "un", "lv", "up", "lg", "psf", "dn", "tk", "err", "note")


def swr_consts(n, nout, nhalf=1):
    return {"N": n, "OutChans": tla_set(range(1, nout + 1)), "NHalf": nhalf, "ResCheck": '"open"', "Unclaimed": '"clear"'}


def swr_execute(ck, sched, n, nout, name, nhalf=1):
    res = ck.go_test("./htlcswitch/", "^TestVerifC07SwitchResponse$", HARNESS,
                     env={"VERIF_C07_RESP": sched, "VERIF_C07_RESP_N": n, "VERIF_C07_RESP_OUT": nout,
                          "VERIF_C07_RESP_HALF": nhalf, "VERIF_PAR": 4},
                     name=name, timeout=900,
                     extra_overlay=({"htlcswitch/circuit_map.go": os.environ["VERIF_C07_OVERLAY"]}
                                    if os.environ.get("VERIF_C07_OVERLAY") else None))
    p = os.path.join(res["dir"], "trace_resp.ndjson")
    if not os.path.exists(p) or os.path.getsize(p) == 0:
        raise Inconclusive("switch-level response executor produced no trace:\n" + res["out"][-3000:])
    return res, core.read_ndjson(p)


def swr_validate(ck, recs, consts, name, expect_ok=True, sched_dir=None):
    p = os.path.join(ck.out, name + ".ndjson")
    core.write_ndjson(p, recs)
    v = ck.validate(SPEC, "SwitchResponseTrace", "SwitchResponseTrace.cfg", p, constants=consts, name=name)
    if v["ok"] or not expect_ok:
        return v
    line = v["line"] or 1
    a, b = core.slice_trace(recs, line, is_reset)
    bad = recs[min(line - 1, len(recs) - 1)]
    inv = (v["invariant"] or "deadlock").replace("invariant ", "")
    if inv == "ConformNote":
        raise Inconclusive("switch-level response executor could not follow a schedule that conformed so far "
                           "(harness problem): %s" % str(bad)[:500])
    one = os.path.join(ck.out, name + "_failing_trace.ndjson")
    core.write_ndjson(one, recs[a:b])
    files = {"trace.ndjson": one, "meta.json": write_meta(ck, name, consts, {}, None)}
    meta = json.load(open(files["meta.json"]))
    meta["part"] = SWR_KEY
    json.dump(meta, open(files["meta.json"], "w"))
    plan = recs[a].get("plan")
    if sched_dir and plan and os.path.exists(os.path.join(sched_dir, plan)):
        files["schedule.ndjson"] = os.path.join(sched_dir, plan)
    show = {k: bad.get(k) for k in SWR_SHOW}
    ck.violation("%s:%s:%s" % (SWR_KEY, inv, bad.get("a")),
                 "the real Switch deviates from spec/CircuitMap/SwitchResponse (%s) at step %d of schedule %s: %s - "
                 "a settle/fail that the switch accepted (from an outgoing forwarding package or as an on-chain "
                 "resolution message) must stay queued for the incoming link across restarts and link flaps until "
                 "that link commits it, and must reach the incoming channel at most once"
                 % (v["invariant"], line - a - 1, plan, json.dumps(show)),
                 files=files, text="\n".join(json.dumps(r) for r in recs[a:b]) + "\n" + (v["cex"] or ""))
    return v


def swr_controls(ck, recs, consts):
    """Negative controls: corrupt one recorded field of the valid trace."""
    def one_trace(i):
        a, b = core.slice_trace(recs, i + 1, is_reset)
        return copy.deepcopy(recs[a:b]), i - a
    ctl = []
    # a stored resolution message is recorded as gone after a restart (= what a start-up that drops it would show)
    i = next((k for k, r in enumerate(recs) if r["a"] == "Restart" and 1 in r["rs"]), None)
    if i is not None:
        t, j = one_trace(i)
        t[j]["rs"] = [0 for _ in t[j]["rs"]]
        ctl.append(("the resolution store recorded as empty after a Restart that kept a message", t))
    # an unclaimed packet is recorded as still queued after the link was bound
    i = next((k for k, r in enumerate(recs) if r["a"] == "AddLink" and r["mb"] and k > 0 and recs[k - 1]["un"]), None)
    if i is not None:
        t, j = one_trace(i)
        t[j]["un"] = list(t[j - 1]["un"])
        ctl.append(("the unclaimed queue recorded as not cleared by an AddLink", t))
    # a second response is recorded in the incoming mailbox
    i = next((k for k, r in enumerate(recs) if r["a"] in ("OutFwd", "Resolve", "OffChain") and r["mb"]), None)
    if i is not None:
        t, j = one_trace(i)
        t[j]["mb"] = t[j]["mb"] + [t[j]["mb"][0] ^ 1]
        ctl.append(("a second response of one HTLC recorded in the incoming mailbox", t))
    if len(ctl) < 2:
        raise Inconclusive("switch response level: no Restart/AddLink step for the negative controls")
    for k, (m, t) in enumerate(ctl):
        v = swr_validate(ck, t, consts, "control_swresp_%d" % k, expect_ok=False)
        if v["ok"]:
            raise Inconclusive("negative control accepted (switch response level: %s): trace validation is not binding" % m)
        ck.cov.setdefault("negative_controls", []).append(
            dict(mutation="switch response level: " + m, rejected_by=v["invariant"], at_line=v["line"]))


def switch_response(ck, thorough):
    skip = os.environ.get("C07_DEV_SKIP", "").split(",")
    # ---- (i) model checking + witnesses
    if "mc" not in skip:
        # measured (2 workers): 18 998 / 58 961 distinct states, 7 / 10 s; thorough 341 666 states 60 s
        mcs = [("3 HTLCs (one half-open), 2 outgoing channels", swr_consts(3, 2)),
               ("3 HTLCs, 2 outgoing channels", swr_consts(3, 2, 0))]
        if thorough:
            mcs += [("4 HTLCs (one half-open), 2 outgoing channels", swr_consts(4, 2)),
                    ("3 HTLCs, 1 outgoing channel", swr_consts(3, 1, 0))]
        for i, (what, c) in enumerate(mcs):
            ck.model_check(SPEC, "SwitchResponseMC", "SwitchResponseMC.cfg", "SwitchResponse " + what, constants=c,
                           name="mc_swresp_%d" % (i + 1), timeout=1500, workers=4)
        for cfg, want, what in (("SwitchResponseWitLost.cfg", "NotLost",
                                 "witness: reforwardResolutions looking the circuit up by the wrong key drops a stored "
                                 "resolution message whose circuit is open"),
                                ("SwitchResponseWitTwice.cfg", "AtMostOneResponse",
                                 "witness: an unclaimed queue that is not cleared hands a committed response to the "
                                 "incoming link again")):
            r = ck.model_check(SPEC, "SwitchResponseMC", cfg, what, must_hold=False, name="wit_" + want, timeout=300, workers=2)
            if r.violation != "invariant " + want:
                raise Inconclusive("%s: expected a violation of %s, got %s" % (what, want, r.violation))
        ck.cov["invariants"] = ck.cov.get("invariants", []) + [x for x in SWR_INVS.split() if x not in ck.cov.get("invariants", [])]
    # ---- (j) schedules
    unis = [(4, 2, 1000, "a"), (5, 3, 500, "b")] if thorough else [(4, 2, 300, "a")]
    agg = dict(traces=0, steps=0, distinct_schedules=0, distinct_with_restart_or_flap_while_owed=0, step_histogram={},
               universes=[])
    for n, nout, num, tag in unis:
        consts = swr_consts(n, nout)
        files = ck.generate(SPEC, "SwitchResponseGen", "SwitchResponseGen.cfg", num, 45,
                            constants=dict(consts, MaxLen=40), name="gen_swresp_" + tag, timeout=600)
        sched = os.path.dirname(files[0])
        if (n, nout) == (4, 2):
            # directed schedules: the ack tick after a replayed package entry met a deleted circuit; a stored
            # resolution message across two restarts and the purge; unclaimed responses, then link flaps
            for j, f in enumerate(sorted(glob.glob(os.path.join(SPEC, "repro", "swresp_*.ndjson")))):
                shutil.copy(f, os.path.join(sched, "b_%d.ndjson" % (9001 + j)))
        res, recs = swr_execute(ck, sched, n, nout, "exec_swresp_" + tag)
        # ---- (k) validation
        ok = True
        for bi, batch in enumerate(core.split_batches(recs, is_reset, 6_000_000)):
            v = swr_validate(ck, batch, consts, "val_swresp_%s%d" % (tag, bi), sched_dir=sched)
            ok = ok and v["ok"]
        ntr = sum(1 for r in recs if is_reset(r))
        ck.cov["evaluations"] += len(recs) - ntr
        seqs, hard = set(), 0
        a = 0
        for b in [i for i, r in enumerate(recs) if is_reset(r)][1:] + [len(recs)]:
            t = recs[a:b]
            a = b
            h = core.sha(str([(r["a"], r["k"]) for r in t]))
            # non-trivial: a restart or a re-add of the link happens while a response is queued (mailbox / unclaimed)
            if h not in seqs and any(r["a"] in ("Restart", "AddLink") and i > 0 and (t[i - 1]["mb"] or t[i - 1]["un"])
                                     for i, r in enumerate(t)):
                hard += 1
            seqs.add(h)
        ck.cov["distinct_nontrivial"] += hard
        agg["traces"] += ntr
        agg["steps"] += len(recs) - ntr
        agg["distinct_schedules"] += len(seqs)
        agg["distinct_with_restart_or_flap_while_owed"] += hard
        agg["universes"].append("%d HTLCs, %d outgoing channels: %d schedules" % (n, nout, ntr))
        for k, c in histogram(recs).items():
            agg["step_histogram"][k] = agg["step_histogram"].get(k, 0) + c
        ck.cov["switch_response"] = agg
        if ok:
            if res["rc"] != 0:
                raise Inconclusive("switch-level response executor failed although everything it recorded conforms:\n"
                                   + res["out"][-3000:])
            ck.cov["traces_validated_against_impl"] += ntr
            if tag == "a":
                swr_controls(ck, recs[:6000], consts)
                i = next((k for k, r in enumerate(recs) if r["a"] == "Restart" and r["un"] and 1 in r["rs"]), None)
                if i is not None:
                    keep = ("a", "k", "co", "cl", "rs", "pk", "mb", "un", "lv", "dn")
                    ck.cov["samples"].append({"switch response level, a restart re-forwards a stored resolution message": [
                        {k: r[k] for k in keep} for r in recs[max(0, i - 2):i + 2]]})


def swr_replay(ck, d, meta):
    sched = ck.scratch("sched_replay")
    src = os.path.join(d, "schedule.ndjson")
    if not os.path.exists(src):
        raise Inconclusive("no schedule stored in %s" % d)
    shutil.copy(src, os.path.join(sched, "b_1.ndjson"))
    consts = meta["constants"]
    n = int(consts["N"])
    nout = len([x for x in consts["OutChans"].strip("{}").split(",") if x.strip()])
    nhalf = int(consts.get("NHalf", 1))
    ck.model_check(SPEC, "SwitchResponseMC", "SwitchResponseMC.cfg", "SwitchResponse (replay sanity run)",
                   constants=swr_consts(min(n, 3), min(nout, 2), min(nhalf, 1)), name="mc_replay", timeout=600, workers=4)
    res, recs = swr_execute(ck, sched, n, nout, "exec_replay", nhalf)
    ck.cov["evaluations"] += len(recs) - 1
    ck.cov["traces_validated_against_impl"] += 1
    v = swr_validate(ck, recs, consts, "val_replay", sched_dir=sched)
    ck.cov["samples"].append({"replay": d, "accepted": v["ok"]})
    describe(ck)


def anomalies(ck):
    anomaly(ck, "H9:commit-during-inflight-delete",
            "API level (the switch never issues this order): CommitCircuits(k) while DeleteCircuits(k) is "
            "between its memory and its disk phase answers Adds for k a second time",
            '{"A3"}', "CircuitMapWitnessH9.cfg")
    anomaly(ck, "H10:closed-channel-purge-leaves-gap-before-uncommitted-keystone",
            "a channel is fully closed while one of its circuits holds a keystone that never reached a "
            "commitment: cleanClosedChannels purges that keystone, the trim scan of the outgoing channel stops "
            "at the gap, and a younger uncommitted keystone of the same outgoing channel survives the restart "
            "(the circuit stays open instead of being rolled back to half-open)",
            '{"A6"}', "CircuitMapWitnessH10.cfg")
    anomaly(ck, "H11:trim-write-failure-not-rolled-back",
            "the transaction of a run-time TrimOpenCircuits fails: the error is returned but the keystones stay "
            "cleared in memory and stay on disk; after the half-open circuit below is deleted and the node "
            "restarts, the stale keystone above the gap is restored and not trimmed",
            '{"TrimFail"}', "CircuitMapWitnessH11.cfg")


def describe(ck):
    ck.cov["rule"] = ("schedules = sequences of phase-level steps (memory phase / transaction ok|fail / rollback|apply "
                      "of Commit, Open, Trim, Delete; Close; Fail; htlc-index advance; channel closed; resolution "
                      "message; Crash; the three phases of NewCircuitMap) generated by TLC -simulate from CircuitMapGen "
                      "(2 threads) and by the seeded driver (3 threads, larger universe); each replayed on the real "
                      "circuit map over bolt; distinct = distinct step sequences with at least one committed durable write; "
                      "switch level: schedules = sequences of Begin/Route/Abort/HandOver/Take/OutCommit/OutRestart/Stop/Relink/"
                      "SetElig generated by TLC -simulate from SwitchForwardGen (+ one directed schedule) and replayed on a real "
                      "started Switch; distinct there = distinct schedules in which a link is stopped in the middle of a batch; "
                      "switch response level: schedules = sequences of OffChain/OutFwd/Resolve/ResolveFail/AckTick/AckTickFail/"
                      "Replay/AddLink/RemoveLink/Take/InCommit/CloseChan/FullyClose/Restart generated by TLC -simulate from "
                      "SwitchResponseGen (+ three directed schedules) and replayed on a real started Switch over bolt; distinct "
                      "there = distinct schedules in which a restart or a re-add of the incoming link happens while a response "
                      "is queued (mailbox or unclaimed queue)")
    ck.cov["trusted_base"] = ["TLC 1.8.0", "CommunityModules Json",
                              "executor projection (LookupCircuit/LookupOpenCircuit over the universe, closed map, "
                              "NumPending/NumOpen, raw contents of the circuit-adds and circuit-keystones buckets)",
                              "verifkit.DB: kvdb.Batch arrives as one Update (no coalescing)",
                              "park points immediately before/after each transaction = the code's own critical sections",
                              "switch level: mock links of the htlcswitch package play the links (the outgoing ones park the "
                              "forwarder at handleSwitchPacket); the incoming link's batch = un-acked adds of a real forwarding "
                              "package; projection = LookupCircuit/HasKeystone, the mailboxes' add queues, AckFilter from the DB",
                              "switch response level: the harness plays the outgoing links (writes the settle/fail into a real "
                              "forwarding package and calls Switch.ForwardPackets), contractcourt (ProcessContractResolution) and "
                              "the incoming link (the package's mock link: AddLink/RemoveLink, reads its mailbox, commits = package "
                              "acks + DeleteCircuits + mailbox acks); FetchAllChannels/FetchClosedChannels are harness closures fed "
                              "from the schedule; a close request for an unknown channel is the barrier through the forwarder "
                              "goroutine; projection = LookupCircuit/LookupOpenCircuit, the circuit map's closed set, "
                              "fetchAllResolutionMsg, the packages' SettleFailFilter, the mailbox response queue, "
                              "mailOrchestrator.unclaimedPackets/liveIndex, Switch.linkIndex, Switch.pendingSettleFails"]
    ck.assumptions += [
        "A1 callers learn of a circuit only from the Adds answer (no Open/Fail/Delete of a key whose commit is in flight)",
        "A2 the memory phase of DeleteCircuits is the point where a key is forgotten (the at-most-once counters reset there)",
        "A3 SwitchFaithful: a key is not re-committed while its delete is in flight (else H9)",
        "A4 a link is one goroutine and a circuit belongs to one outgoing link: no overlapping Open/Trim on a channel, "
        "no Open/Delete of a circuit that an Open/Trim/Delete in flight touches",
        "A5 a circuit whose outgoing htlc has not reached a commitment is not deleted (it cannot have been answered)",
        "A6 ClosePatient: a channel is not FULLY closed while one of its circuits holds an uncommitted keystone (else H10)",
        "the transaction of a run-time TrimOpenCircuits does not fail (else H11); its failure inside NewCircuitMap is modelled",
        "H4: OpenCircuits batches are well formed (distinct keys, circuits without keystone, next free ids of one channel)",
        "kvdb.Batch coalescing is disabled by the wrapper: each call is its own transaction",
        "switch level (SwitchForward): a link is stopped only while no ForwardPackets call is in flight or while its call is "
        "blocked in routeAsync behind a busy forwarder (Go's select between a free forwarder and a closed quit channel is "
        "random; the model allows both, the schedules take the deterministic ones); one eligible outgoing link at a time; "
        "responses, node restarts (Fails answers) and a failing CommitCircuits transaction are not part of that module",
        "switch response level (SwitchResponse): the incoming link's commit, DeleteCircuits and acks are one step (a crash "
        "between them is stopped by the incoming channel's update log - C08); ClosePatient: a channel is not FULLY closed "
        "while one of its open circuits has an un-acked off-chain response and no stored resolution message; one incoming "
        "channel, which stays open; an off-chain settle/fail may still arrive while the channel is going to chain; the "
        "response kind is fixed per HTLC (even: settle, odd: fail); local payments and mailbox-expired adds (hasSource) "
        "are not part of that module; write failures are modelled for addResolutionMsg and the ack ticker only",
        "at-most-one-response is per process lifetime (the closed set is volatile by design; across a restart the "
        "duplicate is stopped by the incoming channel's update log - C08)",
    ]
