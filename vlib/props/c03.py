"""C03: Reconnection always resynchronises.

Part 1 (channel level): decided with spec/Channel (see channel_common.py, DESIGN.md 4.1 and 5): ChanSyncMsg /
ProcessChanSyncMsg on reloaded LightningChannels.

Part 2 (link level, this file): spec/Channel/LinkResync*.tla - what drives the exchange in the running node: two real
htlcswitch.channelLinks over one channel, one connection epoch after another (resumeLink / syncChanStates /
resolveFwdPkgs / mailbox replay / hold invoices / update_fee / the peer layer's shutdown glue).  MC (LinkResyncMC, three
bounded configurations + the defect-switch witness BlockInOnResume) -> behaviours (LinkResyncGen) ->
harness/htlcswitch/c03_link_test.go -> TLC trace validation (LinkResyncTrace) -> negative controls.  Violation keys of
this part start with "C03link:"; VERIF_C03_PARTS=link|channel runs one part alone (development only).
"""
import copy
import os

from . import channel_common
from .. import core
from ..core import Inconclusive

LEVEL = "model_checking"
SPEC = channel_common.SPEC
LINK_HARNESS = ["htlcswitch/c03_link_test.go"]


def is_reset(r):
    return r.get("a") == "Reset"


def link_traces(recs):
    out, cur = [], []
    for r in recs:
        if is_reset(r) and cur:
            out.append(cur)
            cur = []
        cur.append(r)
    if cur:
        out.append(cur)
    return out


def link_short(r):
    a = r.get("a")
    if a == "Deliver":
        m = r.get("msg", {})
        return "Deliver(%s,%s%s)" % (r.get("p"), m.get("k"), ":%d" % m.get("h") if m.get("k") in ("add", "settle", "fail") else "")
    if a == "Add":
        return "Add(%s,%d)" % (r.get("p"), r.get("x", 0))
    if a in ("Tick", "Shutdown"):
        return "%s(%s)" % (a, r.get("p"))
    return a


def link_mc(ck, cfg, what, name, heap, must_hold=True, **kw):
    """ck.model_check + a guard: a TLC process that ended without a verdict (e.g. killed by the kernel's OOM killer on a
    shared machine) must not count as a passed model check."""
    r = ck.model_check(SPEC, "LinkResyncMC", cfg, what, must_hold=must_hold, workers=min(core.NCPU, 4), heap=heap,
                       name=name, **kw)
    if not r.ok and not r.violation:
        raise Inconclusive("TLC ended without a verdict on LinkResyncMC/%s (%s), rc=%s:\n%s" % (cfg, what, r.rc, r.out[-1500:]))
    return r


def link_model_check(ck, thorough):
    """The property on the model, and the witness that the rule is not vacuous: with the named defect switch the
    invariant it guards must fail."""
    link_mc(ck, "LinkResyncMC.cfg", "LinkResync MaxAdds=2 MaxFlaps=2 MaxShut=1 MaxFees=0", "mc_link", "3g", timeout=600)
    link_mc(ck, "LinkResyncMC_fee.cfg", "LinkResync MaxAdds=1 MaxFlaps=2 MaxShut=1 MaxFees=1", "mc_link_fee", "2g",
            timeout=600)
    link_mc(ck, "LinkResyncMC_hold.cfg", "LinkResync hold invoices MaxAdds=1 MaxFlaps=2 MaxShut=1", "mc_link_hold", "2g",
            timeout=600)
    if thorough:
        link_mc(ck, "LinkResyncMC.cfg", "LinkResync MaxAdds=2 MaxFlaps=2 MaxShut=1 MaxFees=1 (3 rates)", "mc_link_fee_wide",
                "4g", constants={"MaxFees": 1}, timeout=1800)
        link_mc(ck, "LinkResyncMC_hold.cfg", "LinkResync hold invoices MaxAdds=2 MaxFlaps=2 MaxShut=1", "mc_link_hold_wide",
                "4g", constants={"MaxAdds": 2}, timeout=1800)
    r = link_mc(ck, "LinkResyncMC.cfg", "witness BlockInOnResume (NoFailure must fail)", "mc_link_wit_blockin", "2g",
                must_hold=False, constants={"BlockInOnResume": "TRUE"}, timeout=600)
    if r.violation != "invariant NoFailure":
        raise Inconclusive("LinkResync witness: BlockInOnResume = TRUE does not violate NoFailure (%s): the rule is vacuous"
                           % r.violation)
    ck.cov.setdefault("witnesses", []).append(dict(switch="BlockInOnResume", violates="NoFailure", states=r.distinct))


def link_negative_controls(ck, traces):
    """Corrupt one recorded field of an accepted trace; the validator must reject each."""
    def pick(pred):
        for tr in traces:
            for i, r in enumerate(tr):
                if i > 0 and pred(r):
                    return tr, i
        return None, None

    ctrls = [
        ("a link failure recorded on a valid step", "NoLinkFailure",
         lambda r: r.get("a") == "Deliver" and r.get("msg", {}).get("k") == "add",
         lambda r: r["fail"].__setitem__(r["p"], "invalid update")),
        ("one emitted message dropped from the record", "ConformOut",
         lambda r: r.get("a") == "Deliver" and len(r.get("out", {}).get(r.get("p"), [])) >= 2,
         lambda r: r["out"][r["p"]].pop()),
        ("local commitment height +1", "ConformHeights",
         lambda r: r.get("a") == "Deliver" and r.get("msg", {}).get("k") == "sig",
         lambda r: r["st"][r["p"]].__setitem__("lh", r["st"][r["p"]]["lh"] + 1)),
        ("fee rate of the local commitment +1 sat/kw", "ConformFee",
         lambda r: r.get("a") == "Deliver" and r.get("msg", {}).get("k") == "sig" and r.get("p") == "B"
         and r["st"]["B"]["lfee"] != 6000,
         lambda r: r["st"]["B"].__setitem__("lfee", r["st"]["B"]["lfee"] + 1)),
        ("the answer to a hold-invoice decision removed from the record", "ConformOut",
         lambda r: r.get("a") == "Decide" and len(r["out"]["A"]) + len(r["out"]["B"]) > 0,
         lambda r: r.__setitem__("out", {"A": [], "B": []})),
    ]
    for k, (what, expect, pred, mut) in enumerate(ctrls):
        tr, i = pick(pred)
        if tr is None:
            ck.notes.append("link negative control skipped (no candidate): " + what)
            continue
        bad = copy.deepcopy(tr)
        mut(bad[i])
        p = os.path.join(ck.out, "link_control_%d.ndjson" % k)
        core.write_ndjson(p, bad)
        v = ck.validate(SPEC, "LinkResyncTrace", "LinkResyncTrace.cfg", p, name="link_control_%d" % k)
        if v["ok"]:
            raise Inconclusive("link negative control (%s at line %d) was accepted: validation is not binding" % (what, i + 1))
        ck.cov.setdefault("negative_controls", []).append(
            dict(part="link", mutation=what, line=i + 1, rejected_by=v["invariant"], at_line=v["line"]))


def link_part(ck):
    thorough = ck.tier == "thorough"
    link_model_check(ck, thorough)
    n = 240 if thorough else 36
    gconst = dict(MaxAdds=5, MaxFees=3, MaxLen=60) if thorough else dict(MaxAdds=4, MaxFees=2, MaxLen=45)
    files = ck.generate(SPEC, "LinkResyncGen", "LinkResyncGen.cfg", n, gconst["MaxLen"] + 10, constants=gconst,
                        name="gen_link", timeout=900)
    sched = os.path.dirname(files[0])
    # every behaviour ends with a Drain step: deliver / tick until nothing is left to do
    for f in files:
        with open(f, "a") as fo:
            fo.write('{"a":"Drain","p":"A","x":0,"y":0}\n')
    res = ck.go_test("./htlcswitch/", "^TestVerifC03Link$", LINK_HARNESS,
                     env={"VERIF_SCHED": sched, "VERIF_PAR": 4}, timeout=1500, name="exec_link")
    trace = os.path.join(res["dir"], "trace_link.ndjson")
    if "panic:" in res["out"] and "--- FAIL" in res["out"]:
        ck.violation("C03link:panic", "real htlcswitch code panicked while replaying a LinkResync behaviour",
                     files={"go.out": os.path.join(res["dir"], "go.out")}, text=res["out"][-4000:])
        return
    if res["rc"] != 0 or not os.path.exists(trace) or os.path.getsize(trace) == 0:
        raise Inconclusive("link executor failed:\n" + res["out"][-3000:])
    recs = core.read_ndjson(trace)
    aborted = [r for r in recs if r.get("a") == "Abort"]
    if aborted:
        raise Inconclusive("link executor could not run %d behaviours (harness problem, no verdict): %s" % (
            len(aborted), aborted[0].get("why")))
    traces = link_traces(recs)
    todo = list(recs)
    accepted_all = True
    seen = {}
    while todo:
        bp = os.path.join(ck.out, "link_batch.ndjson")
        core.write_ndjson(bp, todo)
        v = ck.validate(SPEC, "LinkResyncTrace", "LinkResyncTrace.cfg", bp, name="val_link", timeout=1200)
        if v["ok"]:
            break
        accepted_all = False
        line = v["line"] or 1
        a, e = core.slice_trace(todo, line, is_reset)
        one = os.path.join(ck.out, "failing_link_trace.ndjson")
        core.write_ndjson(one, todo[a:e])
        bad = todo[min(line - 1, len(todo) - 1)]
        inv = (v["invariant"] or "?").replace("invariant ", "")
        what = link_short(bad)
        fails = " / ".join("%s: %s" % (p, s) for p, s in sorted((bad.get("fail") or {}).items()) if s)
        hist = " ".join(link_short(r) for r in todo[a + 1:line])
        key = "C03link:%s:%s" % (inv, what.split("(")[0] + (
            "(" + bad.get("msg", {}).get("k", "") + ")" if bad.get("a") == "Deliver" else ""))
        seen[key] = seen.get(key, 0) + 1
        ck.violation(key,
                     "two real channelLinks deviate from spec/Channel/LinkResync: %s at %s (plan %s)%s" % (
                         inv, what, todo[a].get("plan"), "; link failure: " + fails if fails else ""),
                     files={"trace.ndjson": one, "schedule.ndjson": os.path.join(sched, str(todo[a].get("plan")))},
                     text="history: " + hist[-3000:] + "\n\nmodel state:\n" + (v["cex"] or ""))
        todo = todo[e:]
        # (the same deviation shows in many behaviours: two examples of a key are enough)
        if seen[key] >= 2 or len(seen) > 4:
            break
    # evidence
    hashes = set()
    per_action = {}
    flaps_after_shut = 0
    held_over_flap = 0
    for tr in traces:
        acts = [(r["a"], r.get("p"), r.get("x"), (r.get("msg") or {}).get("k")) for r in tr[1:]]
        if any(a[0] == "Flap" for a in acts):
            hashes.add(core.sha(str(acts)))
        shut = False
        for r in tr[1:]:
            per_action[r["a"]] = per_action.get(r["a"], 0) + 1
            if r["a"] == "Shutdown" and r.get("res") == "ok":
                shut = True
            if r["a"] == "Flap" and shut:
                flaps_after_shut += 1
            if r["a"] == "Flap" and any(len(r["st"][p]["lhtlc"]) > 0 for p in ("A", "B")):
                held_over_flap += 1
    ck.cov["evaluations"] += sum(1 for r in recs if not is_reset(r))
    ck.cov["distinct_nontrivial"] += len(hashes)
    ck.cov["traces_validated_against_impl"] += len(traces)
    ck.cov["link_part"] = dict(behaviours=len(traces), steps_per_action=per_action,
                               reconnects_after_a_sent_shutdown=flaps_after_shut,
                               reconnects_with_htlcs_on_a_commitment=held_over_flap,
                               distinct_with_reconnect=len(hashes))
    ck.cov["rule"] = (ck.cov.get("rule") or "") + (
        " | link part: TLC -simulate behaviours of LinkResyncGen replayed on two real channelLinks (+Drain); distinct = "
        "distinct (action, side, delivered message kind) sequences; non-trivial = contains at least one reconnect")
    ck.cov["samples"].append(dict(link_trace_prefix=[link_short(r) for r in traces[0][1:30]]))
    ck.cov["trusted_base"] = list(ck.cov.get("trusted_base") or []) + [
        "link executor: capture of SendMessage, idle detection by sentinel message, field-copy projection",
        "transcription of htlcswitch/link.go + peer shutdown glue into spec/Channel/LinkResync"]
    ck.assumptions += ["link part: the connection drops between two handled messages (a link is never killed inside "
                       "one critical section; crash points inside are C02/C08)",
                       "link part: exit-hop HTLCs only, incl. hold invoices (forwarding is C07/C08), one channel type "
                       "(tweakless fixture), fee rates 6000/9000/12000 sat/kw sampled by the initiator, "
                       "the peer-layer shutdown glue is re-enacted by the executor as peer/brontide.go does it"]
    if accepted_all and not ck.violations:
        link_negative_controls(ck, traces)


def replay_link(ck, path):
    """--replay <violation dir of the link part>: re-execute the stored schedule on the current tree, judge it again."""
    import shutil
    sd = os.path.join(ck.out, "replay_sched")
    os.makedirs(sd, exist_ok=True)
    shutil.copy(os.path.join(path, "schedule.ndjson"), os.path.join(sd, "b_1.ndjson"))
    res = ck.go_test("./htlcswitch/", "^TestVerifC03Link$", LINK_HARNESS, env={"VERIF_SCHED": sd, "VERIF_PAR": 1},
                     timeout=1500, name="exec_link_replay")
    trace = os.path.join(res["dir"], "trace_link.ndjson")
    if res["rc"] != 0 or not os.path.exists(trace):
        raise Inconclusive("link executor failed:\n" + res["out"][-3000:])
    recs = core.read_ndjson(trace)
    if any(r.get("a") == "Abort" for r in recs):
        raise Inconclusive("link executor could not run the schedule: %s" % [r for r in recs if r.get("a") == "Abort"][0].get("why"))
    v = ck.validate(SPEC, "LinkResyncTrace", "LinkResyncTrace.cfg", trace, name="val_link_replay")
    ck.cov["evaluations"] += len(recs)
    ck.cov["traces_validated_against_impl"] += 1
    ck.cov["states"] = max(ck.cov["states"], 1)
    ck.cov["transitions"] = max(ck.cov["transitions"], 1)
    ck.cov["samples"].append(dict(replayed=path, steps=len(recs)))
    if not v["ok"]:
        bad = recs[min((v["line"] or 1) - 1, len(recs) - 1)]
        inv = (v["invariant"] or "?").replace("invariant ", "")
        what = link_short(bad)
        ck.violation("C03link:%s:%s" % (inv, what.split("(")[0] + (
            "(" + bad.get("msg", {}).get("k", "") + ")" if bad.get("a") == "Deliver" else "")),
                     "replayed link schedule still deviates: %s at %s" % (inv, what),
                     files={"trace.ndjson": trace, "schedule.ndjson": os.path.join(sd, "b_1.ndjson")}, text=v["cex"])


def run(ck):
    parts = os.environ.get("VERIF_C03_PARTS", "channel,link").split(",")
    rp = getattr(ck, "replay", None)
    if rp:
        if os.path.isdir(rp) and os.path.exists(os.path.join(rp, "schedule.ndjson")):
            return replay_link(ck, rp)
        return channel_common.run_channel(ck, "C03")
    if "channel" in parts:
        channel_common.run_channel(ck, "C03")
        if ck.tier == "thorough" or os.environ.get("VERIF_API_LEVEL"):
            channel_common.api_level_f1(ck)
    if "link" in parts:
        link_part(ck)
