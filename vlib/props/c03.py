"""C03: decided with spec/Channel (see channel_common.py, DESIGN.md 4.1 and 5)."""
from . import channel_common

LEVEL = "model_checking"


def run(ck):
    channel_common.run_channel(ck, "C03")
    if ck.tier == "thorough" or __import__("os").environ.get("VERIF_API_LEVEL"):
        channel_common.api_level_f1(ck)
