"""Shared pipeline for the properties decided with spec/Channel (C01, C02, C03, C06 part B):
MC (ChannelMC) -> behaviours (ChannelGen) -> real lnwallet channels (harness/lnwallet/channel_exec_test.go)
-> TLC trace validation (ChannelTrace_<ID>.cfg)."""
import copy
import os
from .. import core
from ..core import Inconclusive

SPEC = os.path.join(core.VERIF, "spec", "Channel")
ALL_TYPES = "legacy,tweakless,anchors,zerofee,lease,taproot,taprootfinal"

# per property: MC configs per tier, generator constants, executor env, number of behaviours
PROFILE = {
    "C01": dict(mc=dict(quick=["mc_c01_quick", "ChannelGhost:mc_ghost"],
                        thorough=["mc_c01_quick", "ChannelGhost:mc_ghost", "mc_c01_thorough"]),
                gen=dict(MaxDisc=1, MaxAdds=5, MaxFees=3, MaxLen=110),
                n=dict(quick=60, thorough=600), poor=dict(quick=10, thorough=100), shadow=1000000,
                mc_timeout=dict(quick=600, thorough=3000)),
    "C02": dict(mc=dict(quick=["mc_c02_quick"], thorough=["mc_c02_quick", "mc_c02_thorough"]),
                gen=dict(MaxDisc=2, MaxAdds=4, MaxFees=3, MaxLen=100),
                n=dict(quick=55, thorough=450), poor=dict(quick=5, thorough=50), shadow=1,
                mc_timeout=dict(quick=600, thorough=3000)),
    "C03": dict(mc=dict(quick=["mc_c03_quick"], thorough=["mc_c03_quick", "mc_c03_thorough"]),
                gen=dict(MaxDisc=6, MaxAdds=4, MaxFees=3, MaxLen=120),
                n=dict(quick=90, thorough=600), shadow=1,
                # legacy (non-tweakless) channels are the only ones that verify the data-loss-protect commit point
                # in channel_reestablish: give them a larger share of the resync traces
                types="legacy,tweakless,anchors,legacy,zerofee,lease,legacy,taproot,taprootfinal,legacy",
                mc_timeout=dict(quick=600, thorough=3000)),
    # API level (Fused = FALSE): sign-before-revoke peers and channel_reestablish on live objects (SoftDisconnect)
    "C06api": dict(mc=dict(quick=[], thorough=[]),
                   gen=dict(MaxDisc=3, MaxAdds=2, MaxFees=1, MaxLen=60), gen_cfg="ChannelGen_api.cfg",
                   n=dict(quick=40, thorough=300), shadow=1, types="tweakless,anchors,legacy,taproot",
                   directed="directed_api",
                   mc_timeout=dict(quick=600, thorough=3000)),
    "C06": dict(mc=dict(quick=[], thorough=[]),
                gen=dict(MaxDisc=2, MaxAdds=3, MaxFees=1, MaxLen=80),
                n=dict(quick=30, thorough=250), shadow=1,
                mc_timeout=dict(quick=600, thorough=3000)),
}


def is_reset(r):
    return r.get("a") == "Reset"


def nontrivial_hash(trace):
    acts = [(r["a"], r["p"], r["x"], r["y"]) for r in trace if r["a"] != "Reset"]
    cfg = [(r.get("type"), r.get("opener")) for r in trace if r["a"] == "Reset"]
    nontriv = any(a[0] in ("Sign", "Revoke") for a in acts)
    return core.sha(str((cfg, acts))), nontriv


def negative_control(ck, recs, cfg, prop):
    """Corrupt one recorded field of an accepted trace; the validator must reject it."""
    bad = copy.deepcopy(recs[:400])
    # cut at a trace boundary
    while bad and not is_reset(bad[-1]):
        bad.pop()
    bad = bad[:-1] if bad else bad
    cands = [i for i, r in enumerate(bad) if r["a"] in ("RecvSig", "Revoke") and r["err"] == ""]
    if not cands:
        ck.notes.append("negative control skipped: no RecvSig/Revoke in the first traces")
        return
    i = cands[len(cands) // 2]
    p = bad[i]["p"]
    if prop in ("C02", "C03") and bad[i]["sherr"] == "":
        bad[i]["sh"][p]["LC"][0]["ob"] += 1
        what = "reloaded local balance +1 msat"
    elif prop == "C06":
        j = [k for k in cands if bad[k]["a"] == "Revoke"]
        if not j:
            ck.notes.append("negative control skipped: no Revoke")
            return
        i = j[0]
        bad[i]["relh"] += 1
        what = "released height +1"
    else:
        bad[i]["st"][p]["LC"][-1]["tb"] += 1
        bad[i]["st"][p]["LC"][-1]["tbm"] += 1
        what = "live remote balance +1 msat"
    path = os.path.join(ck.out, "control.ndjson")
    core.write_ndjson(path, bad)
    v = ck.validate(SPEC, "ChannelTrace", cfg, path, name="control")
    if v["ok"]:
        raise Inconclusive("negative control (%s at line %d) was accepted: validation is not binding" % (what, i + 1))
    ck.cov.setdefault("negative_controls", []).append(
        dict(mutation=what, line=i + 1, rejected_by=v["invariant"], at_line=v["line"]))


def replay_channel(ck, prop, path):
    """--replay <violation dir | trace.ndjson>: re-execute the recorded schedule on the current tree and judge it again."""
    tr = os.path.join(path, "trace.ndjson") if os.path.isdir(path) else path
    recs = core.read_ndjson(tr)
    hdr = [r for r in recs if is_reset(r)][0]
    evs = [dict(a="Cfg", p=hdr.get("opener", "A"), x=0, y=0)]
    for r in recs:
        if not is_reset(r):
            evs.append(dict(a="Add" if r["a"] == "AddRejected" else r["a"], p=r["p"], x=r["x"], y=r["y"]))
    sd = os.path.join(ck.out, "replay_sched")
    os.makedirs(sd, exist_ok=True)
    core.write_ndjson(os.path.join(sd, "b_1.ndjson"), evs)
    res = ck.go_test("./lnwallet/", "^TestVerifChannelExec$", ["lnwallet/channel_exec_test.go"],
                     env={"VERIF_SCHED": sd, "VERIF_TYPES": hdr.get("type", "tweakless"), "VERIF_SEED": 0,
                          "VERIF_SHADOW_EVERY": PROFILE[prop]["shadow"]}, name="exec_replay")
    trace = os.path.join(res["dir"], "trace.ndjson")
    new = core.read_ndjson(trace)
    v = ck.validate(SPEC, "ChannelTrace", "ChannelTrace_%s.cfg" % prop, trace, name="val_replay")
    ck.cov["evaluations"] += len(new)
    ck.cov["traces_validated_against_impl"] += 1
    ck.cov["states"] = max(ck.cov["states"], 1)
    ck.cov["transitions"] = max(ck.cov["transitions"], 1)
    ck.cov["samples"].append(dict(replayed=tr, events=len(evs)))
    if not v["ok"]:
        bad = new[min((v["line"] or 1) - 1, len(new) - 1)]
        inv = (v["invariant"] or "?").replace("invariant ", "")
        ck.violation("%s:%s:%s" % (prop, inv, bad.get("a")), "replayed schedule still deviates: %s at %s(%s)" % (
            inv, bad.get("a"), bad.get("p")), files={"trace.ndjson": trace}, text=v["cex"])


def fixture_overlay(ck):
    """A copy of lnwallet/test_utils.go in which script-enforced lease fixtures get a real lease expiry
    (ThawHeight = 600, written by the fixture's own SyncPending). The stock fixture leaves it 0, which makes
    `<0> CLTV` trivially true and hides every defect around the lease expiry. /repo is not touched."""
    import re
    src = open(os.path.join(core.REPO, "lnwallet", "test_utils.go")).read()
    pat = "\t\tChanType:                chanType,\n"
    if src.count(pat) != 2 or "verifLeaseExpiry" in src:
        raise Inconclusive("lnwallet/test_utils.go no longer has the shape the lease-expiry overlay expects")
    src = src.replace(pat, pat + "\t\tThawHeight:              verifLeaseExpiry(chanType),\n")
    src += ("\n// verifLeaseExpiry gives lease fixtures a real lease expiry (injected by /verif through an overlay).\n"
            "func verifLeaseExpiry(t channeldb.ChannelType) uint32 {\n\tif t.HasLeaseExpiration() {\n\t\treturn 600\n\t}\n\n\treturn 0\n}\n")
    # ... and the funding split can be made uneven: verifPoorShare > 0 gives the non-initiator (bob) that many
    # satoshi and the initiator the rest (a fresh inbound channel: below reserve, possibly below a dust limit)
    pats = [("\tchannelBal := channelCapacity / 2\n",
             "\tchannelBal := channelCapacity / 2\n\taliceBal, bobBal := channelBal, channelBal\n"
             "\tif verifPoorShare > 0 {\n\t\taliceBal, bobBal = channelCapacity-verifPoorShare, verifPoorShare\n\t}\n"),
            ("\t\tchannelBal, channelBal, &aliceCfg, &bobCfg, aliceCommitPoint,\n",
             "\t\taliceBal, bobBal, &aliceCfg, &bobCfg, aliceCommitPoint,\n"),
            ("\t\tchannelBal - commitFee - anchorAmt,\n", "\t\taliceBal - commitFee - anchorAmt,\n"),
            ("\tbobBalance := lnwire.NewMSatFromSatoshis(channelBal)\n",
             "\tbobBalance := lnwire.NewMSatFromSatoshis(bobBal)\n")]
    for a, b in pats:
        if src.count(a) != 1:
            raise Inconclusive("lnwallet/test_utils.go no longer has the shape the funding-split overlay expects: %r" % a)
        src = src.replace(a, b)
    if "channelBal" in src.replace("channelBal := channelCapacity / 2", "").replace("channelBal, channelBal\n", ""):
        raise Inconclusive("lnwallet/test_utils.go uses channelBal in a place the funding-split overlay does not know")
    src += ("\n// verifPoorShare: see /verif vlib/props/channel_common.py fixture_overlay.\n"
            "var verifPoorShare btcutil.Amount\n\n"
            "// VerifSetPoorShare sets the non-initiator's funding share (0 = even split).\n"
            "func VerifSetPoorShare(sat int64) { verifPoorShare = btcutil.Amount(sat) }\n")
    dst = os.path.join(ck.out, "test_utils_lease.go")
    open(dst, "w").write(src)
    return {"lnwallet/test_utils.go": dst}


POOR_SHARES = [150000, 700000, 1299000, 1300000, 5000000]   # msat: around both parties' dust limits (200 / 1300 sat)


def poor_batch(ck, files, gen_consts, n, cfg="ChannelGen.cfg"):
    """Extra behaviours with an uneven funding split (PoorShare): the non-opener starts with a balance around the
    dust limits; copied next to the main batch (the Cfg record carries the share)."""
    import shutil
    d = os.path.dirname(files[0])
    k = 0
    per = max(1, n // len(POOR_SHARES))
    for i, share in enumerate(POOR_SHARES):
        c = dict(gen_consts)
        c["PoorShare"] = share
        c["MaxLen"] = gen_consts["MaxLen"] - 7 * i      # different lengths: different behaviours for the same seed
        fs = ck.generate(SPEC, "ChannelGen", cfg, per, c["MaxLen"] + 10, constants=c, timeout=900, name="gen_poor%d" % i)
        for f in fs:
            shutil.copy(f, os.path.join(d, "b_%d.ndjson" % (800000 + k)))
            k += 1
    return k


def run_channel(ck, prop, extra_overlay=None):
    prof = PROFILE[prop]
    tier = ck.tier
    if getattr(ck, "replay", None):
        return replay_channel(ck, prop, ck.replay)
    # (a) the property on the model
    for ent in prof["mc"][tier]:
        module, cfg = ent.split(":") if ":" in ent else ("ChannelMC", ent)
        ck.model_check(SPEC, module, cfg + ".cfg", cfg, timeout=prof["mc_timeout"][tier],
                       workers=min(core.NCPU, 12))
    # (b) behaviours
    n = prof["n"][tier]
    g = prof["gen"]
    files = ck.generate(SPEC, "ChannelGen", prof.get("gen_cfg", "ChannelGen.cfg"), n, g["MaxLen"] + 10,
                        constants={k: v for k, v in g.items()}, timeout=1500)
    if prof.get("poor"):
        ck.cov["uneven_split_behaviours"] = poor_batch(ck, files, g, prof["poor"][tier], prof.get("gen_cfg", "ChannelGen.cfg"))
    if prof.get("directed"):
        import glob, shutil
        for i, f in enumerate(sorted(glob.glob(os.path.join(SPEC, prof["directed"], "*.ndjson")))):
            shutil.copy(f, os.path.join(os.path.dirname(files[0]), "b_%d.ndjson" % (900000 + i)))
    # (c) the real channels
    res = ck.go_test("./lnwallet/", "^TestVerifChannelExec$", ["lnwallet/channel_exec_test.go"],
                     env={"VERIF_SCHED": os.path.dirname(files[0]), "VERIF_TYPES": prof.get("types", ALL_TYPES),
                          "VERIF_SHADOW_EVERY": prof["shadow"]},
                     timeout=3000, extra_overlay=dict(fixture_overlay(ck), **(extra_overlay or {})))
    trace = os.path.join(res["dir"], "trace.ndjson")
    if not os.path.exists(trace) or os.path.getsize(trace) == 0:
        raise Inconclusive("executor produced no trace:\n" + res["out"][-3000:])
    if res["rc"] != 0 and "--- FAIL" in res["out"] and "panic:" in res["out"]:
        # a panic inside the code under test while replaying a valid behaviour
        ck.violation("%s:panic" % prop, "real lnwallet code panicked while replaying a spec behaviour",
                     files={"go.out": os.path.join(res["dir"], "go.out")}, text=res["out"][-4000:])
        return
    recs = core.read_ndjson(trace)
    # (d) judge
    cfg = "ChannelTrace_%s.cfg" % prop
    batches = core.split_batches(recs, is_reset, max_bytes=25_000_000)
    ntraces = sum(1 for r in recs if is_reset(r))
    accepted_all = True
    for bi, b in enumerate(batches):
        bp = os.path.join(ck.out, "batch_%d.ndjson" % bi)
        core.write_ndjson(bp, b)
        todo = b
        offset = 0
        while todo:
            v = ck.validate(SPEC, "ChannelTrace", cfg, bp, name="val_%d" % bi, timeout=2400)
            if v["ok"]:
                break
            accepted_all = False
            line = v["line"] or 1
            a, e = core.slice_trace(todo, line, is_reset)
            one = os.path.join(ck.out, "failing_trace.ndjson")
            core.write_ndjson(one, todo[a:e])
            badrec = todo[min(line - 1, len(todo) - 1)]
            hdr = todo[a]
            inv = (v["invariant"] or "?").replace("invariant ", "")
            key = "%s:%s:%s" % (prop, inv, badrec.get("a"))
            hist = " ".join("%s(%s%s)" % (r["a"], r["p"], ",%d" % r["x"] if r["x"] else "") for r in todo[a + 1:line])
            ck.violation(key, "real lnwallet/channeldb behaviour deviates from spec/Channel: %s at %s(%s), "
                         "channel type %s, opener %s, err=%r sherr=%r" % (
                             inv, badrec.get("a"), badrec.get("p"), hdr.get("type"), hdr.get("opener"),
                             badrec.get("err"), badrec.get("sherr")),
                         files={"trace.ndjson": one}, text="history: " + hist[-3000:] + "\n\nmodel state:\n" + (v["cex"] or ""))
            # continue with the traces after the offending one so that the rest is still judged
            todo = todo[e:]
            core.write_ndjson(bp, todo)
            if len(ck.violations) + len(ck.known_hits) > 8:
                break
    # evidence
    hashes, nontriv = set(), 0
    cur = []
    for r in recs + [dict(a="Reset")]:
        if is_reset(r) and cur:
            h, nt = nontrivial_hash(cur)
            if nt and h not in hashes:
                hashes.add(h)
            cur = []
        cur.append(r)
    ck.cov["evaluations"] += sum(1 for r in recs if not is_reset(r))
    ck.cov["distinct_nontrivial"] += len(hashes)
    ck.cov["traces_validated_against_impl"] += ntraces
    ck.cov["rule"] = ("TLC -simulate behaviours of ChannelGen (constants %s) replayed on two real LightningChannels "
                      "(7 channel types round-robin, opener chosen by TLC); distinct = distinct (type, opener, action "
                      "sequence); non-trivial = contains at least one sign or revoke" % g)
    per_action = {}
    for r in recs:
        per_action[r["a"]] = per_action.get(r["a"], 0) + 1
    ck.cov["events_per_action"] = per_action
    ck.cov["add_rejected_by_constraints"] = per_action.get("AddRejected", 0)
    first = [dict(a=r["a"], p=r["p"], x=r["x"], y=r["y"], type=r.get("type"), opener=r.get("opener")) for r in recs[:25]]
    ck.cov["samples"].append(dict(first_trace_prefix=first))
    ck.cov["trusted_base"] = ["TLC 1.8.0", "CommunityModules Json", "btcd txscript engine (sigok oracle)",
                              "executor projection of commitments/logs (field copies)",
                              "transcription of lnwallet/channeldb into spec/Channel"]
    ck.assumptions += ["link-faithful schedules (Fused): receive commitment_signed and revoke are one step, as in htlcswitch",
                       "fixture capacity lowered to 1 000 000 sat so msat values fit TLC's 32-bit integers",
                       "AddHTLC constraint rejections (reserve, fee buffer, limits) are not judged; the behaviour ends there",
                       "bolt kvdb backend only"]
    ndiv = res["out"].count("VERIF-DIVERGED ")
    if ndiv:
        ck.notes.append("%d behaviours ended early: a schedule step could not be taken by the real objects" % ndiv)
        if accepted_all and not ck.violations and not ck.known_hits:
            raise Inconclusive("%d behaviours could not be replayed to the end, yet every recorded step conforms" % ndiv)
    if accepted_all and not ck.violations:
        negative_control(ck, recs, cfg, prop)


def c06_release(ck):
    run_channel(ck, "C06")
    if not ck.violations:
        run_channel(ck, "C06api")


import re


def cex_to_schedule(cex_text, opener="A"):
    """Turn a TLC counterexample of ChannelMC (action labels with arguments in the state headers) into a
    schedule in ChannelGen's event format."""
    evs = [dict(a="Cfg", p=opener, x=0, y=0)]
    for m in re.finditer(r"(?m)^State \d+: <(\w+)(?:\(([^)]*)\))? line", cex_text):
        act, args = m.group(1), [a.strip().strip('"') for a in (m.group(2) or "").split(",") if a.strip()]
        if act == "Add":
            evs.append(dict(a="Add", p=args[0], x=int(args[1]), y=0))
        elif act == "Resolve":
            evs.append(dict(a="Resolve", p=args[0], x=int(args[2]), y=1 if args[1] == "settle" else 0))
        elif act == "UpdateFee":
            evs.append(dict(a="UpdateFee", p=args[0], x=int(args[1]), y=0))
        elif act in ("Disconnect", "SoftDisconnect"):
            evs.append(dict(a=act, p="A", x=0, y=0))
        elif act in ("Sign", "Revoke", "RecvAdd", "RecvRes", "RecvSig", "RecvRev", "SendReest", "RecvReest", "RecvFee"):
            evs.append(dict(a=act, p=args[0], x=0, y=0))
    return evs


def api_level_f1(ck):
    """C03, API level (Fused = FALSE): peers that sign before they revoke. TLC finds the stale-commit_sig
    retransmission history (F1); the counterexample is replayed on the real code; if the real code fails
    at the step the model flags, it is reported under the key of finding F1."""
    r = ck.model_check(SPEC, "ChannelMC", "mc_c03_api.cfg", "API-level exploration (Fused=FALSE)", must_hold=False,
                       timeout=1500, workers=min(core.NCPU, 12), name="mc_api")
    if not r.violation:
        ck.notes.append("API-level model (Fused=FALSE) satisfies NoError: nothing to replay")
        return
    evs = cex_to_schedule(r.cex or "")
    sd = os.path.join(ck.out, "api_sched")
    os.makedirs(sd, exist_ok=True)
    core.write_ndjson(os.path.join(sd, "b_1.ndjson"), evs)
    res = ck.go_test("./lnwallet/", "^TestVerifChannelExec$", ["lnwallet/channel_exec_test.go"],
                     env={"VERIF_SCHED": sd, "VERIF_TYPES": "tweakless", "VERIF_SHADOW_EVERY": 1000000}, name="exec_api",
                     extra_overlay=fixture_overlay(ck))
    trace = os.path.join(res["dir"], "trace.ndjson")
    recs = core.read_ndjson(trace)
    v = ck.validate(SPEC, "ChannelTrace", "ChannelTrace_C03api.cfg", trace, name="val_api")
    last = recs[-1]
    hist = " ".join("%s(%s)" % (e["a"], e["p"]) for e in evs[1:])
    if not v["ok"]:
        ck.violation("C03api:%s:%s" % ((v["invariant"] or "").replace("invariant ", ""), last.get("a")),
                     "API-level counterexample replay: real code deviates from the model", files={"trace.ndjson": trace},
                     text=hist + "\n" + (v["cex"] or ""))
    elif last.get("err"):
        # the real code fails exactly where the (code-faithful) model says it does: a genuine C03 violation
        ck.violation("F1:stale-commitsig-retransmission:%s" % last.get("a"),
                     "API level (peer signs before it revokes): after reload the stored commit_sig is retransmitted and "
                     "rejected by the honest peer: %s" % last["err"][:200],
                     files={"trace.ndjson": trace, "schedule.ndjson": os.path.join(sd, "b_1.ndjson")}, text=hist)
    else:
        ck.notes.append("API-level counterexample did not reproduce on the real code (model is stricter than the code there)")
    ck.cov["samples"].append(dict(api_level_counterexample=hist))
