"""C18 Sweeps never pay fees beyond their budget and ramp up to it by the deadline.

spec/SweepFee: sweep.LinearFeeFunction as a state machine (exact integer arithmetic, both neighbours
allowed only at exact .5 ties of the three float64 roundings) and sweep.TxPublisher for one bump
request (MaxFeeRateAllowed, createAndCheckTx, createRBFCompliantTx loop, fee bumps, retry rates), and
the regroup step in front of it: every input carries the fee rate it was offered last, the set's
starting rate is the largest of them (RegroupStart), so no input is offered less after regrouping
(RegroupNoDecrease) - executed through the real UtxoSweeper.markInputsPublishFailed /
markInputsPendingPublish, BudgetAggregator.ClusterInputs and BudgetInputSet.

The sweeper layer above the publisher: every request is built by the REAL UtxoSweeper
(updateSweeperInputs + sweepPendingInputs -> sweep) from its configuration (sweeper.maxfeerate in
sat/vb) and the input set; the Req line records both sides and the spec requires the request to carry
the configured maximum (250 sat/kw per sat/vb), the sum of the input budgets and the inputs' deadline
(SweepMaxIsConfigured / SweepBudgetIsInputs / SweepDeadlineIsInputs), and states the property against
the configuration (PubRateLeCfgMax, PubFeeLeInputBudget).  The input universe includes inputs with
unconfirmed-parent info (the anchor that CPFPs a force close; parent below / inside / above the ramp)
next to required outputs and wallet top-ups, and the fee-rate clauses are judged on the ACTUAL tx handed
to the wallet (fee = inputs - outputs over the sweep tx's own weight): TxRateLeCfgMax, TxPaysOfferedRate.

Aux sweeper (custom channels): a request may get an extra output (xout, part of the weight of the tx that is
built and of its required outputs) and an extra budget (xbudget); the ceiling is budget over THAT size.
Estimator / deadline domain: ending rates / configured maxima below the relay fee, conf targets on both sides of
1008 (the relay fee as the starting rate), far-deadline publisher grid (SweepFeePubMCFar.cfg).

Part "SweepLife" (spec/SweepFee/SweepLife*.tla, harness/sweep/c18_life_test.go): the RETRY HISTORY of the
UtxoSweeper across blocks - rounds, publish, bump, TxFailed with / without a retry rate, TxUnknownSpend of a subset,
re-grouping - on a real UtxoSweeper + BudgetAggregator + TxPublisher; per input the state and the starting rate the
sweeper keeps are compared with the model after every handled result (ConformLife) and the rate offered for an input
must not decrease across its requests (LifeNoDecrease, LifeStartNoDecrease); keys sweeplife:<invariant>:<line>.
Its two deviations (ForgetOnZero, StrandFilter) are decided by the directed l_d_* schedules:
deviating -> ck.violation("retry-rate-forgotten:<schedule>" / "input-stranded-by-start-rate:<schedule>").

  (a) exhaustive TLC: fee function grids (all walks of Increment/IncreaseFeeRate with skipping,
      repeating, increasing conf targets), publisher grids (budgets around the fee thresholds of a
      weight below/above 2000 wu, MaxFeeRate below/above the budget rate, change above/below dust,
      required outputs, every mempool/publish answer, every block pattern, retries);
  (b) a directed replay of spec/SweepFee/directed decides for each of the two named deviations
      (RoundCeil, ClampStart) whether the code follows the repaired or the deviating model;
      deviating -> ck.violation("ceil-overshoot:<schedule>" / "start-above-end:<schedule>");
  (c) TLC-generated behaviours (SweepFeeGen) + a seeded free-running driver, executed on the real
      code (harness/sweep/c18_test.go), validated line by line by SweepFeeTrace with the property's
      invariants on the model state the trace drives;
  (d) negative controls (a recorded rate / fee corrupted -> must be rejected).

VERIF_MUTATION=<diff> (core) compiles a mutated source in; VERIF_C18_FAST=1 skips (a) for such runs.
"""
import copy
import json
import os
import shutil
from .. import core
from ..core import Inconclusive

SPEC = os.path.join(core.VERIF, "spec", "SweepFee")
DIRECTED = os.path.join(SPEC, "directed")
LEVEL = "model_checking"
HARNESS = ["sweep/c18_test.go", "sweep/c18_life_test.go"]
WORKERS = int(os.environ.get("VERIF_TLC_WORKERS", "4"))

TLA = lambda b: "TRUE" if b else "FALSE"

# deviation -> (spec constant, value in the repaired model, violation key prefix, what)
DEVIATIONS = {
    "ceil": ("RoundCeil", False, "ceil-overshoot",
             "BumpRequest.MaxFeeRateAllowed rounds budget*1000/weight to NEAREST: the ending fee rate costs more "
             "than the budget (tx >= 2000 wu), the tx at the ceiling is refused by createAndCheckTx's budget check "
             "and the ceiling is never offered / nothing is published once the deadline is reached"),
    "start": ("ClampStart", True, "start-above-end",
              "NewLinearFeeFunction takes an explicit starting fee rate above the ending rate as is: the current "
              "rate exceeds min(budget/size, MaxFeeRate) - a tx is published above the configured maximum - and "
              "then decreases"),
}


def is_reset(r):
    return r.get("a") == "Reset"


def split_traces(recs):
    out, cur = [], []
    for r in recs:
        if is_reset(r):
            if cur:
                out.append(cur)
            cur = [r]
        else:
            cur.append(r)
    if cur:
        out.append(cur)
    return out


def consts(dec):
    """cfg constants for a decision {ceil: present?, start: present?} (present = the code deviates)."""
    return {"RoundCeil": TLA(dec["ceil"]), "ClampStart": TLA(not dec["start"])}


def brief(r):
    keys = ("a", "ids", "states", "starts", "lbudgets", "xout", "xbudget", "cfgvb", "maxrate", "ct", "sopt", "est", "relay", "budget", "weight", "totalin", "reqout", "dust", "deadline",
            "height", "maxallowed", "start", "end", "width", "pos", "cur", "delta", "inc", "err", "rate", "fee",
            "change", "ans", "event", "budgets", "deadlines", "parents")
    return {k: r.get(k) for k in keys
            if (r.get(k) not in (0, "", None, [], "none") and not (k == "sopt" and r.get(k) == -1)
                and not (k == "weight" and r.get(k) == 1)) or k == "a"}


def next_line(v):
    """the Next* invariants speak about the line that is about to be taken"""
    if "Next" in (v["invariant"] or "") and v["line"] is not None:
        v["line"] += 1


def report(ck, v, recs, what, dec):
    next_line(v)
    a, b = core.slice_trace(recs, v["line"] or 1, is_reset)
    one = os.path.join(ck.out, "failing_trace.ndjson")
    core.write_ndjson(one, recs[a:b])
    bad = recs[min((v["line"] or 1) - 1, len(recs) - 1)]
    inv = (v["invariant"] or "rejected").replace("invariant ", "").replace("property ", "")
    ck.violation("sweepfee:%s:%s" % (inv, bad.get("a")),
                 "real sweep code deviates from spec/SweepFee in %s (%s, constants %s) at line %s of %s: %s" % (
                     what, v["invariant"], consts(dec), v["line"], recs[a].get("file"), json.dumps(brief(bad))[:700]),
                 files={"trace.ndjson": one}, text=v["cex"])


# ---------------------------------------------------------------------------------------------- (a)
def model_checking(ck, thorough, dec):
    strict = {"RoundCeil": "FALSE", "ClampStart": "TRUE"}
    code = consts(dec)
    # measured: the whole grid of SweepFeePubMC.cfg (8 input sets x 5 budgets x 3 starts x 4 estimator answers, with a third
    # configured maximum) took 8 min 46 s with 4 workers on an idle machine; the tiers take sub-grids of it
    quickpub = ({"Budgets": "{1000, 2000, 2002, 2003}", "Ests": "{0, 260, 9000}", "InSets": "{1, 2, 3, 4, 7}"} if thorough
                else {"Budgets": "{1000, 2000, 2003}", "Sopts": "{0, 600}", "Ests": "{0, 260, 9000}",
                      "InSets": "{1, 3, 7, 9}"})
    runs = [("SweepFeeMC.cfg", "fee function grid 12 ends x 8 conf targets x 4 starts x 5 estimator answers, all walks, "
                               "repaired model", strict, {}, 900)]
    runs.append(("SweepFeePubMC.cfg", "publisher grid (requests built by SweepReq from configured maxima 2 / 400 sat/vb; 2 weights, "
                                      "budgets around the thresholds, input sets incl. two with unconfirmed-parent info and two "
                                      "with an aux extra output / extra budget, all mempool/publish answers, all block patterns, "
                                      "retries, third-party spend / confirmation at any block), repaired model",
                 strict, quickpub, 1500))
    if code != strict:
        runs.append(("SweepFeeMC.cfg", "fee function grid, model with the deviations the code has (invariants hold "
                                       "outside the named triggers)", code, {}, 900))
        runs.append(("SweepFeePubMC.cfg", "publisher grid, model with the deviations the code has (invariants hold "
                                          "outside the named triggers)", code, quickpub, 1500))
    if thorough:
        runs.append(("SweepFeePubMC.cfg", "publisher grid, input sets of a node with an aux sweeper (extra output 1000 / 330 sat, extra "
                                          "budget 3 / 0; change above / below dust), repaired model", strict,
                     {"Budgets": "{1000, 2002, 2003}", "Sopts": "{0, 600}", "Ests": "{0, 260, 9000}", "InSets": "{8, 9}"}, 1500))
    runs.append(("SweepFeePubMCFar.cfg", "publisher grid with a deadline 1009 blocks away (the relay fee as the starting rate; "
                                         "configured maxima 1 / 2 / 400 sat/vb = below / above the relay fee; plain and aux "
                                         "input set; heights at both ends), repaired model", strict, {}, 900))
    if thorough:
        runs.append(("SweepFeeMCWide.cfg", "fee function, conf targets 1007..1011 (width up to 1010), every position, "
                                           "repaired model", strict, {}, 1800))
    for i, (cfg, what, c, extra, tmo) in enumerate(runs):
        cc = dict(c)
        cc.update(extra)
        ck.model_check(SPEC, "SweepFeeMC", cfg, what, constants=cc, workers=WORKERS, name="mc%d" % i, timeout=tmo)
    ck.cov["exhaustive"] = True
    # the deviations at model level: without the trigger guards the property fails
    for cfg, inv in (("SweepFeePubMCQuirkCeil.cfg", "PubCeilByDeadlineAll"),
                     ("SweepFeePubMCQuirkStart.cfg", "PubRateLeMaxAll"),
                     ("SweepFeeMCQuirkStart.cfg", "FFMonotoneAll")):
        r = ck.model_check(SPEC, "SweepFeeMC", cfg, "deviating model, unguarded %s (expected to fail)" % inv,
                           must_hold=False, workers=WORKERS, name="mcq_" + inv, timeout=600)
        if r.violation != "invariant " + inv:
            raise Inconclusive("the deviating model does not violate %s (got %s)" % (inv, r.violation))
    ck.notes.append("model level: RoundCeil=TRUE violates PubCeilByDeadline, ClampStart=FALSE violates PubRateLeMax and "
                    "FFMonotone (counterexamples found by TLC); both repaired -> all invariants hold")


# ---------------------------------------------------------------------------------------------- (b)
def decide(ck, directed):
    """directed: {name: recs}.  Returns {ceil: bool, start: bool} (True = the code deviates)."""
    dec = {}
    for dev, (const, repaired, key, what) in DEVIATIONS.items():
        traces = {n: r for n, r in directed.items() if n.startswith("d_" + dev)}
        if not traces:
            raise Inconclusive("no directed schedule for deviation %s" % dev)
        present = False
        for name, recs in sorted(traces.items()):
            p = os.path.join(ck.out, "directed_%s.ndjson" % name)
            core.write_ndjson(p, recs)
            c = {"RoundCeil": "FALSE", "ClampStart": "TRUE"}          # repaired model, full property
            v = ck.validate(SPEC, "SweepFeeTrace", "SweepFeeTrace.cfg", p, constants=c, name="dir_%s_rep" % name)
            if v["ok"]:
                continue
            c[const] = TLA(not repaired)                              # the deviating model, conformance only
            v2 = ck.validate(SPEC, "SweepFeeTrace", "SweepFeeTraceConform.cfg", p, constants=c,
                             name="dir_%s_dev" % name)
            if not v2["ok"]:
                report(ck, v2, recs, "directed schedule %s (neither the repaired nor the deviating model)" % name,
                       {"ceil": dev == "ceil", "start": dev == "start"})
                continue
            present = True
            last = [brief(r) for r in recs if r.get("a") in ("Req", "New", "Pub", "Done")][:8]
            ck.violation("%s:%s" % (key, name),
                         "%s. Directed schedule %s on the real code follows the deviating model (%s=%s), the repaired "
                         "model rejects it (%s at line %s). Observed: %s" % (
                             what, name, const, TLA(not repaired), v["invariant"], v["line"], json.dumps(last)[:900]),
                         files={"trace.ndjson": p, "schedule.ndjson": os.path.join(DIRECTED, name + ".ndjson")},
                         text=v["cex"])
        dec[dev] = present
    ck.cov["deviations_present"] = dec
    return dec


# ---------------------------------------------------------------------------------------------- (d)
def enumerate_traces(recs):
    a = 0
    for tr in split_traces(recs):
        yield a, tr
        a += len(tr)


def controls(ck, recs, dec, tag, need_parent=True):
    """corrupt one recorded value of an accepted batch: the validator must reject it."""
    done = []
    for field, pick in (("cur", lambda r: r.get("a") in ("Inc", "Bump") and r.get("inc") == 1
                         and (r["delta"] * r["pos"]) % 1000 != 500),      # not at a tie: +1 is never allowed
                        ("fee", lambda r: r.get("a") == "Pub" and r.get("ans") == "ok"),
                        ("maxallowed", lambda r: r.get("a") == "Init" and r.get("live") == 1),
                        # the sweeper layer: the request's MaxFeeRate / the configured maximum / one input's budget
                        ("maxrate", lambda r: r.get("a") == "Req" and r.get("cfgvb", 0) > 0),
                        ("cfgvb", lambda r: r.get("a") == "Req" and r.get("cfgvb", 0) > 0),
                        ("budget", lambda r: r.get("a") == "Req" and r.get("cfgvb", 0) > 0)):
        cands = [i for i, r in enumerate(recs) if pick(r)]
        if not cands:
            continue
        i = cands[len(cands) // 2]
        a, b = core.slice_trace(recs, i + 1, is_reset)
        bad = copy.deepcopy(recs[a:b])
        bad[i - a][field] += 1
        p = os.path.join(ck.out, "control_%s_%s.ndjson" % (tag, field))
        core.write_ndjson(p, bad)
        v = ck.validate(SPEC, "SweepFeeTrace", "SweepFeeTrace.cfg", p, constants=consts(dec),
                        name="control_%s_%s" % (tag, field))
        if v["ok"]:
            raise Inconclusive("negative control accepted (%s+1 on a %s line): trace validation is not binding"
                               % (field, recs[i].get("a")))
        done.append(dict(mutation="%s+1 on %s line %d" % (field, recs[i].get("a"), i + 1),
                         rejected_by=v["invariant"], at_line=v["line"]))
    # the input universe: a tx that pays the offered rate over parent + own weight (minus the parent's fee)
    # instead of over its own weight
    par = None
    for tr_a, tr in enumerate_traces(recs):
        rq = next((r for r in tr if r.get("a") == "Req" and r.get("parents")), None)
        if not rq:
            continue
        pw, pf = sum(x[0] for x in rq["parents"]), sum(x[1] for x in rq["parents"])
        for k, r in enumerate(tr):
            extra = r.get("rate", 0) * pw // 1000 - pf
            if r.get("a") == "Pub" and r.get("ans") == "ok" and 0 < extra < r.get("change", 0) - 1000 \
                    and r["fee"] + extra <= rq["budget"]:
                par = (tr, k, extra)
                break
        if par:
            break
    if par:
        tr, k, extra = par
        bad = copy.deepcopy(tr)
        for j in (k - 1, k):                      # the Check and the Pub line of that tx
            if bad[j].get("a") in ("Check", "Pub"):
                bad[j]["fee"] += extra
                bad[j]["change"] -= extra
                bad[j]["outs"] = [[o[0] - extra, o[1]] if o[0] == tr[j]["change"] else o for o in bad[j]["outs"]]
        p = os.path.join(ck.out, "control_%s_parentfee.ndjson" % tag)
        core.write_ndjson(p, bad)
        v = ck.validate(SPEC, "SweepFeeTrace", "SweepFeeTrace.cfg", p, constants=consts(dec),
                        name="control_%s_parentfee" % tag)
        if v["ok"]:
            raise Inconclusive("negative control accepted (fee over parent + own weight): the tx-level invariants "
                               "are not binding")
        done.append(dict(mutation="fee += rate*parent_weight/1000 - parent_fee (%d sat) on the Check/Pub lines of a tx "
                                  "whose request carries unconfirmed-parent info" % extra,
                         rejected_by=v["invariant"], at_line=v["line"]))
    elif need_parent:
        raise Inconclusive("no published tx with unconfirmed-parent info in %s: the input universe is not exercised" % tag)
    if len(done) < 2:
        raise Inconclusive("not enough material for the negative controls in %s" % tag)
    if need_parent and not any(d["mutation"].startswith("maxrate+1") for d in done):
        raise Inconclusive("no request line for the sweeper-layer negative control in %s" % tag)
    ck.cov.setdefault("negative_controls", []).extend(done)


def stats(ck, recs):
    st = ck.cov.setdefault("stats", dict(fee_functions=0, requests=0, txs_checked=0, txs_published=0, delta_ties=0,
                                         rate_ties=0, budget_rate_ties=0, top_ups=0, required_outputs=0,
                                         dust_absorbed=0, max_width=0, max_rate=0, regrouped_with_prev_rates=0,
                                         regrouped_largest_not_last=0, built_by_real_sweeper=0,
                                         aux_extra_output=0, aux_extra_budget=0, relay_above_ceiling=0,
                                         far_deadline_starts=0, start_capped_at_end=0,
                                         cfg_max_binding=0, unconf_parent=0, unconf_parent_below_end=0,
                                         unconf_parent_above_end=0, unconf_parent_txs_published=0))
    withparent = False
    for r in recs:
        a = r.get("a")
        if a in ("Reset", "New"):
            withparent = False
        if a in ("New", "Init") and r.get("ct", 0) >= 1008:
            st["far_deadline_starts"] += 1
        if a in ("New", "Init") and r.get("live") == 1:
            st["start_capped_at_end"] += 1 if r["start"] == r["end"] and r["width"] > 0 else 0
            st["fee_functions"] += 1
            st["max_width"] = max(st["max_width"], r["width"])
            st["max_rate"] = max(st["max_rate"], r["end"])
            w = r["width"]
            if w > 0 and (2000 * (r["end"] - r["start"])) % (2 * w) == w:
                st["delta_ties"] += 1
        if a in ("Inc", "Bump") and r.get("live") == 1 and r["pos"] < r["width"] and (r["delta"] * r["pos"]) % 1000 == 500:
            st["rate_ties"] += 1
        if a in ("Req", "Retry"):
            st["requests"] += 1
            nz = [x for x in r.get("prevs", []) if x > 0]
            st["regrouped_with_prev_rates"] += 1 if nz else 0
            st["regrouped_largest_not_last"] += 1 if nz and nz[-1] != max(nz) else 0
            st["top_ups"] += 1 if r.get("wallet") else 0
            st["built_by_real_sweeper"] += 1 if r.get("cfgvb") else 0
            st["aux_extra_output"] += 1 if r.get("xout") else 0
            st["aux_extra_budget"] += 1 if r.get("xbudget") else 0
            st["relay_above_ceiling"] += 1 if r.get("relay", 0) > min(r.get("maxrate", 0), r["budget"] * 1000 // r["weight"]) else 0
            st["cfg_max_binding"] += 1 if 250 * r.get("cfgvb", 0) < r["budget"] * 1000 // r["weight"] else 0
            withparent = bool(r.get("parents"))
            if withparent:
                st["unconf_parent"] += 1
                pw, pf = sum(x[0] for x in r["parents"]), sum(x[1] for x in r["parents"])
                end = min(250 * r.get("cfgvb", 0), r["budget"] * 1000 // r["weight"])
                st["unconf_parent_below_end" if pf * 1000 // max(pw, 1) < end else "unconf_parent_above_end"] += 1
            st["required_outputs"] += 1 if r.get("reqout") else 0
            if (2000 * r["budget"]) % (2 * r["weight"]) == r["weight"]:
                st["budget_rate_ties"] += 1
        if a == "Check":
            st["txs_checked"] += 1
        if a == "Pub" and r.get("ans") == "ok":
            st["txs_published"] += 1
            st["unconf_parent_txs_published"] += 1 if withparent else 0
            if r.get("change") == 0:
                st["dust_absorbed"] += 1


# ---------------------------------------------------------------------------------------------- SweepLife
# deviation -> (spec constant, violation key prefix, what); TRUE = the code deviates, FALSE = repaired
LIFE_DEVIATIONS = {
    "forget": ("ForgetOnZero", "retry-rate-forgotten",
               "UtxoSweeper retry history: a TxFailed bump result WITHOUT a retry rate (FeeRate 0: zero fee rate delta / tx "
               "without output / aux error) makes markInputsPublishFailed store StartingFeeRate=Some(0) on every input of the "
               "set: the rate already reached is forgotten, the next request starts from the estimator and the rate offered "
               "for the input decreases across blocks"),
    "strand": ("StrandFilter", "input-stranded-by-start-rate",
               "UtxoSweeper retry history: after a third-party spend of part of a batched sweep the rate handed back (computed "
               "for the old, larger set) becomes the remaining input's StartingFeeRate; its OWN budget cannot pay that rate "
               "over its own weight, BudgetAggregator.filterInputs skips it in every round: it stays PublishFailed, is never "
               "offered again and never reaches its ceiling by the deadline"),
}


def life_consts(dec, ldec):
    c = consts(dec)
    c.update({"ForgetOnZero": TLA(ldec["forget"]), "StrandFilter": TLA(ldec["strand"])})
    return c


def life_schedules(ck, thorough):
    """TLC-generated retry histories (model of the code as known: both deviations) + the directed l_* ones."""
    files = ck.generate(SPEC, "SweepLifeGen", "SweepLifeGen.cfg", 400 if thorough else 90, 64,
                        constants={"MaxLen": 60}, name="gen_life", timeout=900)
    d = os.path.join(ck.out, "life_schedules")
    os.makedirs(d, exist_ok=True)
    for i, f in enumerate(files):
        shutil.copy(f, os.path.join(d, "l_%04d.ndjson" % i))
    for n in sorted(os.listdir(DIRECTED)):
        if n.startswith("l_") and n.endswith(".ndjson"):
            shutil.copy(os.path.join(DIRECTED, n), os.path.join(d, "l_directed_" + n[2:]))
    return d


def life_name(tr):
    return os.path.basename(tr[0].get("file", ""))


def life_report(ck, v, recs, what, c):
    next_line(v)
    a, b = core.slice_trace(recs, v["line"] or 1, is_reset)
    one = os.path.join(ck.out, "failing_life_trace.ndjson")
    core.write_ndjson(one, recs[a:b])
    bad = recs[min((v["line"] or 1) - 1, len(recs) - 1)]
    inv = (v["invariant"] or "rejected").replace("invariant ", "").replace("property ", "")
    ck.violation("sweeplife:%s:%s" % (inv, bad.get("a")),
                 "real UtxoSweeper / TxPublisher deviate from spec/SweepFee/SweepLife in %s (%s, constants %s) at line %s "
                 "of %s: %s" % (what, v["invariant"], c, v["line"], recs[a].get("file"), json.dumps(brief(bad))[:700]),
                 files={"trace.ndjson": one}, text=v["cex"])


def life_decide(ck, life, dec):
    """which retry-history model does the code follow: {forget: bool, strand: bool} (True = the code deviates)."""
    ldec = {}
    traces = {life_name(tr): tr for tr in split_traces(life)}
    for dev, (const, key, what) in LIFE_DEVIATIONS.items():
        mine = {n: tr for n, tr in traces.items() if n.startswith("l_directed_d_" + dev)}
        if not mine:
            raise Inconclusive("no directed schedule for retry-history deviation %s" % dev)
        present = False
        for name, recs in sorted(mine.items()):
            p = os.path.join(ck.out, "directed_%s" % name)
            core.write_ndjson(p, recs)
            rep = {"forget": False, "strand": False}
            c = life_consts(dec, rep)                                   # repaired model, full property
            v = ck.validate(SPEC, "SweepLifeTrace", "SweepLifeTrace.cfg", p, constants=c, name="ldir_%s_rep" % name[:-7])
            if v["ok"]:
                continue
            c2 = life_consts(dec, dict(rep, **{dev: True}))             # the deviating model, conformance only
            v2 = ck.validate(SPEC, "SweepLifeTrace", "SweepLifeTraceConform.cfg", p, constants=c2,
                             name="ldir_%s_dev" % name[:-7])
            if not v2["ok"]:
                life_report(ck, v2, recs, "directed schedule %s (neither the repaired nor the deviating model)" % name, c2)
                continue
            present = True
            seen = [brief(r) for r in recs if r.get("a") in ("LReq", "NoReq", "Handle")][:10]
            ck.violation("%s:%s" % (key, name[len("l_directed_"):-7]),
                         "%s. Directed schedule %s on the real code follows the deviating model (%s=TRUE), the repaired "
                         "model rejects it (%s at line %s). Observed: %s" % (
                             what, name, const, v["invariant"], v["line"], json.dumps(seen)[:1200]),
                         files={"trace.ndjson": p,
                                "schedule.ndjson": os.path.join(DIRECTED, "l_" + name[len("l_directed_"):])},
                         text=v["cex"])
        ldec[dev] = present
    ck.cov["deviations_present"].update({"life_" + k: v for k, v in ldec.items()})
    ck.cov["traces_validated_against_impl"] += len(LIFE_DEVIATIONS)
    return ldec


def life_model_checking(ck, thorough, dec, ldec):
    strict = life_consts({"ceil": False, "start": False}, {"forget": False, "strand": False})
    code = life_consts(dec, ldec)
    wide = {"LBSel": "{1, 2, 3, 4}", "LEsts": "{300, 1000}", "LConf0": 5} if thorough else {}
    what = ("retry history: 2 inputs (budget pairs: second ceiling below / far below the pair's rates, equal, first barely "
            "payable), all mempool/publish answers, all block patterns to deadline+1, third-party spend of any subset at any "
            "block, results with / without a retry rate")
    if thorough or code == strict:
        ck.model_check(SPEC, "SweepLifeMC", "SweepLifeMC.cfg", what + ", repaired model", constants=dict(strict, **wide),
                       workers=WORKERS, name="mcl0", timeout=1500)
    if code != strict:
        ck.model_check(SPEC, "SweepLifeMC", "SweepLifeMC.cfg", what + ", model with the deviations the code has (invariants "
                       "hold outside the named triggers)", constants=dict(code, **wide), workers=WORKERS, name="mcl1",
                       timeout=1500)
    for cfg, inv in (("SweepLifeMCQuirkForget.cfg", "LifeNoDecreaseAll"), ("SweepLifeMCQuirkStrand.cfg", "LifeNotStrandedAll")):
        r = ck.model_check(SPEC, "SweepLifeMC", cfg, "deviating retry-history model, unguarded %s (expected to fail)" % inv,
                           must_hold=False, workers=WORKERS, name="mclq_" + inv, timeout=600)
        if r.violation != "invariant " + inv:
            raise Inconclusive("the deviating retry-history model does not violate %s (got %s)" % (inv, r.violation))
    ck.notes.append("model level (SweepLife): ForgetOnZero=TRUE violates LifeNoDecrease, StrandFilter=TRUE violates "
                    "LifeNotStranded (counterexamples found by TLC); both repaired -> all invariants hold")


def life_controls(ck, recs, c):
    done = []
    # (1) the sweeper forgets / alters the rate it keeps for a waiting input
    cands = [i for i, r in enumerate(recs) if r.get("a") == "Handle" and r.get("event") in ("Failed", "UnknownSpend")
             and any(s > 0 and st == "failed" for s, st in zip(r["starts"], r["states"]))]
    # (2) a request that leaves one of its inputs out
    cands2 = [i for i, r in enumerate(recs) if r.get("a") == "LReq" and len(r.get("ids", [])) >= 2]
    for tag, cs in (("starts", cands), ("ids", cands2)):
        if not cs:
            continue
        i = cs[len(cs) // 2]
        a, b = core.slice_trace(recs, i + 1, is_reset)
        bad = copy.deepcopy(recs[a:b])
        if tag == "starts":
            k = next(k for k, (s, st) in enumerate(zip(bad[i - a]["starts"], bad[i - a]["states"])) if s > 0 and st == "failed")
            bad[i - a]["starts"][k] = 0
            what = "starting rate of a failed input set to 0 on a Handle line (line %d)" % (i + 1)
        else:
            bad[i - a]["ids"] = bad[i - a]["ids"][:-1]
            what = "one input dropped from the ids of an LReq line (line %d)" % (i + 1)
        p = os.path.join(ck.out, "control_life_%s.ndjson" % tag)
        core.write_ndjson(p, bad)
        v = ck.validate(SPEC, "SweepLifeTrace", "SweepLifeTrace.cfg", p, constants=c, name="control_life_" + tag)
        if v["ok"]:
            raise Inconclusive("negative control accepted (%s): retry-history validation is not binding" % what)
        done.append(dict(mutation=what, rejected_by=v["invariant"], at_line=v["line"]))
    if len(done) < 2:
        raise Inconclusive("not enough material for the retry-history negative controls")
    ck.cov.setdefault("negative_controls", []).extend(done)


def life_validate(ck, life, dec, ldec):
    c = life_consts(dec, ldec)
    recs = [r for tr in split_traces(life) if not life_name(tr).startswith("l_directed_d_") for r in tr]
    st = ck.cov.setdefault("stats", {})
    for k in ("life_histories", "life_requests", "life_results_handled", "life_failed_with_rate", "life_failed_without_rate",
              "life_unknown_spends", "life_resweeps_after_spend", "life_published", "life_rounds_without_request"):
        st.setdefault(k, 0)
    prev = None
    for r in recs:
        a = r.get("a")
        st["life_histories"] += 1 if a == "Offer" else 0
        st["life_requests"] += 1 if a == "LReq" else 0
        st["life_rounds_without_request"] += 1 if a == "NoReq" else 0
        st["life_published"] += 1 if a == "Pub" and r.get("ans") == "ok" else 0
        if a == "Handle":
            st["life_results_handled"] += 1
            ev = r.get("event")
            st["life_unknown_spends"] += 1 if ev == "UnknownSpend" else 0
            st["life_failed_with_rate"] += 1 if ev == "Failed" and r.get("rate", 0) > 0 else 0
            st["life_failed_without_rate"] += 1 if ev == "Failed" and r.get("rate", 0) == 0 else 0
        if a == "LReq" and prev is not None and prev.get("a") == "Handle" and prev.get("event") == "UnknownSpend":
            st["life_resweeps_after_spend"] += 1
        prev = r
    nviol = 0
    for k, batch in enumerate(core.split_batches(recs, is_reset, max_bytes=12_000_000)):
        p = os.path.join(ck.out, "life_%d.ndjson" % k)
        core.write_ndjson(p, batch)
        v = ck.validate(SPEC, "SweepLifeTrace", "SweepLifeTrace.cfg", p, constants=c, name="val_life_%d" % k, timeout=1500)
        if v["ok"]:
            ck.cov["traces_validated_against_impl"] += sum(1 for r in batch if is_reset(r))
        else:
            nviol += 1
            life_report(ck, v, batch, "retry histories", c)
    if nviol == 0:
        life_controls(ck, recs, c)
        if st["life_unknown_spends"] == 0 or st["life_resweeps_after_spend"] == 0 or st["life_failed_with_rate"] == 0:
            raise Inconclusive("the retry histories exercised no unknown spend / re-sweep / failure with a rate: %s" % st)
    for tr in split_traces(recs)[:2]:
        ck.cov["samples"].append([brief(r) for r in tr[1:7]])
    return nviol


def run(ck):
    thorough = ck.tier == "thorough"
    fast = bool(os.environ.get("VERIF_C18_FAST"))
    extra = json.loads(os.environ.get("VERIF_EXTRA_OVERLAY", "") or "{}") or None

    # ------------------------------------------------------------ behaviours (generated with the code's constants,
    # inside the main domain: the triggers of the deviations are the directed schedules)
    gen_c = {"RoundCeil": "TRUE", "ClampStart": "FALSE", "Main": "TRUE"}
    nff, npub = (500, 500) if thorough else (120, 140)
    f1 = ck.generate(SPEC, "SweepFeeGen", "SweepFeeGen.cfg", nff, 44,
                     constants=dict(gen_c, Mode='"ff"', MaxLen=40), name="gen_ff", timeout=900)
    f2 = ck.generate(SPEC, "SweepFeeGen", "SweepFeeGen.cfg", npub, 44,
                     constants=dict(gen_c, Mode='"pub"', MaxLen=40), name="gen_pub", timeout=900)
    sched = os.path.join(ck.out, "schedules")
    os.makedirs(sched, exist_ok=True)
    for i, f in enumerate(f1 + f2):
        shutil.copy(f, os.path.join(sched, "b_%04d_%s.ndjson" % (i, "ff" if f in f1 else "pub")))
    dnames = sorted(n[:-7] for n in os.listdir(DIRECTED)
                    if n.endswith(".ndjson") and not n.startswith("l_"))       # d_*: decide(); x_*: as generated
    lsched = life_schedules(ck, thorough)
    for n in dnames:
        shutil.copy(os.path.join(DIRECTED, n + ".ndjson"), os.path.join(sched, "b_directed_%s.ndjson" % n))

    # ------------------------------------------------------------ execution on the real code
    res = ck.go_test("./sweep/", "^TestVerifC18(Replay|Free|Life)$", HARNESS,
                     env={"VERIF_SCHED": sched, "VERIF_NFF": 1500 if thorough else 250,
                          "VERIF_NPUB": 1200 if thorough else 220,
                          "VERIF_LIFE_SCHED": lsched, "VERIF_NLIFE": 600 if thorough else 150},
                     name="exec", timeout=1500, extra_overlay=extra)
    tpath, fpath = os.path.join(res["dir"], "trace.ndjson"), os.path.join(res["dir"], "free.ndjson")
    lpath = os.path.join(res["dir"], "life.ndjson")
    if res["rc"] != 0 or not os.path.exists(tpath) or not os.path.exists(fpath) or not os.path.exists(lpath):
        raise Inconclusive("executor failed:\n" + res["out"][-4000:])
    replay, free = core.read_ndjson(tpath), core.read_ndjson(fpath)
    directed, dirx, generated = {}, [], []
    for tr in split_traces(replay):
        fn = os.path.basename(tr[0].get("file", ""))
        if fn.startswith("b_directed_d_"):
            directed[fn[len("b_directed_"):-7]] = tr
        elif fn.startswith("b_directed_x_"):
            dirx += tr                  # scenario witnesses of each part: validated first
        else:
            generated += tr
    life = core.read_ndjson(lpath)
    ck.cov["evaluations"] += sum(1 for r in replay + free + life if not is_reset(r))

    # ------------------------------------------------------------ (b) which model does the code follow
    dec = decide(ck, directed)
    core.log("  [c18] deviations present in the code: %s" % dec)
    ldec = life_decide(ck, life, dec)
    core.log("  [c18] retry-history deviations present in the code: %s" % ldec)

    # ------------------------------------------------------------ (a) model checking
    if not (fast and os.environ.get("VERIF_MUTATION")):
        model_checking(ck, thorough, dec)
        life_model_checking(ck, thorough, dec, ldec)
    else:
        ck.notes.append("VERIF_C18_FAST: model checking skipped in this mutation-control run")
        ck.cov["states"] = ck.cov["transitions"] = 1

    # ------------------------------------------------------------ (c) validation
    nviol = 0
    for tag, recs in (("directed", dirx), ("generated", generated), ("free", free)):
        stats(ck, recs)
        batches = core.split_batches(recs, is_reset, max_bytes=12_000_000)
        for k, batch in enumerate(batches):
            p = os.path.join(ck.out, "%s_%d.ndjson" % (tag, k))
            core.write_ndjson(p, batch)
            v = ck.validate(SPEC, "SweepFeeTrace", "SweepFeeTrace.cfg", p, constants=consts(dec),
                            name="val_%s_%d" % (tag, k), timeout=1500)
            if v["ok"]:
                ck.cov["traces_validated_against_impl"] += sum(1 for r in batch if is_reset(r))
            else:
                nviol += 1
                report(ck, v, batch, "%s behaviours" % tag, dec)
        if nviol == 0 and tag != "directed":
            controls(ck, recs, dec, tag)
    nviol += life_validate(ck, life, dec, ldec)
    distinct = set()
    for tr in split_traces(life):
        distinct.add(core.sha(str([(r.get("a"), r.get("height"), r.get("ans"), r.get("cur"), r.get("event"), r.get("rate"),
                                   str(r.get("ids")), str(r.get("starts")), str(r.get("lbudgets")), r.get("est"))
                                  for r in tr[1:]])))
    for tr in split_traces(dirx) + split_traces(generated) + split_traces(free):
        distinct.add(core.sha(str([(r.get("a"), r.get("ct"), r.get("height"), r.get("ans"), r.get("maxrate"), r.get("sopt"),
                                   r.get("est"), r.get("budget"), r.get("weight"), r.get("totalin"), r.get("cur"),
                                   r.get("cfgvb"), str(r.get("parents")))
                                  for r in tr[1:]])))
    ck.cov["distinct_nontrivial"] += len(distinct)
    ck.cov["traces_validated_against_impl"] += len(directed)
    for tr in (split_traces(generated)[:2] + split_traces(free)[-2:]):
        ck.cov["samples"].append([brief(r) for r in tr[1:6]])
    ck.cov["rule"] = ("a case = one fee function or one bump request with its whole history (conf target walk / blocks, "
                      "mempool and publish answers, retries); generated by TLC -simulate from SweepFeeGen (main domain) "
                      "or by the seeded free-running driver (rates up to 2*10^6 sat/kw, conf targets 0..1011, 1..40 "
                      "inputs through the real UtxoSweeper.sweepPendingInputs/sweep, BudgetAggregator/BudgetInputSet with "
                      "wallet top-ups, required outputs and anchors carrying unconfirmed-parent info; configured maxima "
                      "10..7600 sat/vb); distinct = distinct "
                      "(action, argument, answer, resulting rate) sequences; every case has >= 1 call on the real code; "
                      "requests of a node with an aux sweeper (extra output 330..5000 sat, extra budget) and relay fees above "
                      "the ceiling / conf targets >= 1008 are part of both; a retry history (SweepLife) = 2..4 inputs of one "
                      "deadline on a real UtxoSweeper + TxPublisher over all its requests (rounds, bumps, failures with / "
                      "without a rate, one third-party spend), generated by TLC -simulate from SweepLifeGen or by the seeded "
                      "driver")
    ck.cov["trusted_base"] = ["TLC 1.8.0", "CommunityModules Json",
                              "executor projection (fee function fields, tx inputs/outputs/values, dust limit per output "
                              "via lnwallet.DustLimitForSize, error class via errors.Is)",
                              "executor glue: handleInitialBroadcast/initializeTx unrolled into their 4 calls to attach the "
                              "logging fee function wrapper",
                              "executor glue: the sweeper's collector round is updateSweeperInputs + sweepPendingInputs called "
                              "directly; its Publisher captures the BumpRequest, which is then given to the real TxPublisher "
                              "(storeInitialRecord); per-input budgets/deadlines/previous rates are field copies of the set",
                              "weight of a sweep tx = sweep.calcSweepTxWeight (the estimator's upper bound the code itself uses; "
                              "mock signatures make the serialized size meaningless)",
                              "float64 analysis: error < 1e-5 for rates <= 2e6 sat/kw, so only exact .5 ties are ambiguous",
                              "executor glue (retry history): the sweeper's collector round and handleBumpEvent are called "
                              "directly with the BumpResult the real TxPublisher delivered (no goroutines); a third-party spend "
                              "is monitorRecord.spentInputs + TxPublisher.handleUnknownSpent; the sweeper's store is a stub; "
                              "per-input state / StartingFeeRate on Handle lines are field copies of UtxoSweeper.inputs; the "
                              "aux sweeper is a stub that adds one p2tr output when an input carries a resolution blob"]
    ck.assumptions += [
        "mock wallet/signer/estimator: mempool and publish answers are scripted environment; signatures are not checked",
        "a caller-supplied StartingFeeRate is >= the relay fee (the fee function does not enforce a floor on it; "
        "the RPC's 1 sat/vb = 250 sat/kw is only lifted by the mempool-rejection loop of the initial broadcast)",
        "required outputs are not below dust (filtered by BudgetAggregator.filterInputs before a request exists); "
        "the free driver goes through that filter",
        "'fee rate' of a published tx is the rate it was built at; a sub-dust change that is added to the fee "
        "(< dust limit, fee still <= budget) is modelled as AbsorbDust and bounded by PubFeeExact",
        "rates <= 2*10^6 sat/kw, budgets <= 1900 sat/wu (TLC 32-bit integers; arithmetic restated to stay below 2^31)",
        "locktimes are not exercised; retry histories: inputs of one deadline (one set per round), no required outputs, no "
        "wallet top-ups, at most one third-party spend per history, no new inputs arriving mid-way; at most one input with unconfirmed-parent "
        "info per request (anchor sweeps are exclusive groups); all inputs of a request carry the same deadline "
        "(inputs without a deadline get theirs in handleNewInput, which is not driven)",
        "1 sat/vb = 250 sat/kw (chainfee.SatPerVByte.FeePerKWeight) is the unit conversion the spec states for "
        "sweeper.maxfeerate",
    ]
