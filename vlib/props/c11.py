"""C11 Transport delivers exactly the bytes sent, in order, or fails; never altered.

spec/Transport - the BOLT-8 transport of brontide/noise.go with abstract cryptography and an EXACT
byte-level model of the stream between the two Machines:
  (a) exhaustive TLC (ROT = 3, LEN = MAC = 1): every interleaving of the three acts, WriteMessage,
      Flush(k) for every k, ReadMessage in both directions and the adversary's moves (corrupt, truncate,
      drop, swap, replay, replay-old, reflect; altered / replayed acts; wrong static key); a rotation
      config (one direction, 8 messages, 5 rotations); and a run that shows what breaks when a reader
      goes on reading after an error (the Machine does not latch errors) - the caller contract ReaderStops;
  (b) TLC-generated behaviours (TransportGen, real byte lengths) replayed on two real brontide.Machines
      over scripted byte pipes (writer accepts k bytes then times out), bursts scaled to the real
      ROT = 1000 (k*500 + {-1,0,1} messages); plus a free-running seeded driver (random sizes, arbitrary
      byte offsets inside ciphertexts, several adversary moves);
  (c) every recorded trace validated by TLC against TransportTrace (ROT = 1000): error class, Flush count,
      buffered bytes, bytes in flight, nonces, key fingerprints <-> (key, epoch) bijection, payload hash;
  (d) brontide.Conn on top (Write with chunking above 65535 bytes, Read through readBuf with small caller buffers,
      underlying reads fragmented) - same traces, same judge; the named deviation ConnEmptyEOFQuirk is announced;
  (e) negative controls (a corrupted nonce, payload hash, error class, key fingerprint).
Follow-up (three further behaviour classes, see the header of spec/Transport/Transport.tla):
  (f) delivered data is a value: the caller keeps the slices ReadMessage / ReadNextBody handed it, Recheck re-hashes
      them later, ConformHeld compares with the messages as sent; Release drops them (generator, bursts, free driver);
  (g) full-duplex use of one Machine: WriteMessage parked where it fetches its pooled header buffer (WStage .. WEnc),
      Flush parked between its two Writes (FlushHdr .. FlushBody), ReadNextHeader .. ReadNextBody as separate calls,
      calls of the other halves recorded in between; exhaustively (every section boundary, Fine = TRUE) in TLC;
  (h) brontide.Conn.Read as a byte stream from generated schedules too, judged only through what Read returns
      (count, error, concatenated bytes of a drained message), the wire and the nonces - no Conn internals recorded.

Mutation controls: mutations/C11/*.diff (run with VERIF_MUTATION=<diff> C11_SKIP_MC=1).
"""
import copy
import json
import os
import re

from .. import core
from ..core import Inconclusive

SPEC = os.environ.get("C11_SPEC_DIR") or os.path.join(core.VERIF, "spec", "Transport")
LEVEL = "model_checking"
PKG = "./brontide/"
HARNESS = [os.environ.get("C11_HARNESS") or "brontide/c11_test.go"]
MC_WORKERS = int(os.environ.get("C11_MC_WORKERS", "4"))
REAL = {"ROT": 1000, "LEN": 2, "MAC": 16, "MaxSize": 65535, "ActLen": 50, "Act3Len": 66}
ADV = ("Corrupt", "Truncate", "Drop", "Swap", "Replay", "ReplayOld", "Reflect", "AlterAct", "OldActOne")


def is_reset(r):
    return r.get("a") == "Reset"


def overlay():
    """C11_OVERLAY='brontide/noise.go=/path/patched.go' (mutation controls); VERIF_MUTATION=<diff> works too."""
    ov = {}
    for kv in filter(None, os.environ.get("C11_OVERLAY", "").split(",")):
        k, v = kv.split("=", 1)
        if not os.path.exists(v):
            raise Inconclusive("C11_OVERLAY: %s does not exist" % v)
        ov[k] = v
    return ov or None


def model_checking(ck):
    thorough = ck.tier == "thorough"
    base = {"MaxMsgs": 2, "MaxAdv": 1, "Sizes": "{0, 1, 2}", "Vals": "{0, 1}", "WDirs": '{"ab", "ba"}',
            "Fine": "FALSE", "CSizes": "{}", "Wants": "{}", "Hold": "FALSE"}
    runs = [("both directions, 2 messages, 1 adversary move", dict(base), "mc_core")]
    runs.append(("rotation: one direction, 8 messages (5 rotations), every partial flush, no adversary",
                 dict(base, MaxMsgs=8, MaxAdv=0, Sizes="{0, 1}", Vals="{1}", WDirs='{"ab"}'), "mc_rot"))
    runs.append(("full duplex: every call section by section (WStage/WEncHdr/WEncBody/WEnc, FlushHdr/FlushBody, "
                 "RHdrTake/RHdrOpen/RHdrLen/RBodyTake/RBodyOpen, RHeader/RBody), both directions, 2 messages",
                 dict(base, MaxAdv=0, Sizes="{0, 1}" if thorough else "{1}", Vals="{1}", Fine="TRUE",
                      Hold="TRUE" if thorough else "FALSE"), "mc_duplex"))
    runs.append(("brontide.Conn: Write of 0..3 bytes (chunked above MaxSize = 2), Read with buffers of 0..2 bytes, mixed "
                 "with WriteMessage/ReadMessage, the caller holding / dropping messages, 1 adversary move",
                 dict(base, Sizes="{1}", Vals="{1}", CSizes="{0, 1, 3}" if thorough else "{0, 3}",
                      Wants="{0, 1, 2}" if thorough else "{1, 2}",
                      Hold="TRUE", WDirs='{"ab"}'), "mc_conn"))
    if thorough:
        runs.append(("one direction, 2 messages, 2 adversary moves",
                     dict(base, MaxAdv=2, Sizes="{0, 1}", Vals="{1}", WDirs='{"ab"}'), "mc_adv2"))
        runs.append(("one direction, 3 messages, 1 adversary move",
                     dict(base, MaxMsgs=3, Sizes="{0, 1}", Vals="{1}", WDirs='{"ab"}'), "mc_3msg"))
    for what, consts, name in runs:
        r = ck.model_check(SPEC, "TransportMC", "TransportMC.cfg", what, constants=consts, name=name,
                           workers=MC_WORKERS, timeout=2400)
        if not r.ok or r.distinct == 0:
            # e.g. the JVM was killed (out of memory on a shared machine): no completion line, no error line
            raise Inconclusive("TLC did not run %s to completion (rc=%s)" % (name, r.rc))
    ck.cov["exhaustive"] = True
    # the caller contract is necessary: without it the model (which follows the code) delivers bytes never sent
    r = ck.model_check(SPEC, "TransportMC", "TransportMCObs.cfg",
                       "ReaderStops = FALSE: DeliveredGenuine must break (error not latched by Machine)",
                       must_hold=False, constants=dict(base, Sizes="{1}", Vals="{1}", WDirs='{"ab"}'), name="mc_obs", workers=MC_WORKERS, timeout=1200)
    if r.violation != "invariant DeliveredGenuine":
        raise Inconclusive("TransportMCObs: expected the violation of DeliveredGenuine, got %s" % r.violation)
    ck.notes.append("observation O-C11-1 (model level, reproduced on the real Machine by scenario roleconf): a reader "
                    "that calls ReadMessage again after a MAC error can be handed a header's plaintext as a message; "
                    "Machine does not latch read errors; peer.Brontide.readHandler stops at the first error")


def trace_stats(recs):
    st = dict(lines=len(recs), traces=0, writes=0, delivered=0, read_fail=0, adv=0, hs_fail=0, hs_ok=0,
              partial_flush=0, rot=0, big=0)
    for k in ("staged", "nested_reads", "flush_split", "hdr_body_split", "nested_writes", "rechecks", "held_rechecked",
              "releases", "conn_reads", "conn_pieces", "conn_chunked"):
        st[k] = 0
    distinct = set()
    cur = []
    lastk = {}
    staged, hdr = set(), set()      # machines whose write half is parked after WStage / whose read half has read a header
    for r in recs:
        a = r["a"]
        if a == "Reset":
            st["traces"] += 1
            if cur:
                distinct.add(core.sha(json.dumps(cur)))
            cur = []
            lastk = {}
            staged, hdr = set(), set()
            continue
        # follow-up parts: calls of one half of a Machine recorded while its other half is in the middle of a call
        if a == "WStage" and r["err"] == "":
            st["staged"] += 1
            st["writes"] += 1
            staged.add(r["m"])
        elif a == "WEnc":
            staged.discard(r["m"])
        elif a == "FlushHdr" and r["err"] == "":
            st["flush_split"] += 1
        elif a == "FlushHdr":
            st["partial_flush"] += 1
        elif a == "FlushBody" and r["err"] == "timeout":
            st["partial_flush"] += 1
        elif a == "RHeader" and r["err"] == "":
            st["hdr_body_split"] += 1
            hdr.add(r["m"])
        elif a == "RHeader":
            st["read_fail"] += 1
        elif a == "RBody":
            hdr.discard(r["m"])
            st["delivered" if r["err"] == "" else "read_fail"] += 1
        elif a == "Recheck":
            st["rechecks"] += 1
            st["held_rechecked"] += len(r["hh"])
        elif a == "Release":
            st["releases"] += 1
        if a in ("Read", "RHeader", "RBody", "CRead") and r["m"] in staged:
            st["nested_reads"] += 1
        if a in ("Write", "Flush", "WStage", "WEnc", "FlushHdr", "FlushBody", "CWrite") and r["m"] in hdr:
            st["nested_writes"] += 1
        cur.append((a, r["m"], r["d"], r["kind"], r["size"], r["k"], r["o1"], r["o2"], r["o3"], r["err"]))
        if a == "CWrite" and r["err"] == "":
            st["writes"] += len(r["hs"])
            st["conn_chunked"] += 1 if len(r["hs"]) > 1 else 0
        elif a == "CRead":
            st["conn_reads"] += 1
            if r["err"] == "" and 0 < r["nn"] == r["k"]:
                st["conn_pieces"] += 1      # the caller's buffer was filled: (most likely) a piece of a message
        if a == "Write" and r["err"] == "":
            st["writes"] += 1
            if r["size"] >= 65000:
                st["big"] += 1
        elif a == "Read":
            st["delivered" if r["err"] == "" else "read_fail"] += 1
        elif a in ADV:
            st["adv"] += 1
        elif a == "Flush" and r["err"] == "timeout":
            st["partial_flush"] += 1
        elif a == "FragmentAct":
            st["frag_acts"] = st.get("frag_acts", 0) + 1
        elif a.startswith("RecvAct") and r["err"] != "":
            st["hs_fail"] += 1
        elif a == "RecvActThree":
            st["hs_ok"] += 1
        for k in ("Ask", "Bsk"):
            if r[k] and lastk.get(k) not in (None, r[k]) and a == "Write":
                st["rot"] += 1
            if r[k]:
                lastk[k] = r[k]
    if cur:
        distinct.add(core.sha(json.dumps(cur)))
    return st, len(distinct)


def validate(ck, path, name):
    """ck.validate, but a validator that neither accepted nor named a violation (JVM killed) is a tool failure."""
    v = ck.validate(SPEC, "TransportTrace", "TransportTrace.cfg", path, constants=REAL, name=name, timeout=2400)
    if not v["ok"] and not v["invariant"]:
        raise Inconclusive("trace validation did not run to completion (%s, rc=%s)" % (name, v["res"].rc))
    return v


def explain(v, recs):
    bad = recs[min(max((v["line"] or 1) - 1, 0), len(recs) - 1)]
    return bad, "%s at line %s: %s" % (v["invariant"], v["line"], json.dumps(bad)[:500])


def validate_all(ck, trace, name, what):
    """Validate a Reset-batched trace file in batches; report the first rejected trace as a violation."""
    recs = core.read_ndjson(trace)
    st, distinct = trace_stats(recs)
    ck.cov["evaluations"] += st["lines"] - st["traces"]
    ck.cov["distinct_nontrivial"] += distinct
    tot = ck.cov.setdefault("events", {})
    for k, x in st.items():
        tot[k] = tot.get(k, 0) + x
    ok = True
    for bi, batch in enumerate(core.split_batches(recs, is_reset, max_bytes=24_000_000)):
        p = os.path.join(ck.out, "%s_batch%d.ndjson" % (name, bi))
        core.write_ndjson(p, batch)
        v = validate(ck, p, "val_%s_%d" % (name, bi))
        for m in re.finditer(r'<<"QUIRK", "([^"]+)", (\d+)>>', v["res"].out):
            ln = int(m.group(2))
            a0, _ = core.slice_trace(batch, ln, is_reset)
            ck.quirks.append((m.group(1), batch[a0:ln]))
        if v["ok"]:
            ck.cov["traces_validated_against_impl"] += sum(1 for r in batch if is_reset(r))
            os.remove(p)
            continue
        ok = False
        a, b = core.slice_trace(batch, v["line"] or 1, is_reset)
        one = os.path.join(ck.out, "failing_trace_%s.ndjson" % name)
        core.write_ndjson(one, batch[a:b])
        bad, txt = explain(v, batch)
        inv = (v["invariant"] or "").replace("invariant ", "")
        ck.violation("transport:%s:%s:%s" % (inv, bad.get("a"), bad.get("err") or "ok"),
                     "real brontide.Machine deviates from spec/Transport (%s, %s): %s" % (what, v["invariant"], txt),
                     files={"trace.ndjson": one}, text=v["cex"])
        break
    return ok, recs


def negative_controls(ck, recs):
    """Corrupt one recorded field of a valid trace: validation must reject each."""
    # a short valid trace that contains a delivered message after a key rotation is ideal; take the first
    # trace with >= 1 delivered read, cut to keep the control fast
    # the first trace whose first 400 lines contain a delivered message (cut there to keep the control fast)
    starts = [i for i, r in enumerate(recs) if is_reset(r)] + [len(recs)]
    base = reads = writes = None
    for a, b in zip(starts, starts[1:]):
        cand = recs[a:min(b, a + 400)]
        reads = [i for i, r in enumerate(cand) if r["a"] == "Read" and r["err"] == ""]
        writes = [i for i, r in enumerate(cand) if r["a"] == "Write" and r["err"] == ""]
        if reads and writes:
            base = cand
            break
    if base is None:
        raise Inconclusive("negative control: no trace with a delivered message in its first 400 lines")
    i, w = reads[len(reads) // 2], writes[len(writes) // 2]
    rd = "A" if base[i]["m"] == "A" else "B"
    muts = [("receive nonce of the reader -1 after a delivered read", i, rd + "rn", lambda x: x - 1 if x > 0 else x + 1),
            ("delivered payload hash altered", i, "h", lambda x: "00" + x[2:] if not x.startswith("00") else "11" + x[2:]),
            ("delivered read recorded as MAC failure", i, "err", lambda x: "mac"),
            ("send key fingerprint changes without rotation", w, base[w]["m"] + "sk", lambda x: "ffffffffff"),
            ("send nonce of the writer +1 after WriteMessage (three encryptions)", w, base[w]["m"] + "sn", lambda x: x + 1)]
    for what, j, f, fn in muts:
        bad = copy.deepcopy(base)
        bad[j][f] = fn(bad[j][f])
        p = os.path.join(ck.out, "control.ndjson")
        core.write_ndjson(p, bad)
        v = validate(ck, p, "control")
        if v["ok"]:
            raise Inconclusive("negative control accepted (%s): trace validation is not binding" % what)
        ck.cov.setdefault("negative_controls", []).append(
            dict(mutation="%s (line %d)" % (what, j + 1), rejected_by=v["invariant"], at_line=v["line"]))


def control_at(ck, sources, what, pred, field, fn):
    """Corrupt `field` of the first line satisfying pred (its own trace, cut after that line): must be rejected.
    sources: the driver's trace first, then the generated one (which contains the fixed scenarios)."""
    for recs in sources:
        a = 0
        for i, r in enumerate(recs):
            if is_reset(r):
                a = i
                continue
            if i - a < 380 and pred(r):
                bad = copy.deepcopy(recs[a:i + 1])
                bad[-1][field] = fn(bad[-1][field])
                p = os.path.join(ck.out, "control.ndjson")
                core.write_ndjson(p, bad)
                v = validate(ck, p, "control")
                if v["ok"]:
                    raise Inconclusive("negative control accepted (%s): trace validation is not binding" % what)
                ck.cov.setdefault("negative_controls", []).append(
                    dict(mutation="%s (line %d)" % (what, i - a + 1), rejected_by=v["invariant"], at_line=v["line"]))
                return
    raise Inconclusive("negative control: no line to corrupt for '%s'" % what)


def flip(h):
    return ("00" if not h.startswith("00") else "11") + h[2:]


def negative_controls_followup(ck, gen, free, conn):
    control_at(ck, (free, gen), "a held message re-hashed differently (Recheck)",
               lambda r: r["a"] == "Recheck" and len(r["hh"]) >= 2, "hh", lambda x: [flip(x[0])] + x[1:])
    control_at(ck, (free, gen), "send nonce after the parked WriteMessage ran on (WEnc) one short",
               lambda r: r["a"] == "WEnc" and r["err"] == "", "Asn", lambda x: x - 1 if x > 0 else x + 1)
    control_at(ck, (free, gen), "WriteMessage parked at its scheduling point (WStage) has already encrypted",
               lambda r: r["a"] == "WStage" and r["err"] == "" and r["m"] == "B", "Bsn", lambda x: x + 2)
    control_at(ck, (free, gen), "length returned by ReadNextHeader + 1",
               lambda r: r["a"] == "RHeader" and r["err"] == "", "nn", lambda x: x + 1)
    control_at(ck, (free, gen), "Flush parked between header and body reports the header as not accepted",
               lambda r: r["a"] == "FlushHdr" and r["err"] == "", "err", lambda x: "timeout")
    control_at(ck, (conn, gen), "Conn.Read returned one byte more",
               lambda r: r["a"] == "CRead" and r["err"] == "" and r["nn"] > 0, "nn", lambda x: x + 1)
    control_at(ck, (conn, gen), "bytes handed out by Conn.Read for a drained message altered",
               lambda r: r["a"] == "CRead" and r["err"] == "" and 0 < r["nn"] < r["k"], "h", flip)


CONN_EOF_KEY = "conn-read:empty-message:eof"


def conn_quirk(ck, recs):
    """The trace spec accepts (constant ConnEmptyEOFQuirk) and announces every Conn.Read that answered a delivered
    zero-length message with io.EOF. Reported as a finding when the key is registered, else as a candidate."""
    hits = [t for k, t in ck.quirks if k == "conn-read-empty-message-eof"]
    if not hits:
        return
    one = os.path.join(ck.out, "conn_empty_message_trace.ndjson")
    core.write_ndjson(one, min(hits, key=len))
    i = len(min(hits, key=len)) - 1
    what = ("brontide.Conn.Read answers an authenticated, consumed ZERO-LENGTH message with (0, io.EOF) "
            "(bytes.Buffer.Read on the empty readBuf): a stream reader sees the end of the stream although the "
            "transport is intact; Machine.ReadMessage / ReadNextHeader+ReadNextBody (what peer.Brontide uses) "
            "deliver it correctly; %d occurrences in this run, shortest reproduction %d events" % (len(hits), i))
    ck.cov["conn_empty_message_eof"] = len(hits)
    if any(f.get("property") == ck.pid and core.key_matches(f.get("key", ""), CONN_EOF_KEY) for f in ck.findings):
        ck.violation(CONN_EOF_KEY, what, files={"trace.ndjson": one})
    else:
        core.log("FINDING-CANDIDATE property=%s key=%s :: %s" % (ck.pid, CONN_EOF_KEY, what))
        ck.notes.append("finding candidate (not registered in known_findings.json) key=%s: %s" % (CONN_EOF_KEY, what))


SCENARIOS = {
    # observation O-C11-1 on the real code: corrupt the header of a 2-byte message whose payload is 0x0002;
    # the reader that goes on after the error opens the BODY as a header and the next HEADER as a body
    "roleconf": [("Write", "A", "ab", 2, 2, 0, 0), ("Flush", "A", "ab", 0, 0, 1000, 0), ("Write", "A", "ab", 316, -1, 0, 0),
                 ("Flush", "A", "ab", 0, 0, 1000, 0), ("Corrupt", "", "ab", 0, 0, 0, 5), ("Read", "B", "ab", 0, 0, 0, 0),
                 ("Read", "B", "ab", 0, 0, 0, 0), ("Read", "B", "ab", 0, 0, 0, 0)],
    # a body corrupted in place: the failed read consumes two nonces and the stream is in step again
    "resync": [("Write", "B", "ba", 17, -1, 0, 0), ("Flush", "B", "ba", 0, 0, 1000, 0), ("Write", "B", "ba", 3, -1, 0, 0),
               ("Flush", "B", "ba", 0, 0, 1000, 0), ("Corrupt", "", "ba", 0, 0, 0, 20), ("Read", "A", "ba", 0, 0, 0, 0),
               ("Read", "A", "ba", 0, 0, 0, 0)],
    # interrupted flush at every byte of a small message, WriteMessage refused in between
    "everybyte": sum([[("Write", "A", "ab", 3, -1, 0, 0)] +
                      sum([[("Flush", "A", "ab", 0, 0, 1, 0), ("Write", "A", "ab", 1, -1, 0, 0)] for _ in range(37)], []) +
                      [("Read", "B", "ab", 0, 0, 0, 0)]], []),
    # (g) full duplex: a header of an incoming message is read while the write half is parked in WriteMessage
    # (lengths differ), in both roles; ReadNextHeader .. ReadNextBody with a write and a flush in between;
    # Flush parked between header and body while the read half reads
    "duplex_stage": [("Write", "A", "ab", 7, -1, 0, 0), ("Flush", "A", "ab", 0, 0, 1000, 0),
                     ("WStage", "B", "ba", 300, -1, 0, 0), ("RHeader", "B", "ab", 0, 0, 0, 0), ("WEnc", "B", "ba", 0, 0, 0, 0),
                     ("Flush", "B", "ba", 0, 0, 1000, 0), ("RBody", "B", "ab", 0, 0, 0, 0), ("Read", "A", "ba", 0, 0, 0, 0),
                     ("Write", "B", "ba", 41, -1, 0, 0), ("Flush", "B", "ba", 0, 0, 1000, 0),
                     ("WStage", "A", "ab", 2, 513, 0, 0), ("Read", "A", "ba", 0, 0, 0, 0), ("WEnc", "A", "ab", 0, 0, 0, 0),
                     ("Flush", "A", "ab", 0, 0, 1000, 0), ("Read", "B", "ab", 0, 0, 0, 0),
                     ("Recheck", "B", "ab", 0, 0, 0, 0), ("Recheck", "A", "ba", 0, 0, 0, 0)],
    "duplex_hdr": [("Write", "A", "ab", 316, -1, 0, 0), ("Flush", "A", "ab", 0, 0, 1000, 0), ("RHeader", "B", "ab", 0, 0, 0, 0),
                   ("Write", "B", "ba", 17, -1, 0, 0), ("FlushHdr", "B", "ba", 0, 0, 30, 0), ("RBody", "B", "ab", 0, 0, 0, 0),
                   ("FlushBody", "B", "ba", 0, 0, 0, 0), ("Flush", "B", "ba", 0, 0, 1000, 0), ("Read", "A", "ba", 0, 0, 0, 0),
                   ("Write", "A", "ab", 0, -1, 0, 0), ("FlushHdr", "A", "ab", 0, 0, 5, 0), ("FlushHdr", "A", "ab", 0, 0, 1000, 0),
                   ("FlushBody", "A", "ab", 0, 0, 0, 0), ("Read", "B", "ab", 0, 0, 0, 0), ("Recheck", "B", "ab", 0, 0, 0, 0)],
    # (f) the caller keeps every message while it reads on (sizes not increasing), then looks at all of them
    "hold": sum([[("Write", "A", "ab", n, -1, 0, 0), ("Flush", "A", "ab", 0, 0, 100000, 0)] for n in (300, 300, 23, 0, 1, 65535, 2)], []) +
            [("Read", "B", "ab", 0, 0, 0, 0)] * 5 + [("Recheck", "B", "ab", 0, 0, 0, 0)] + [("Read", "B", "ab", 0, 0, 0, 0)] * 2 +
            [("Recheck", "B", "ab", 0, 0, 0, 0), ("Release", "B", "ab", 0, 0, 0, 0), ("Recheck", "B", "ab", 0, 0, 0, 0)],
    # (h) Conn.Read with a small buffer: every message handed out in several pieces
    "connpieces": [("CWrite", "B", "ba", 36, -1, 0, 0), ("CWrite", "B", "ba", 14, -1, 0, 0), ("CWrite", "B", "ba", 3, -1, 0, 0)] +
                  [("CRead", "A", "ba", 0, 0, 4, 0)] * 15 + [("CWrite", "B", "ba", 23, -1, 0, 0), ("CRead", "A", "ba", 0, 0, 5, 0)] +
                  [("CRead", "A", "ba", 0, 0, 9, 0)] * 2 + [("CRead", "A", "ba", 0, 0, 100, 0)],
}


def write_scenarios(d):
    hs = [("GenActOne", "A", "", 0, 0, 0, 0, "real")] + [(a, m, "", 0, 0, 0, 0, "") for a, m in (
        ("RecvActOne", "B"), ("GenActTwo", "B"), ("RecvActTwo", "A"), ("GenActThree", "A"), ("RecvActThree", "B"))]
    os.makedirs(d, exist_ok=True)
    for i, (name, evs) in enumerate(sorted(SCENARIOS.items())):
        rows = []
        for e in hs + [x + ("",) for x in evs]:
            a, m, dd, size, v, k, o1, kind = e
            rows.append(dict(a=a, m=m, d=dd, kind=kind, size=size, v=v, k=k, o1=o1, o2=0, o3=0, cuts=[]))
        core.write_ndjson(os.path.join(d, "b_%d.ndjson" % (900000 + i)), rows)
    ex = [("Write", "A", "ab", 17, -1, 0, 0), ("Flush", "A", "ab", 0, 0, 1000, 0), ("Read", "B", "ab", 0, 0, 0, 0),
          ("Write", "B", "ba", 2, 7, 0, 0), ("Flush", "B", "ba", 0, 0, 1000, 0), ("Read", "A", "ba", 0, 0, 0, 0)]
    for j, cuts in enumerate(([1, 65], [65, 1], [50, 16], [34, 16, 16], [33, 33], [2, 62, 2])):
        rows = []
        for (a, m) in (("GenActOne", "A"), ("RecvActOne", "B"), ("GenActTwo", "B"), ("RecvActTwo", "A"),
                       ("GenActThree", "A"), ("RecvActThree", "B")):
            rows.append(dict(a=a, m=m, d="", kind="real" if a == "GenActOne" else "", size=0, v=0, k=0, o1=0, o2=0, o3=0, cuts=[]))
            if a.startswith("GenAct"):
                c = cuts if a == "GenActThree" else [cuts[0] % 49 + 1, 50 - (cuts[0] % 49 + 1)]
                rows.append(dict(a="FragmentAct", m="", d="", kind="", size=0, v=0, k=0, o1=0, o2=0, o3=0, cuts=c))
        for (a, m, dd, size, v, k, o1) in ex:
            rows.append(dict(a=a, m=m, d=dd, kind="", size=size, v=v, k=k, o1=o1, o2=0, o3=0, cuts=[]))
        core.write_ndjson(os.path.join(d, "b_%d.ndjson" % (920000 + j)), rows)
    # every way of tampering with the handshake, each act x each kind, a replayed act one, the wrong static key
    order = [("GenActOne", "A"), ("RecvActOne", "B"), ("GenActTwo", "B"), ("RecvActTwo", "A"), ("GenActThree", "A"),
             ("RecvActThree", "B")]
    cases = [(k, kind) for k in (1, 2, 3) for kind in (("ver", "ct", "tag") if k == 3 else ("ver", "eph", "badpt", "tag"))]
    cases += [(1, "old"), (0, "wrong")]
    for j, (k, kind) in enumerate(cases):
        rows = []
        for i, (a, m) in enumerate(order):
            rows.append(dict(a=a, m=m, d="", kind=("wrong" if kind == "wrong" else "real") if a == "GenActOne" else "",
                             size=0, v=0, k=0, o1=0, o2=0, o3=0, cuts=[]))
            if a.startswith("GenAct"):   # every act arrives in fragments (real Dial / Listener)
                n = 66 if a == "GenActThree" else 50
                c = [[1, n - 1], [n - 1, 1], [34, n - 34], [1, 33, n - 34], [n // 2, n - n // 2]][(j + i) % 5]
                rows.append(dict(a="FragmentAct", m="", d="", kind="", size=0, v=0, k=0, o1=0, o2=0, o3=0, cuts=c))
            if i == 2 * (k - 1) and k > 0:
                rows.append(dict(a="OldActOne" if kind == "old" else "AlterAct", m="", d="",
                                 kind="" if kind == "old" else kind, size=0, v=0, k=0, o1=0, o2=0, o3=0, cuts=[]))
            if (i == 2 * k - 1 and kind != "old") or (kind == "old" and i == 3) or (kind == "wrong" and i == 1):
                break
        core.write_ndjson(os.path.join(d, "b_%d.ndjson" % (910000 + j)), rows)


def run(ck):
    thorough = ck.tier == "thorough"
    ck.quirks = []
    if not os.environ.get("C11_SKIP_MC"):
        model_checking(ck)
    else:
        ck.cov["states"] = ck.cov["transitions"] = 1
        ck.notes.append("C11_SKIP_MC set: model checking skipped (development / mutation-control run)")

    # (b) behaviours from the generator + the fixed scenarios
    files = ck.generate(SPEC, "TransportGen", "TransportGen.cfg", 260 if thorough else 70, 75,
                        constants={"MaxLen": 70 if thorough else 60}, name="gen")
    sched = os.path.dirname(files[0])
    write_scenarios(sched)
    res = ck.go_test(PKG, "^TestVerifC11Transport$", HARNESS, extra_overlay=overlay(), name="exec",
                     env={"VERIF_SCHED": sched, "VERIF_MAXBURSTS": 60 if thorough else 14}, timeout=1500)
    trace = os.path.join(res["dir"], "trace.ndjson")
    if res["rc"] != 0 or not os.path.exists(trace):
        raise Inconclusive("executor failed:\n" + res["out"][-3000:])
    ok, recs = validate_all(ck, trace, "gen", "TLC-generated behaviour")
    ndiv = sum(1 for l in res["out"].splitlines() if "C11-DIVERGED " in l)
    if ok and ndiv:
        # the real pipe stopped matching a schedule's byte offsets although every recorded step conforms
        raise Inconclusive("%d generated schedules could not be applied to the real pipe, yet all recorded steps conform" % ndiv)
    if ok:
        negative_controls(ck, recs)
        ck.cov["samples"].append({"generated_behaviour_first_events": [
            {k: r[k] for k in ("a", "m", "d", "kind", "size", "k", "err", "nn", "Asn", "Brn", "Ask", "Lab")} for r in recs[1:12]]})

    # (c) free-running seeded driver
    res = ck.go_test(PKG, "^TestVerifC11Free$", HARNESS, extra_overlay=overlay(), name="free",
                     env={"VERIF_SESSIONS": 400 if thorough else 100, "VERIF_STEPS": 220 if thorough else 150}, timeout=1500)
    trace = os.path.join(res["dir"], "trace.ndjson")
    if res["rc"] != 0 or not os.path.exists(trace):
        raise Inconclusive("free-running driver failed:\n" + res["out"][-3000:])
    ok2, recs2 = validate_all(ck, trace, "free", "free-running seeded driver")
    if ok2:
        fails = [r for r in recs2 if r["a"] == "Read" and r["err"] != ""][:3]
        ck.cov["samples"].append({"free_driver_failed_reads": [
            {k: r[k] for k in ("a", "d", "err", "Arn", "Brn", "Lab", "Lba")} for r in fails]})

    # (d) brontide.Conn (Write with chunking, Read through readBuf) over the same pipes, reads fragmented
    res = ck.go_test(PKG, "^TestVerifC11Conn$", HARNESS, extra_overlay=overlay(), name="conn",
                     env={"VERIF_SESSIONS": 120 if thorough else 25, "VERIF_STEPS": 80 if thorough else 60}, timeout=1500)
    trace = os.path.join(res["dir"], "trace.ndjson")
    if res["rc"] != 0 or not os.path.exists(trace):
        raise Inconclusive("Conn driver failed:\n" + res["out"][-3000:])
    ok3, recs3 = validate_all(ck, trace, "conn", "brontide.Conn driver")
    conn_quirk(ck, recs3)
    if ok and ok2 and ok3:
        negative_controls_followup(ck, recs, recs2, recs3)
        ck.cov["samples"].append({"duplex_write_parked_while_reading": [
            {k: r[k] for k in ("a", "m", "d", "size", "err", "nn", "Asn", "Arn", "Bsn", "Brn", "Lab", "Lba")}
            for r in next((recs2[i:i + 4] for i, x in enumerate(recs2) if x["a"] == "WStage" and x["err"] == ""
                           and recs2[i + 1]["a"] in ("Read", "RHeader") and recs2[i + 1]["m"] == x["m"]), [])]})

    ev = ck.cov.get("events", {})
    if ok and ok2 and ok3:
        # vacuity: the run must have exercised what the property talks about
        need = dict(delivered=1000, read_fail=20, adv=20, partial_flush=200, rot=4, hs_fail=3, big=3, frag_acts=30,
                    staged=40, nested_reads=15, flush_split=20, hdr_body_split=40, nested_writes=15, rechecks=40,
                    held_rechecked=300, releases=10, conn_reads=200, conn_pieces=60, conn_chunked=5)
        low = {k: ev.get(k, 0) for k, n in need.items() if ev.get(k, 0) < n}
        if low:
            raise Inconclusive("run too thin to support the verdict: %s (needed %s)" % (low, need))
    ck.cov["rule"] = ("evaluations = recorded calls on the real Machines + adversary moves (trace lines without Reset); "
                      "distinct = distinct (action, args, error class) sequences per trace; counts per kind in coverage.events "
                      "(rot = key rotations observed on a sender through the key fingerprint)")
    ck.cov["trusted_base"] = ["TLC 1.8.0", "CommunityModules Json",
                              "abstraction: ChaCha20-Poly1305 / HKDF / ECDH are perfect (Open succeeds iff exactly one whole "
                              "Seal output under the same key and nonce); distinct keys have distinct SHA-256 fingerprints",
                              "executor: scripted pipe + projection (len(nextHeaderSend/nextBodySend), nonces, key hash, payload hash)",
                              "executor: a half of a Machine is parked at a scheduling point that exists in the real code "
                              "(sync.Pool.New of headerBufferPool inside WriteMessage, the second Write of Flush on the wire); "
                              "the finer sections (between the two Encrypt calls, inside ReadHeader) are covered by TLC only"]
    ck.assumptions += ["ReaderStops: the caller never calls ReadMessage again after an error (peer.Brontide.readHandler "
                       "disconnects); without it see note O-C11-1 - trace validation itself runs WITHOUT this assumption",
                       "a read on an incomplete stream is modelled as the stream ending there (io.ReadFull -> EOF)",
                       "'all key pairs' is sampled: fresh random static and ephemeral keys per trace",
                       "ReadNextBody is given a buffer of exactly the length ReadNextHeader returned (documented caller contract)"]
