"""C08 A forwarding node never ends up out of pocket: hops settle or fail together.

Claimed for OBSERVED executions (DESIGN 4.4, 5 C08): the goroutine schedule of the three nodes is the Go
runtime's, not enumerated.

  (a) spec/Forwarding/Forwarding.tla - Bob's mechanism (forwarding packages, circuit map, mailboxes, the two
      links' transactions) over the BOLT 2 stages of each payment's HTLC on both channels; TLC checks the
      property's rules (ForwardingRules.tla) exhaustively for 1-2 payments of every kind in both directions
      under network restarts, reconnects and the message loss they cause: this decides the rules on the model.
  (b) spec/Forwarding/ForwardingGen.tla - TLC -simulate generates fault plans (payment batches around the dust
      and policy limits; valid/unknown/wrong-amount/hold/under-paid; restarts, reconnects, disconnects and cuts
      triggered by tap counts).
  (c) harness/htlcswitch/c08_test.go runs the plans (plus seeded free-running plans) on the REAL three-hop
      network (real switches, circuit maps, links, channels, invoice registries), every wire message stamped at
      send and at receipt under one mutex, and records the quiescent state.
  (d) spec/Forwarding/ForwardingTrace.tla replays the stamped sequence through the commitment bookkeeping of
      all four channel ends, derives the stages, and judges every state by the same rules, and the recorded
      quiescent state (balances, active HTLCs, circuits, payment results, invoices) by what the wire implies.
  (e) negative controls: a valid trace with Bob's upstream settle moved before the downstream settle / a
      balance changed must be rejected.
Named deviation O4 (an add stranded between CommitCircuits and the forwarder by a reconnect of the incoming link;
StrandQuirk; finding F22, repaired in /repo 1a31165) is reported under key C08:add-stranded-by-reconnect when a trace
needs it.
Finding F17 / observation O3 (a link did not send the commit_sig it owed after a reconnect; repaired in /repo
1abb1ae) stays in the specs as the named deviation OwedSigQuirk (FALSE in every committed run); the directed plan
spec/Forwarding/repro/O3_plan.ndjson runs with every batch, and a trace that validates only with the deviation
switched on is reported under the key below.
"""
import copy
import json
import os
import shutil

from .. import core
from ..core import Inconclusive

SPEC = os.path.join(core.VERIF, "spec", "Forwarding")
LEVEL = "model_checking"
HARNESS = ["htlcswitch/c08_test.go"]
O3_KEY = "C08:owed-commit-sig-not-resumed"
F21_KEY = "C08:fwdpkg-replay-index"
O4_KEY = "C08:add-stranded-by-reconnect"
# directed schedules executed with every batch (file name in the schedule dir -> source, key of the finding it guards)
DIRECTED = {"b_0.ndjson": ("O3_plan.ndjson", O3_KEY), "b_00.ndjson": ("F21_plan.ndjson", F21_KEY)}
ALLK = '{"ok", "reject", "hold", "underpaid"}'
BOTH = '{"fwd", "rev"}'

# (what, NP, Kinds, Dirs, MaxNet, MaxLink, OwedSigQuirk) - measured: 15k / 1.3M (23 s, 4 workers) / 6.0M (100 s) ...
MC_QUICK = [
    ("1 payment, every kind, both directions, 2 network restarts + 2 reconnects", 1, ALLK, BOTH, 2, 2, "FALSE"),
    ("2 payments ok/reject/underpaid, both directions, 1 restart + 1 reconnect", 2, '{"ok", "reject", "underpaid"}', BOTH, 1, 1, "FALSE"),
]
MC_THOROUGH = MC_QUICK + [
    ("2 payments, every kind, both directions, 1 restart + 1 reconnect", 2, ALLK, BOTH, 1, 1, "FALSE"),
    ("1 payment, every kind, 2 restarts + 2 reconnects, with the named deviations O3 (stalled signature) and O4 (stranded add)", 1, ALLK, BOTH, 2, 2, "TRUE"),
    ("2 payments ok/reject, one direction, 2 restarts + 1 reconnect", 2, '{"ok", "reject"}', '{"fwd"}', 2, 1, "FALSE"),
    ("1 payment, every kind, 3 network restarts + 3 reconnects", 1, ALLK, BOTH, 3, 3, "FALSE"),
]


def is_reset(r):
    return r.get("a") == "Reset"


def split_traces(recs):
    out, cur = [], []
    for r in recs:
        if is_reset(r) and cur:
            out.append(cur)
            cur = []
        cur.append(r)
    if cur:
        out.append(cur)
    return out


def short(r):
    if r.get("a") == "E":
        return "%s %s%s %s %s id=%s p=%s amt=%s" % (r["seq"], r["n"], r["io"], r["ch"], r["k"], r["id"], r["p"], r["amt"])
    return json.dumps(r, separators=(",", ":"))[:500]


def describe(tr):
    return "\n".join(short(r) for r in tr if not (r.get("a") == "E" and r["k"] in ("ready",)))


def validate(ck, path, quirk, name, strand=False):
    return ck.validate(SPEC, "ForwardingTrace", "ForwardingTrace.cfg", path,
                       constants={"OwedSigQuirk": "TRUE" if quirk else "FALSE",
                                  "StrandQuirk": "TRUE" if strand else "FALSE"}, name=name, timeout=2400)


def model_check(ck, thorough):
    for what, np_, kinds, dirs, mn, ml, quirk in (MC_THOROUGH if thorough else MC_QUICK):
        r = ck.model_check(SPEC, "ForwardingMC", "ForwardingMC.cfg", what,
                           constants={"NP": np_, "Kinds": kinds, "Dirs": dirs, "MaxNet": mn, "MaxLink": ml,
                                      "OwedSigQuirk": quirk, "StrandQuirk": quirk},
                           workers=4, timeout=2400, coverage=(thorough and np_ == 1 and mn == 2 and quirk == "FALSE"),
                           name="mc_np%d_%d%d_%s" % (np_, mn, ml, quirk[0]))
        if r.coverage_zero:
            ck.cov.setdefault("vacuous_actions", []).extend(r.coverage_zero)
    ck.cov["exhaustive"] = True


def report(ck, recs, v, quirk, tag):
    line = v["line"] or 1
    a, b = core.slice_trace(recs, line, is_reset)
    one = os.path.join(ck.out, "failing_%s.ndjson" % tag)
    core.write_ndjson(one, recs[a:b])
    bad = recs[min(line - 1, len(recs) - 1)]
    inv = (v["invariant"] or "").replace("invariant ", "").replace(" ", "_")
    where = bad.get("a")
    if where == "E":
        where = "%s:%s:%s" % (bad["n"], bad["io"], bad["k"])
    key = "C08:%s:%s" % (inv, where)
    what = ("real three-hop network deviates from spec/Forwarding: %s at line %d (line %d of the attached single "
            "trace, plan %s): %s" % (v["invariant"], line, line - a, recs[a].get("plan"), short(bad)))
    plan = [dict(p) for p in recs[a].get("pays", [])]
    ck.violation(key, what, files={"trace.ndjson": one},
                 text="OwedSigQuirk=%s\npayments=%s\n--- trace ---\n%s\n--- TLC (last state) ---\n%s" % (
                     quirk, json.dumps(plan), describe(recs[a:b]), v["cex"] or ""))
    return a, b


def negative_controls(ck, traces):
    """Corrupt one field / one order of a valid trace; the validator must reject each."""
    done = {}
    for tr in traces:
        if tr[-1].get("a") != "Quiesce" or tr[-1].get("ok") != 1:
            continue
        if any(r.get("a") == "Restart" for r in tr):
            continue
        # (1) Bob's upstream fulfill moved before the receipt of the downstream fulfill
        if "order" not in done:
            for i, r in enumerate(tr):
                if r.get("a") == "E" and r["n"] == "B" and r["io"] == "r" and r["k"] == "ful" and r["p"] > 0:
                    js = [j for j in range(i + 1, len(tr)) if tr[j].get("a") == "E" and tr[j]["n"] == "B"
                          and tr[j]["io"] == "s" and tr[j]["k"] == "ful" and tr[j]["p"] == r["p"]]
                    if js:
                        bad = copy.deepcopy(tr)
                        x = bad.pop(js[0])
                        bad.insert(i, x)
                        done["order"] = (bad, "Bob's update_fulfill upstream moved before the downstream one (payment %d)" % r["p"],
                                         "SettleOnlyWithDownstreamPreimage")
                        break
        # (2) Bob's upstream fail of a payment moved to right after the receipt of its downstream fail (before the
        #     downstream removal is irrevocable)
        if "fail" not in done:
            offered = {}
            for i, r in enumerate(tr):
                if r.get("a") != "E":
                    continue
                if r["k"] == "add" and r["io"] in ("s", "r"):
                    offered[(r["ch"], r["id"], r["io"] + r["n"])] = r["p"]
                if r["n"] == "B" and r["io"] == "r" and r["k"] == "fail":
                    pay = offered.get((r["ch"], r["id"], "sB"))
                    js = [j for j in range(i + 1, len(tr)) if tr[j].get("a") == "E" and tr[j]["n"] == "B"
                          and tr[j]["io"] == "s" and tr[j]["k"] == "fail" and tr[j]["ch"] != r["ch"]
                          and offered.get((tr[j]["ch"], tr[j]["id"], "rB")) == pay]
                    if pay and js and js[0] > i + 3:
                        bad = copy.deepcopy(tr)
                        x = bad.pop(js[0])
                        bad.insert(i + 1, x)
                        done["fail"] = (bad, "Bob's update_fail upstream moved to right after the downstream update_fail "
                                        "(payment %d)" % pay, "FailOnlyAfterDownstreamGone")
                        break
        # (3) one recorded balance changed by one satoshi
        if "balance" not in done:
            bad = copy.deepcopy(tr)
            bad[-1]["bal"][1] += 1000
            done["balance"] = (bad, "Bob's recorded balance on AB +1 sat", "QChannels")
        if len(done) == 3:
            break
    if "order" not in done or "balance" not in done:
        raise Inconclusive("no trace suitable for the negative controls")
    for name, (bad, what, expect) in done.items():
        p = os.path.join(ck.out, "control_%s.ndjson" % name)
        core.write_ndjson(p, bad)
        v = validate(ck, p, False, "control_" + name)
        if v["ok"]:
            raise Inconclusive("negative control accepted (%s): trace validation is not binding" % what)
        ck.cov.setdefault("negative_controls", []).append(
            dict(mutation=what, rejected_by=v["invariant"], at_line=v["line"]))


def run(ck):
    thorough = ck.tier == "thorough"
    if getattr(ck, "replay", None):
        if os.path.isdir(ck.replay):
            ck.replay = os.path.join(ck.replay, "trace.ndjson")
        v = validate(ck, ck.replay, False, "replay")
        recs = core.read_ndjson(ck.replay)
        if not v["ok"]:
            report(ck, recs, v, False, "replay")
        ck.cov["rule"] = "replay of one stored trace"
        ck.cov["samples"].append("replay %s -> %s" % (ck.replay, v["invariant"] or "accepted"))
        ck.cov["states"] = ck.cov["transitions"] = max(1, v["res"].distinct)
        return
    # (a) the rules on the model
    model_check(ck, thorough)
    # (b) fault plans
    nplans = 240 if thorough else 36
    files = ck.generate(SPEC, "ForwardingGen", "ForwardingGen.cfg", nplans * 2 + 10, 12, name="gen", timeout=600)
    files = files[:nplans]
    sched = os.path.dirname(files[0])
    keep = set(os.path.basename(f) for f in files)
    for f in os.listdir(sched):
        if f.startswith("b_") and f not in keep:
            os.remove(os.path.join(sched, f))
    # the deterministic reproductions of F17 (O3) and F21 run with every batch
    for name, (src, _) in DIRECTED.items():
        shutil.copy(os.path.join(SPEC, "repro", src), os.path.join(sched, name))
    # (c) execute on the real network: thorough under the race detector
    free = 160 if thorough else 14
    res = ck.go_test("./htlcswitch/", "^TestVerifC08Forwarding$", HARNESS,
                     env={"VERIF_SCHED": sched, "VERIF_FREE": free, "VERIF_PAR": 3},
                     race=thorough, timeout=3000 if thorough else 1500, name="exec")
    trace = os.path.join(res["dir"], "trace.ndjson")
    if not os.path.exists(trace) or os.path.getsize(trace) == 0:
        raise Inconclusive("executor produced no trace:\n" + res["out"][-3000:])
    if "DATA RACE" in res["out"]:
        ck.violation("C08:data-race", "the race detector reported a data race in the three-hop network",
                     text=res["out"][res["out"].find("DATA RACE") - 200:][:6000])
    elif res["rc"] != 0:
        raise Inconclusive("executor failed:\n" + res["out"][-3000:])
    recs = core.read_ndjson(trace)
    traces = split_traces(recs)
    nq = sum(1 for t in traces if t[-1].get("a") == "Quiesce" and t[-1].get("ok") == 1)
    ninc = len(traces) - nq
    ck.cov["runs"] = dict(total=len(traces), quiescent=nq, inconclusive=ninc,
                          with_network_restart=sum(1 for t in traces if any(r.get("a") == "Restart" and r["kind"] == "net" for r in t)),
                          with_reconnect=sum(1 for t in traces if any(r.get("a") == "Restart" and r["kind"] == "link" for r in t)),
                          with_disconnect=sum(1 for t in traces if any(r.get("a") == "Disc" for r in t)),
                          messages_lost=sum(1 for r in recs if r.get("a") == "E" and r["io"] == "d"),
                          payments=sum(t[0].get("np", 0) for t in traces),
                          settled=sum(sum(1 for x in t[-1].get("inv", []) if x == "settled") for t in traces if t[-1].get("a") == "Quiesce"))
    core.log("  [runs] %s" % json.dumps(ck.cov["runs"]))
    if ninc > max(2, len(traces) // 10):
        raise Inconclusive("%d of %d runs did not quiesce within the bound" % (ninc, len(traces)))
    # (d) validate: every trace must be a behaviour of the spec with every rule true in every state
    work = recs
    for attempt in range(6):
        p = os.path.join(ck.out, "batch_%d.ndjson" % attempt)
        core.write_ndjson(p, work)
        v = validate(ck, p, False, "val_%d" % attempt)
        if v["ok"]:
            break
        line = v["line"] or 1
        a, b = core.slice_trace(work, line, is_reset)
        one = os.path.join(ck.out, "single_%d.ndjson" % attempt)
        core.write_ndjson(one, work[a:b])
        plan = work[a].get("plan")
        o3_text = ("after a reconnect a link does not send the commit_sig it owes for the peer's updates (it had "
                   "revoked, the links went down before it signed): the update stays on one commitment - HTLC left "
                   "dangling at quiescence (F17), plan %s" % plan)
        ctx = "strict validation: %s at line %d\n%s\n%s" % (v["invariant"], line - a, describe(work[a:b]), v["cex"] or "")
        dangling = v["invariant"] in ("invariant QRules", "invariant QResults", "invariant QCircuits")
        if plan == "b_00.ndjson" and dangling:
            ck.violation(F21_KEY,
                         "processRemoteAdds indexes a replayed forwarding package by the position in the filtered list: after "
                         "two reconnects the exit hop's link dies on a replayed, already settled add and the next payment is "
                         "never answered (F21); %s at line %d" % (v["invariant"], line - a),
                         files={"trace.ndjson": one, "F21_plan.ndjson": os.path.join(SPEC, "repro", "F21_plan.ndjson")}, text=ctx)
        elif (plan == "b_0.ndjson" and dangling) or validate(ck, one, True, "val_%d_o3" % attempt)["ok"]:
            # the directed F17 schedule, or a trace that the named deviation O3 alone explains
            ck.violation(O3_KEY, o3_text,
                         files={"trace.ndjson": one, "O3_plan.ndjson": os.path.join(SPEC, "repro", "O3_plan.ndjson")}, text=ctx)
        elif validate(ck, one, False, "val_%d_o4" % attempt, strand=True)["ok"]:
            ck.violation(O4_KEY,
                         "an incoming HTLC is left locked in and unanswered at quiescence: the incoming link was "
                         "reconnected while ForwardPackets was between CommitCircuits and the hand-over to the forwarder "
                         "(routeAsync gives up on the link's quit); the re-forwarded add is dropped as a duplicate (F22, named "
                         "deviation O4), plan %s; repro findings/F22_repro_test.go.txt" % plan,
                         files={"trace.ndjson": one}, text=ctx)
        else:
            report(ck, work, v, False, "v%d" % attempt)
        work = work[:a] + work[b:]
        if not work:
            break
    accepted = work
    ck.cov["evaluations"] = len(recs)
    ck.cov["traces_validated_against_impl"] = len(split_traces(accepted))
    # the directed regression schedule of F17 must have been executed and must have ended settled
    o3 = [t for t in split_traces(recs) if t[0].get("plan") == "b_0.ndjson"]
    if not o3 or o3[0][-1].get("a") != "Quiesce":
        raise Inconclusive("the directed F17 schedule was not executed")
    ck.cov["f17_regression"] = dict(result=o3[0][-1].get("res"), invoice=o3[0][-1].get("inv"),
                                    cut_hit=any(r.get("a") == "Restart" for r in o3[0]))
    # (e) negative controls
    negative_controls(ck, split_traces(accepted))
    # evidence
    distinct = set()
    for t in split_traces(accepted):
        sig = [(r["n"], r["io"], r["ch"], r["k"], r["p"]) for r in t if r.get("a") == "E" and r["k"] not in ("reest", "ready")]
        sig += [(r["a"], r.get("kind"), r.get("ch")) for r in t if r.get("a") in ("Restart", "Disc", "HoldRes")]
        if any(x[3] in ("ful", "fail") for x in sig if len(x) == 5):
            distinct.add(core.sha(str(sig)))
    ck.cov["distinct_nontrivial"] = len(distinct)
    ck.cov["rule"] = ("fault plans from TLC -simulate (ForwardingGen) + %d seeded free-running plans, executed on the real "
                      "three-hop network%s; distinct = distinct stamped wire sequences (node, send/recv, channel, kind, "
                      "payment) with at least one HTLC answered; every line of every trace is one TLC step of "
                      "ForwardingTrace" % (free, " under -race" if thorough else ""))
    for t in split_traces(accepted)[:40]:
        if len(ck.cov["samples"]) >= 3:
            break
        if any(r.get("a") == "Restart" for r in t) or not ck.cov["samples"]:
            ck.cov["samples"].append({"plan": t[0].get("plan"), "payments": t[0].get("pays"),
                                      "faults": [short(r) for r in t if r.get("a") in ("Restart", "Disc", "HoldRes")],
                                      "wire_events": sum(1 for r in t if r.get("a") == "E"), "quiescent": t[-1]})
    ck.cov["trusted_base"] = ["TLC 1.8.0", "CommunityModules Json",
                              "executor taps (one mutex; receipt stamped before processing; send stamped before the message is queued)",
                              "fixture: htlcswitch three-hop mock servers, mock onion decoder, real channels/switch/circuit map/invoice registry",
                              "bookkeeping of ForwardingTrace (BOLT 2 cover sets) - cross-checked against recorded ActiveHtlcs and balances"]
    ck.assumptions += [
        "observed executions only: the goroutine interleaving inside a node is the Go runtime's, not enumerated",
        "a disconnect loses every message of the old connection; both links of a channel restart together (peer reconnect)",
        "invoice registry and preimage cache are durable across the network restart (carried over, as the repo's own restart test does)",
        "a run whose wire does not fall silent within the bound is inconclusive, never a violation",
        "O2 (a sender keeps the half-open circuit of an add lost before it was signed) is modelled as a named terminal shape; "
        "O3/F17 (owed commit_sig not resumed; repaired) stays as the named deviation OwedSigQuirk = FALSE, key " + O3_KEY,
    ]
