"""C08 A forwarding node never ends up out of pocket: hops settle or fail together.

Claimed for OBSERVED executions (DESIGN 4.4, 5 C08): the goroutine schedule of the three nodes is the Go
runtime's, not enumerated.

  (a) spec/Forwarding/Forwarding.tla - Bob's mechanism (forwarding packages, circuit map, mailboxes, the two
      links' transactions) over the BOLT 2 stages of each payment's HTLC on both channels; TLC checks the
      property's rules (ForwardingRules.tla) exhaustively for 1-2 payments of every kind in both directions
      under network restarts, reconnects and the message loss they cause: this decides the rules on the model.
  (b) spec/Forwarding/ForwardingGen.tla - TLC -simulate generates fault plans (payment batches around the dust
      and policy limits; valid/unknown/wrong-amount/hold/under-paid; restarts, reconnects, disconnects and cuts
      triggered by tap counts).
  (c) harness/htlcswitch/c08_test.go runs the plans (plus seeded free-running plans) on the REAL three-hop
      network (real switches, circuit maps, links, channels, invoice registries), every wire message stamped at
      send and at receipt under one mutex, and records the quiescent state.
  (d) spec/Forwarding/ForwardingTrace.tla replays the stamped sequence through the commitment bookkeeping of
      all four channel ends, derives the stages, and judges every state by the same rules, and the recorded
      quiescent state (balances, active HTLCs, circuits, payment results, invoices) by what the wire implies.
  (e) negative controls: a valid trace with Bob's upstream settle moved before the downstream settle / a
      balance changed must be rejected.
Two sequential sibling parts bind the DURABLE side of a response on its way back (same go test run):
  SwitchAck.tla  - the outgoing channel's forwarding package (LockedIn/Processed, SettleFailFilter, garbage collector
      = the real channelLink.loadAndRemove) against the real Switch: ack only after teardown, removal only when complete,
      start-up re-forwards the un-acked response of a package in ANY state (harness/htlcswitch/c08_switch_test.go);
  CloseKeys.tla  - the incoming link: the CommitDiff written with the signature names the circuit of every settle AND
      fail it covers, so that after a crash between the signature and DeleteCircuits the link's syncChanStates deletes
      them (real channelLink.handleDownstreamPkt / syncChanStates on a real channel pair, c08_closekeys_test.go);
  Mailbox.tla    - the mailbox's delivery order across resets.
Named deviation O4 (an add stranded between CommitCircuits and the forwarder by a reconnect of the incoming link;
StrandQuirk; finding F22, repaired in /repo 1a31165) is reported under key C08:add-stranded-by-reconnect when a trace
needs it.
Finding F17 / observation O3 (a link did not send the commit_sig it owed after a reconnect; repaired in /repo
1abb1ae) stays in the specs as the named deviation OwedSigQuirk (FALSE in every committed run); the directed plan
spec/Forwarding/repro/O3_plan.ndjson runs with every batch, and a trace that validates only with the deviation
switched on is reported under the key below.
"""
import copy
import json
import os
import re
import shutil

from .. import core
from ..core import Inconclusive

SPEC = os.path.join(core.VERIF, "spec", "Forwarding")
LEVEL = "model_checking"
HARNESS = ["htlcswitch/c08_test.go", "htlcswitch/c08_switch_test.go", "htlcswitch/c08_mailbox_test.go",
           "htlcswitch/c08_closekeys_test.go"]
LOST_KEY = "C08:response-not-replayed-after-link-flap"
SWACK_KEY = "C08:switch-ack"
SWACK_CONST = {"AckWhileClosing": "FALSE", "GCIgnoresSettleFails": "FALSE", "ReforwardSkipsLockedIn": "FALSE"}
# directed switch-level schedules executed with every batch: the package still FwdStateLockedIn at a restart
# (settle / fail), and the garbage collector running at every stage of a package's life
SWACK_DIRECTED = {"b_0.ndjson": "swack_settle.ndjson", "b_00.ndjson": "swack_fail.ndjson",
                  "b_000.ndjson": "swack_lockedin.ndjson", "b_0000.ndjson": "swack_lockedin_fail.ndjson",
                  "b_00000.ndjson": "swack_gc.ndjson", "b_000000.ndjson": "swack_gc_fail.ndjson"}
MBOX_KEY = "C08:mailbox"
CLOSEKEYS_KEY = "C08:close-keys"
CLOSEKEYS_CONST = {"N": 3, "DropFailKeys": "FALSE"}
CLOSEKEYS_DIRECTED = {"b_0.ndjson": "closekeys_crash.ndjson", "b_00.ndjson": "closekeys_crash2.ndjson"}
O3_KEY = "C08:owed-commit-sig-not-resumed"
F21_KEY = "C08:fwdpkg-replay-index"
O4_KEY = "C08:add-stranded-by-reconnect"
# directed schedules executed with every batch (file name in the schedule dir -> source, key of the finding it guards)
DIRECTED = {"b_0.ndjson": ("O3_plan.ndjson", O3_KEY), "b_00.ndjson": ("F21_plan.ndjson", F21_KEY),
            # the hand-over of a locked-in settle / fail to the switch is lost at a link stop, the channel reconnects
            "b_000.ndjson": ("lost_fwd_ok.ndjson", LOST_KEY), "b_0000.ndjson": ("lost_fwd_unknown.ndjson", LOST_KEY),
            "b_00000.ndjson": ("lost_rev_ok.ndjson", LOST_KEY), "b_000000.ndjson": ("lost_rev_unknown.ndjson", LOST_KEY)}
ALLK = '{"ok", "reject", "hold", "underpaid"}'
BOTH = '{"fwd", "rev"}'

# (what, NP, Kinds, Dirs, MaxNet, MaxLink, OwedSigQuirk) - measured: 15k / 1.3M (23 s, 4 workers) / 6.0M (100 s) ...
MC_QUICK = [
    ("1 payment, every kind, both directions, 2 network restarts + 2 reconnects", 1, ALLK, BOTH, 2, 2, "FALSE"),
    ("2 payments ok/reject/underpaid, both directions, 1 restart + 1 reconnect", 2, '{"ok", "reject", "underpaid"}', BOTH, 1, 1, "FALSE"),
]
MC_THOROUGH = MC_QUICK + [
    ("2 payments, every kind, both directions, 1 restart + 1 reconnect", 2, ALLK, BOTH, 1, 1, "FALSE"),
    ("1 payment, every kind, 2 restarts + 2 reconnects, with the named deviations O3 (stalled signature) and O4 (stranded add)", 1, ALLK, BOTH, 2, 2, "TRUE"),
    ("2 payments ok/reject, one direction, 2 restarts + 1 reconnect", 2, '{"ok", "reject"}', '{"fwd"}', 2, 1, "FALSE"),
    ("1 payment, every kind, 3 network restarts + 3 reconnects", 1, ALLK, BOTH, 3, 3, "FALSE"),
]


def is_reset(r):
    return r.get("a") == "Reset"


def split_traces(recs):
    out, cur = [], []
    for r in recs:
        if is_reset(r) and cur:
            out.append(cur)
            cur = []
        cur.append(r)
    if cur:
        out.append(cur)
    return out


def short(r):
    if r.get("a") == "E":
        return "%s %s%s %s %s id=%s p=%s amt=%s" % (r["seq"], r["n"], r["io"], r["ch"], r["k"], r["id"], r["p"], r["amt"])
    return json.dumps(r, separators=(",", ":"))[:500]


def describe(tr):
    return "\n".join(short(r) for r in tr if not (r.get("a") == "E" and r["k"] in ("ready",)))


def validate(ck, path, quirk, name, strand=False):
    return ck.validate(SPEC, "ForwardingTrace", "ForwardingTrace.cfg", path,
                       constants={"OwedSigQuirk": "TRUE" if quirk else "FALSE",
                                  "StrandQuirk": "TRUE" if strand else "FALSE"}, name=name, timeout=2400)


def model_check(ck, thorough):
    for what, np_, kinds, dirs, mn, ml, quirk in (MC_THOROUGH if thorough else MC_QUICK):
        r = ck.model_check(SPEC, "ForwardingMC", "ForwardingMC.cfg", what,
                           constants={"NP": np_, "Kinds": kinds, "Dirs": dirs, "MaxNet": mn, "MaxLink": ml,
                                      "OwedSigQuirk": quirk, "StrandQuirk": quirk, "ReplayOnLinkStart": "TRUE"},
                           workers=4, timeout=2400, coverage=(thorough and np_ == 1 and mn == 2 and quirk == "FALSE"),
                           name="mc_np%d_%d%d_%s" % (np_, mn, ml, quirk[0]))
        if r.coverage_zero:
            ck.cov.setdefault("vacuous_actions", []).extend(r.coverage_zero)
    # the two small sequential specs, exhaustively
    ck.model_check(SPEC, "SwitchAckMC", "SwitchAckMC.cfg",
                   "SwitchAck: one circuit, one package (LockedIn/Processed, acked, garbage-collected), settle and fail, "
                   "every order of Pipe/Revoke/Hand/Lock/Commit/Tick/GC/Restart",
                   constants=SWACK_CONST, workers=2, timeout=300, name="mc_switchack")
    ck.model_check(SPEC, "CloseKeysMC", "CloseKeysMC.cfg",
                   "CloseKeys: %d incoming HTLCs, settle/fail each, every order of Deliver/DeliverCrash/PeerAck/Restart" % (4 if thorough else 3),
                   constants=dict(CLOSEKEYS_CONST, N=4 if thorough else 3), workers=2, timeout=600, name="mc_closekeys")
    ck.model_check(SPEC, "MailboxMC", "MailboxMC.cfg", "Mailbox: %d packets, every order of add/pick/deliver/ack/reset" % (5 if thorough else 4),
                   constants={"Ids": "{1, 2, 3, 4, 5}" if thorough else "{1, 2, 3, 4}", "ResetKeepsOffered": "FALSE"},
                   workers=4, timeout=900, name="mc_mailbox")
    # witnesses: each named defect switch must break the rule it is about (the rules are not vacuous)
    for mod, cfg, consts, want, what in (
            ("ForwardingMC", "ForwardingMC.cfg",
             {"NP": 1, "Kinds": ALLK, "Dirs": '{"fwd"}', "MaxNet": 0, "MaxLink": 1, "OwedSigQuirk": "FALSE",
              "StrandQuirk": "FALSE", "ReplayOnLinkStart": "FALSE"}, "QuiescenceRules",
             "witness: without the replay of unacked settles/fails at link start the quiescence rules fail"),
            ("SwitchAckMC", "SwitchAckMC.cfg", dict(SWACK_CONST, AckWhileClosing="TRUE"), "AckOnlyAfterTeardown",
             "witness: acking while the circuit is closing breaks AckOnlyAfterTeardown"),
            ("SwitchAckMC", "SwitchAckMC.cfg", dict(SWACK_CONST, GCIgnoresSettleFails="TRUE"), "RemovedOnlyWhenDone",
             "witness: a garbage collector that looks at the adds' AckFilter only removes the package of a live circuit"),
            ("SwitchAckMC", "SwitchAckMC.cfg", dict(SWACK_CONST, ReforwardSkipsLockedIn="TRUE"), "NothingStranded",
             "witness: a start-up that skips FwdStateLockedIn packages strands the response of a live circuit"),
            ("CloseKeysMC", "CloseKeysMC.cfg", dict(CLOSEKEYS_CONST, DropFailKeys="TRUE"), "NoCircuitLeftBehind",
             "witness: a CommitDiff that names the circuits of settles only leaves the circuit of a failed HTLC behind after a crash"),
            ("MailboxMC", "MailboxMC.cfg", {"Ids": "{1, 2, 3}", "ResetKeepsOffered": "TRUE"}, "NothingSkipped",
             "witness: a reset that keeps the offered reply's head skips the consumed one")):
        r = ck.model_check(SPEC, mod, cfg, what, must_hold=False, constants=consts, workers=2, timeout=300,
                           name="wit_%s_%s" % (mod, want))
        if r.violation != "invariant " + want:
            raise Inconclusive("%s: expected a violation of %s, got %s" % (what, want, r.violation))
    ck.cov["exhaustive"] = True


def is_new(r):
    return r.get("a") in ("Reset", "New")


def split_new(recs):
    out = []
    for r in recs:
        if r.get("a") in ("Reset", "New") or not out:
            out.append([])
        out[-1].append(r)
    return out


def small_parts(ck, res, thorough):
    """The switch-level and the mailbox traces of the same go test run."""
    # ---- switch level: deterministic, conformance as invariants
    p = os.path.join(res["dir"], "trace_switch.ndjson")
    if not os.path.exists(p) or os.path.getsize(p) == 0:
        raise Inconclusive("switch-level executor produced no trace:\n" + res["out"][-2000:])
    recs = core.read_ndjson(p)
    v = ck.validate(SPEC, "SwitchAckTrace", "SwitchAckTrace.cfg", p, constants=SWACK_CONST, name="val_switch")
    ntr = sum(1 for r in recs if r["a"] == "Reset")
    ck.cov["evaluations"] += len(recs)
    ck.cov["switch_level"] = dict(traces=ntr, steps=len(recs) - ntr,
                                  steps_by_action={a: sum(1 for r in recs if r["a"] == a) for a in
                                                   ("Pipe", "Revoke", "Hand", "Lock", "Commit", "Tick", "GC", "Restart")},
                                  restarts_with_lockedin_pkg=sum(1 for i, r in enumerate(recs) if r["a"] == "Restart"
                                                                 and recs[i - 1]["npkg"] == 1 and recs[i - 1]["proc"] == 0),
                                  gc_with_unacked_pkg=sum(1 for i, r in enumerate(recs) if r["a"] == "GC"
                                                          and recs[i - 1]["npkg"] == 1 and recs[i - 1]["acked"] == 0),
                                  gc_removals=sum(1 for i, r in enumerate(recs) if r["a"] == "GC"
                                                  and recs[i - 1]["npkg"] == 1 and r["npkg"] == 0),
                                  distinct=len(set(core.sha(str([(r["a"], r["pending"], r["npkg"], r["proc"], r["acked"], r["got"])
                                                                 for r in t])) for t in split_new(recs))))
    if not v["ok"]:
        line = v["line"] or 1
        a, b = core.slice_trace(recs, line, is_new)
        one = os.path.join(ck.out, "failing_switch.ndjson")
        core.write_ndjson(one, recs[a:b])
        bad = recs[min(line - 1, len(recs) - 1)]
        inv = (v["invariant"] or "").replace("invariant ", "")
        prev = recs[max(a, min(line - 2, len(recs) - 1))]
        # the package the step found: none / lockedin / processed / acked
        found = ("none" if prev.get("npkg") == 0 else "acked" if prev.get("acked") == 1 else
                 "processed" if prev.get("proc") == 1 else "lockedin")
        # (keys of the earlier shape stay as they were; the package state is named when it is the new one)
        ck.violation("%s:%s:%s%s" % (SWACK_KEY, inv, bad.get("a"), ":pkg-lockedin" if found == "lockedin" else ""),
                     "real Switch / forwarding-package store deviates from spec/Forwarding/SwitchAck (%s) at step %d of "
                     "schedule %s (package before the step: %s): %s - a settle/fail must be acked in the outgoing channel's "
                     "forwarding package only after the incoming link has torn the circuit down, the package must stay until "
                     "then, and a restart must re-forward the un-acked response of a package in any state"
                     % (v["invariant"], line - a, recs[a].get("plan"), found, json.dumps(bad)),
                     files={"trace.ndjson": one}, text="\n".join(json.dumps(r) for r in recs[a:b]) + "\n" + (v["cex"] or ""))
    else:
        ck.cov["traces_validated_against_impl"] += ntr
        bad = copy.deepcopy(recs)
        i = next(k for k, r in enumerate(bad) if r["a"] == "Tick")
        bad[i]["acked"] = 1 - bad[i]["acked"]
        q = os.path.join(ck.out, "control_switch.ndjson")
        core.write_ndjson(q, bad)
        vv = ck.validate(SPEC, "SwitchAckTrace", "SwitchAckTrace.cfg", q, constants=SWACK_CONST, name="control_switch")
        if vv["ok"]:
            raise Inconclusive("negative control accepted (switch level)")
        ck.cov.setdefault("negative_controls", []).append(dict(mutation="switch level: recorded SettleFailFilter bit flipped at a Tick",
                                                               rejected_by=vv["invariant"], at_line=vv["line"]))
        # the new fields: the package disappears at a GC that found it un-acked / nothing is delivered at a
        # restart that found the package LockedIn
        for what, pick, field in (
                ("switch level: recorded package presence flipped at a GC that found the package un-acked",
                 lambda i, r: r["a"] == "GC" and recs[i - 1]["npkg"] == 1 and recs[i - 1]["acked"] == 0, "npkg"),
                ("switch level: recorded delivery flipped at a Restart that found the package LockedIn",
                 lambda i, r: r["a"] == "Restart" and recs[i - 1]["npkg"] == 1 and recs[i - 1]["proc"] == 0, "got")):
            i = next((k for k, r in enumerate(recs) if k > 0 and pick(k, r)), None)
            if i is None:
                raise Inconclusive("no switch-level trace suitable for the negative control: " + what)
            bad = copy.deepcopy(recs)
            bad[i][field] = 1 - bad[i][field]
            q = os.path.join(ck.out, "control_switch_%s.ndjson" % field)
            core.write_ndjson(q, bad)
            vv = ck.validate(SPEC, "SwitchAckTrace", "SwitchAckTrace.cfg", q, constants=SWACK_CONST, name="control_switch_" + field)
            if vv["ok"]:
                raise Inconclusive("negative control accepted (%s)" % what)
            ck.cov.setdefault("negative_controls", []).append(dict(mutation=what, rejected_by=vv["invariant"], at_line=vv["line"]))
    # ---- incoming link: the circuits a signature closes, across the crash between signature and DeleteCircuits
    p = os.path.join(res["dir"], "trace_closekeys.ndjson")
    if not os.path.exists(p) or os.path.getsize(p) == 0:
        raise Inconclusive("close-keys executor produced no trace:\n" + res["out"][-2000:])
    recs = core.read_ndjson(p)
    v = ck.validate(SPEC, "CloseKeysTrace", "CloseKeysTrace.cfg", p, constants=CLOSEKEYS_CONST, name="val_closekeys")
    ntr = sum(1 for r in recs if r["a"] == "Reset")
    ck.cov["evaluations"] += len(recs)
    ck.cov["close_keys"] = dict(traces=ntr, steps=len(recs) - ntr,
                                crashes=sum(1 for r in recs if r["a"] == "DeliverCrash"),
                                restarts=sum(1 for r in recs if r["a"] == "Restart"),
                                restarts_recovering_keys=sum(1 for r in recs if r["a"] == "Restart" and r["closed"]),
                                recovered_fail_keys=sum(sum(1 for k in r["closed"] if r["kinds"][k - 1] == "fail")
                                                        for r in recs if r["a"] == "Restart"),
                                recovered_settle_keys=sum(sum(1 for k in r["closed"] if r["kinds"][k - 1] == "settle")
                                                          for r in recs if r["a"] == "Restart"),
                                executor_notes=sorted(set(r["note"] for r in recs if r.get("note")))[:5],
                                distinct=len(set(core.sha(str([(r["a"], r["k"], r["circs"], r["closed"], r["active"],
                                                                r["kinds"]) for r in t])) for t in split_new(recs))))
    if not v["ok"]:
        line = v["line"] or 1
        a, b = core.slice_trace(recs, line, is_new)
        one = os.path.join(ck.out, "failing_closekeys.ndjson")
        core.write_ndjson(one, recs[a:b])
        bad = recs[min(line - 1, len(recs) - 1)]
        inv = (v["invariant"] or "").replace("invariant ", "")
        kinds = bad.get("kinds") or []
        ck.violation("%s:%s:%s" % (CLOSEKEYS_KEY, inv, bad.get("a")),
                     "real incoming channelLink / lnwallet channel deviates from spec/Forwarding/CloseKeys (%s) at step %d of "
                     "schedule %s (kinds %s): %s - the commitment diff written with a signature must name the circuit of every "
                     "settle and fail it covers, so that a restart after the signature deletes them: no circuit is left "
                     "for a finished HTLC" % (v["invariant"], line - a, recs[a].get("plan"), kinds, json.dumps(bad)),
                     files={"trace.ndjson": one}, text="\n".join(json.dumps(r) for r in recs[a:b]) + "\n" + (v["cex"] or ""))
    else:
        ck.cov["traces_validated_against_impl"] += ntr
        i = next((k for k, r in enumerate(recs) if r["a"] == "Restart" and r["closed"]
                  and recs[k - 1]["a"] == "DeliverCrash"), None)
        if i is None:
            raise Inconclusive("no close-keys trace suitable for the negative control")
        for what, field in (("close-keys: one recovered key removed at a Restart after a crash", "closed"),
                            ("close-keys: a deleted circuit recorded as still present at a Restart after a crash", "circs")):
            bad = copy.deepcopy(recs)
            if field == "closed":
                bad[i]["closed"] = bad[i]["closed"][1:]
            else:
                bad[i]["circs"] = sorted(set(bad[i]["circs"]) | set(recs[i]["closed"]))
            q = os.path.join(ck.out, "control_closekeys_%s.ndjson" % field)
            core.write_ndjson(q, bad)
            vv = ck.validate(SPEC, "CloseKeysTrace", "CloseKeysTrace.cfg", q, constants=CLOSEKEYS_CONST, name="control_closekeys_" + field)
            if vv["ok"]:
                raise Inconclusive("negative control accepted (%s)" % what)
            ck.cov.setdefault("negative_controls", []).append(dict(mutation=what, rejected_by=vv["invariant"], at_line=vv["line"]))
    # ---- mailbox: silent courier steps, accepted iff TLC reaches the end of the file (violates NotDone)
    p = os.path.join(res["dir"], "trace_mailbox.ndjson")
    if not os.path.exists(p) or os.path.getsize(p) == 0:
        raise Inconclusive("mailbox executor produced no trace:\n" + res["out"][-2000:])
    recs = core.read_ndjson(p)

    def val_mailbox(path, name):
        v = ck.validate(SPEC, "MailboxTrace", "MailboxTrace.cfg", path, constants={"ResetKeepsOffered": "FALSE"}, name=name)
        hw = [int(x) for x in re.findall(r'<<"highwater", (\d+)>>', v["res"].out)]
        if v["invariant"] == "invariant NotDone":
            v.update(ok=True, invariant=None, line=None)
            ck.cov["validations"][-1]["result"] = "accepted (end of file reachable)"
        elif v["ok"]:
            v.update(ok=False, invariant="no placement of the courier's silent steps explains the recorded answers",
                     line=max(hw) if hw else 1)
            ck.cov["validations"][-1]["result"] = "rejected at line %s" % v["line"]
        return v
    v = val_mailbox(p, "val_mailbox")
    ntr = sum(1 for r in recs if r["a"] == "New")
    ck.cov["evaluations"] += len(recs)
    ck.cov["mailbox"] = dict(traces=ntr, steps=len(recs) - ntr,
                             resets=sum(1 for r in recs if r["a"] == "Reset"),
                             deliveries=sum(1 for r in recs if r["a"] == "Recv" and r["id"] != 0))
    if not v["ok"]:
        line = v["line"] or 1
        a, b = core.slice_trace(recs, line, is_new)
        one = os.path.join(ck.out, "failing_mailbox.ndjson")
        core.write_ndjson(one, recs[a:b])
        bad = recs[min(line - 1, len(recs) - 1)]
        ck.violation("%s:%s" % (MBOX_KEY, "redelivery-after-reset" if any(r["a"] == "Reset" for r in recs[a:line]) else bad.get("a")),
                     "real memoryMailBox deviates from spec/Forwarding/Mailbox: %s at step %d of schedule %s: %s" % (
                         v["invariant"], line - a, recs[a].get("plan"), json.dumps(bad)),
                     files={"trace.ndjson": one}, text="\n".join(json.dumps(r) for r in recs[a:b]))
    else:
        ck.cov["traces_validated_against_impl"] += ntr
        # negative control: the first trace with two consecutive deliveries, swapped
        bad = copy.deepcopy(recs)
        k = next((i for i in range(len(bad) - 1) if bad[i]["a"] == "Recv" and bad[i + 1]["a"] == "Recv"
                  and bad[i]["id"] != 0 and bad[i + 1]["id"] != 0), None)
        if k is None:
            raise Inconclusive("no mailbox trace suitable for the negative control")
        bad[k]["id"], bad[k + 1]["id"] = bad[k + 1]["id"], bad[k]["id"]
        q = os.path.join(ck.out, "control_mailbox.ndjson")
        core.write_ndjson(q, bad)
        vv = val_mailbox(q, "control_mailbox")
        if vv["ok"]:
            raise Inconclusive("negative control accepted (mailbox)")
        ck.cov.setdefault("negative_controls", []).append(dict(mutation="mailbox: two consecutive deliveries swapped",
                                                               rejected_by=vv["invariant"], at_line=vv["line"]))


def report(ck, recs, v, quirk, tag):
    line = v["line"] or 1
    a, b = core.slice_trace(recs, line, is_reset)
    one = os.path.join(ck.out, "failing_%s.ndjson" % tag)
    core.write_ndjson(one, recs[a:b])
    bad = recs[min(line - 1, len(recs) - 1)]
    inv = (v["invariant"] or "").replace("invariant ", "").replace(" ", "_")
    where = bad.get("a")
    if where == "E":
        where = "%s:%s:%s" % (bad["n"], bad["io"], bad["k"])
    key = "C08:%s:%s" % (inv, where)
    what = ("real three-hop network deviates from spec/Forwarding: %s at line %d (line %d of the attached single "
            "trace, plan %s): %s" % (v["invariant"], line, line - a, recs[a].get("plan"), short(bad)))
    plan = [dict(p) for p in recs[a].get("pays", [])]
    ck.violation(key, what, files={"trace.ndjson": one},
                 text="OwedSigQuirk=%s\npayments=%s\n--- trace ---\n%s\n--- TLC (last state) ---\n%s" % (
                     quirk, json.dumps(plan), describe(recs[a:b]), v["cex"] or ""))
    return a, b


def negative_controls(ck, traces):
    """Corrupt one field / one order of a valid trace; the validator must reject each."""
    done = {}
    for tr in traces:
        if tr[-1].get("a") != "Quiesce" or tr[-1].get("ok") != 1:
            continue
        if any(r.get("a") == "Restart" for r in tr):
            continue
        # (1) Bob's upstream fulfill moved before the receipt of the downstream fulfill
        if "order" not in done:
            for i, r in enumerate(tr):
                if r.get("a") == "E" and r["n"] == "B" and r["io"] == "r" and r["k"] == "ful" and r["p"] > 0:
                    js = [j for j in range(i + 1, len(tr)) if tr[j].get("a") == "E" and tr[j]["n"] == "B"
                          and tr[j]["io"] == "s" and tr[j]["k"] == "ful" and tr[j]["p"] == r["p"]]
                    if js:
                        bad = copy.deepcopy(tr)
                        x = bad.pop(js[0])
                        bad.insert(i, x)
                        done["order"] = (bad, "Bob's update_fulfill upstream moved before the downstream one (payment %d)" % r["p"],
                                         "SettleOnlyWithDownstreamPreimage")
                        break
        # (2) Bob's upstream fail of a payment moved to right after the receipt of its downstream fail (before the
        #     downstream removal is irrevocable)
        if "fail" not in done:
            offered = {}
            for i, r in enumerate(tr):
                if r.get("a") != "E":
                    continue
                if r["k"] == "add" and r["io"] in ("s", "r"):
                    offered[(r["ch"], r["id"], r["io"] + r["n"])] = r["p"]
                if r["n"] == "B" and r["io"] == "r" and r["k"] == "fail":
                    pay = offered.get((r["ch"], r["id"], "sB"))
                    js = [j for j in range(i + 1, len(tr)) if tr[j].get("a") == "E" and tr[j]["n"] == "B"
                          and tr[j]["io"] == "s" and tr[j]["k"] == "fail" and tr[j]["ch"] != r["ch"]
                          and offered.get((tr[j]["ch"], tr[j]["id"], "rB")) == pay]
                    if pay and js and js[0] > i + 3:
                        bad = copy.deepcopy(tr)
                        x = bad.pop(js[0])
                        bad.insert(i + 1, x)
                        done["fail"] = (bad, "Bob's update_fail upstream moved to right after the downstream update_fail "
                                        "(payment %d)" % pay, "FailOnlyAfterDownstreamGone")
                        break
        # (3) one recorded balance changed by one satoshi
        if "balance" not in done:
            bad = copy.deepcopy(tr)
            bad[-1]["bal"][1] += 1000
            done["balance"] = (bad, "Bob's recorded balance on AB +1 sat", "QChannels")
        if len(done) == 3:
            break
    if "order" not in done or "balance" not in done:
        raise Inconclusive("no trace suitable for the negative controls")
    for name, (bad, what, expect) in done.items():
        p = os.path.join(ck.out, "control_%s.ndjson" % name)
        core.write_ndjson(p, bad)
        v = validate(ck, p, False, "control_" + name)
        if v["ok"]:
            raise Inconclusive("negative control accepted (%s): trace validation is not binding" % what)
        ck.cov.setdefault("negative_controls", []).append(
            dict(mutation=what, rejected_by=v["invariant"], at_line=v["line"]))


def run(ck):
    thorough = ck.tier == "thorough"
    if getattr(ck, "replay", None):
        if os.path.isdir(ck.replay):
            ck.replay = os.path.join(ck.replay, "trace.ndjson")
        v = validate(ck, ck.replay, False, "replay")
        recs = core.read_ndjson(ck.replay)
        if not v["ok"]:
            report(ck, recs, v, False, "replay")
        ck.cov["rule"] = "replay of one stored trace"
        ck.cov["samples"].append("replay %s -> %s" % (ck.replay, v["invariant"] or "accepted"))
        ck.cov["states"] = ck.cov["transitions"] = max(1, v["res"].distinct)
        return
    # (a) the rules on the model
    model_check(ck, thorough)
    # (b) fault plans
    nplans = 240 if thorough else 36
    files = ck.generate(SPEC, "ForwardingGen", "ForwardingGen.cfg", nplans * 2 + 10, 12, name="gen", timeout=600)
    files = files[:nplans]
    sched = os.path.dirname(files[0])
    keep = set(os.path.basename(f) for f in files)
    for f in os.listdir(sched):
        if f.startswith("b_") and f not in keep:
            os.remove(os.path.join(sched, f))
    # the deterministic reproductions of F17 (O3) and F21 run with every batch
    for name, (src, _) in DIRECTED.items():
        shutil.copy(os.path.join(SPEC, "repro", src), os.path.join(sched, name))
    # schedules of the switch-level part and of the mailbox part (every tier)
    fsw = ck.generate(SPEC, "SwitchAckGen", "SwitchAckGen.cfg", 120 if thorough else 30, 11, name="gen_switch", timeout=300)
    swdir = os.path.dirname(fsw[0])
    for name, src in SWACK_DIRECTED.items():
        shutil.copy(os.path.join(SPEC, "repro", src), os.path.join(swdir, name))
    fck = ck.generate(SPEC, "CloseKeysGen", "CloseKeysGen.cfg", 100 if thorough else 24, 10, constants=CLOSEKEYS_CONST,
                      name="gen_closekeys", timeout=300)
    ckdir = os.path.dirname(fck[0])
    for name, src in CLOSEKEYS_DIRECTED.items():
        shutil.copy(os.path.join(SPEC, "repro", src), os.path.join(ckdir, name))
    fmb = ck.generate(SPEC, "MailboxGen", "MailboxGen.cfg", 600 if thorough else 150, 40, name="gen_mailbox", timeout=300)
    mbdir = os.path.dirname(fmb[0])
    shutil.copy(os.path.join(SPEC, "repro", "mailbox_reset_while_offering_reply.ndjson"), os.path.join(mbdir, "b_0.ndjson"))
    shutil.copy(os.path.join(SPEC, "repro", "mailbox_reset_while_offering_add.ndjson"), os.path.join(mbdir, "b_00.ndjson"))
    # (c) execute on the real network: thorough under the race detector
    free = 160 if thorough else 14
    res = ck.go_test("./htlcswitch/", "^TestVerifC08(Forwarding|SwitchAck|CloseKeys|Mailbox)$", HARNESS,
                     env={"VERIF_SCHED": sched, "VERIF_FREE": free, "VERIF_PAR": 3, "VERIF_SWACK": swdir, "VERIF_MBOX": mbdir,
                          "VERIF_CLOSEKEYS": ckdir},
                     race=thorough, timeout=3000 if thorough else 1500, name="exec")
    trace = os.path.join(res["dir"], "trace.ndjson")
    if not os.path.exists(trace) or os.path.getsize(trace) == 0:
        raise Inconclusive("executor produced no trace:\n" + res["out"][-3000:])
    if "DATA RACE" in res["out"]:
        ck.violation("C08:data-race", "the race detector reported a data race in the three-hop network",
                     text=res["out"][res["out"].find("DATA RACE") - 200:][:6000])
    elif res["rc"] != 0:
        raise Inconclusive("executor failed:\n" + res["out"][-3000:])
    recs = core.read_ndjson(trace)
    traces = split_traces(recs)
    nq = sum(1 for t in traces if t[-1].get("a") == "Quiesce" and t[-1].get("ok") == 1)
    ninc = len(traces) - nq
    ck.cov["runs"] = dict(total=len(traces), quiescent=nq, inconclusive=ninc,
                          with_network_restart=sum(1 for t in traces if any(r.get("a") == "Restart" and r["kind"] == "net" for r in t)),
                          with_reconnect=sum(1 for t in traces if any(r.get("a") == "Restart" and r["kind"] == "link" for r in t)),
                          with_disconnect=sum(1 for t in traces if any(r.get("a") == "Disc" for r in t)),
                          messages_lost=sum(1 for r in recs if r.get("a") == "E" and r["io"] == "d"),
                          payments=sum(t[0].get("np", 0) for t in traces),
                          settled=sum(sum(1 for x in t[-1].get("inv", []) if x == "settled") for t in traces if t[-1].get("a") == "Quiesce"))
    core.log("  [runs] %s" % json.dumps(ck.cov["runs"]))
    if ninc > max(2, len(traces) // 10):
        raise Inconclusive("%d of %d runs did not quiesce within the bound" % (ninc, len(traces)))
    # (d) validate: every trace must be a behaviour of the spec with every rule true in every state
    work = recs
    for attempt in range(6):
        p = os.path.join(ck.out, "batch_%d.ndjson" % attempt)
        core.write_ndjson(p, work)
        v = validate(ck, p, False, "val_%d" % attempt)
        if v["ok"]:
            break
        line = v["line"] or 1
        a, b = core.slice_trace(work, line, is_reset)
        one = os.path.join(ck.out, "single_%d.ndjson" % attempt)
        core.write_ndjson(one, work[a:b])
        plan = work[a].get("plan")
        o3_text = ("after a reconnect a link does not send the commit_sig it owes for the peer's updates (it had "
                   "revoked, the links went down before it signed): the update stays on one commitment - HTLC left "
                   "dangling at quiescence (F17), plan %s" % plan)
        ctx = "strict validation: %s at line %d\n%s\n%s" % (v["invariant"], line - a, describe(work[a:b]), v["cex"] or "")
        dangling = v["invariant"] in ("invariant QRules", "invariant QResults", "invariant QCircuits")
        if plan == "b_00.ndjson" and dangling:
            ck.violation(F21_KEY,
                         "processRemoteAdds indexes a replayed forwarding package by the position in the filtered list: after "
                         "two reconnects the exit hop's link dies on a replayed, already settled add and the next payment is "
                         "never answered (F21); %s at line %d" % (v["invariant"], line - a),
                         files={"trace.ndjson": one, "F21_plan.ndjson": os.path.join(SPEC, "repro", "F21_plan.ndjson")}, text=ctx)
        elif plan in DIRECTED and DIRECTED[plan][1] == LOST_KEY and dangling:
            ck.violation(LOST_KEY,
                         "a settle/fail that the outgoing link had recorded in its forwarding package was lost on its way to "
                         "the switch when the link stopped, and is not replayed when the link starts again: the incoming HTLC "
                         "and its circuit dangle (%s at line %d), plan %s" % (v["invariant"], line - a, DIRECTED[plan][0]),
                         files={"trace.ndjson": one}, text=ctx)
        elif (plan == "b_0.ndjson" and v["invariant"] == "invariant QRules") or validate(ck, one, True, "val_%d_o3" % attempt)["ok"]:
            # the directed F17 schedule, or a trace that the named deviation O3 alone explains
            ck.violation(O3_KEY, o3_text,
                         files={"trace.ndjson": one, "O3_plan.ndjson": os.path.join(SPEC, "repro", "O3_plan.ndjson")}, text=ctx)
        elif validate(ck, one, False, "val_%d_o4" % attempt, strand=True)["ok"]:
            ck.violation(O4_KEY,
                         "an incoming HTLC is left locked in and unanswered at quiescence: the incoming link was "
                         "reconnected while ForwardPackets was between CommitCircuits and the hand-over to the forwarder "
                         "(routeAsync gives up on the link's quit); the re-forwarded add is dropped as a duplicate (F22, named "
                         "deviation O4), plan %s; repro findings/F22_repro_test.go.txt" % plan,
                         files={"trace.ndjson": one}, text=ctx)
        else:
            report(ck, work, v, False, "v%d" % attempt)
        work = work[:a] + work[b:]
        if not work:
            break
    accepted = work
    ck.cov["evaluations"] = len(recs)
    ck.cov["traces_validated_against_impl"] = len(split_traces(accepted))
    # the directed regression schedule of F17 must have been executed and must have ended settled
    o3 = [t for t in split_traces(recs) if t[0].get("plan") == "b_0.ndjson"]
    if not o3 or o3[0][-1].get("a") != "Quiesce":
        raise Inconclusive("the directed F17 schedule was not executed")
    ck.cov["f17_regression"] = dict(result=o3[0][-1].get("res"), invoice=o3[0][-1].get("inv"),
                                    cut_hit=any(r.get("a") == "Restart" for r in o3[0]))
    # the switch-level and the mailbox part
    small_parts(ck, res, thorough)
    # (e) negative controls
    negative_controls(ck, split_traces(accepted))
    # evidence
    distinct = set()
    for t in split_traces(accepted):
        sig = [(r["n"], r["io"], r["ch"], r["k"], r["p"]) for r in t if r.get("a") == "E" and r["k"] not in ("reest", "ready")]
        sig += [(r["a"], r.get("kind"), r.get("ch")) for r in t if r.get("a") in ("Restart", "Disc", "HoldRes")]
        if any(x[3] in ("ful", "fail") for x in sig if len(x) == 5):
            distinct.add(core.sha(str(sig)))
    ck.cov["distinct_nontrivial"] = len(distinct)
    ck.cov["rule"] = ("fault plans from TLC -simulate (ForwardingGen) + %d seeded free-running plans, executed on the real "
                      "three-hop network%s; distinct = distinct stamped wire sequences (node, send/recv, channel, kind, "
                      "payment) with at least one HTLC answered; every line of every trace is one TLC step of "
                      "ForwardingTrace" % (free, " under -race" if thorough else ""))
    for t in split_traces(accepted)[:40]:
        if len(ck.cov["samples"]) >= 3:
            break
        if any(r.get("a") == "Restart" for r in t) or not ck.cov["samples"]:
            ck.cov["samples"].append({"plan": t[0].get("plan"), "payments": t[0].get("pays"),
                                      "faults": [short(r) for r in t if r.get("a") in ("Restart", "Disc", "HoldRes")],
                                      "wire_events": sum(1 for r in t if r.get("a") == "E"), "quiescent": t[-1]})
    ck.cov["trusted_base"] = ["TLC 1.8.0", "CommunityModules Json",
                              "executor taps (one mutex; receipt stamped before processing; send stamped before the message is queued)",
                              "fixture: htlcswitch three-hop mock servers, mock onion decoder, real channels/switch/circuit map/invoice registry",
                              "bookkeeping of ForwardingTrace (BOLT 2 cover sets) - cross-checked against recorded ActiveHtlcs and balances",
                              "switch-level fixture: real Switch/circuit map/forwarding packages of a real channel in one database, real "
                              "channelLink.loadAndRemove; the two links towards the switch are mocks, the package writes are the packager's own calls",
                              "close-keys fixture: real channel pair, real never-started channelLink (handleDownstreamPkt, syncChanStates called "
                              "synchronously); the crash is the link's CircuitModifier refusing DeleteCircuits; the peer's side is driven at lnwallet level"]
    ck.assumptions += [
        "observed executions only: the goroutine interleaving inside a node is the Go runtime's, not enumerated",
        "a disconnect loses every message of the old connection; both links of a channel restart together (peer reconnect)",
        "invoice registry and preimage cache are durable across the network restart (carried over, as the repo's own restart test does)",
        "a run whose wire does not fall silent within the bound is inconclusive, never a violation",
        "SwitchAck / CloseKeys: one forwarded HTLC per package resp. up to 3-4 incoming HTLCs with one signature outstanding; a node "
        "restart = a new Switch / new channel objects / new link on the same open database (bbolt commits are durable at commit)",
        "O2 (a sender keeps the half-open circuit of an add lost before it was signed) is modelled as a named terminal shape; "
        "O3/F17 (owed commit_sig not resumed; repaired) stays as the named deviation OwedSigQuirk = FALSE, key " + O3_KEY,
    ]
