"""C15 A preimage is released only for a fully and correctly paid invoice.

spec/InvoiceRegistry: the exit-hop settlement logic (NotifyExitHopHtlc first time / replay, SettleHodlInvoice,
CancelInvoice, MPP auto-release timers, the interceptor client's answers - CancelSet and a modified amount, to first
calls and to replays -, block height) over two invoices of seven
kinds, HTLCs of five payload classes (legacy, MPP, AMP, keysend, blinded path) and 3-4 circuit keys whose concrete
(short channel id, HTLC id) values follow one of six patterns (confirmed / alias scids >= 2^63, the int64 boundary,
2^64-1, large HTLC ids, keys differing in one component only).
  (a) TLC checks the property's invariants / action properties exhaustively per pair of invoice kinds;
  (b) TLC -simulate generates behaviours, (c) the executor replays them on the REAL InvoiceRegistry on the KV store
      and on SQLite (same schedules, same trace spec) and a seeded free-running driver lets two links notify
      concurrently; (d) TLC validates every recorded answer against the same spec (concurrent blocks: some
      interleaving must explain all answers); (e) negative controls.
Parts of the executed/validated behaviours (the first component of a violation key):
  replay    general mix (InvoiceRegistryGen Focus="all")
  holdsets  hold invoices whose MPP / blinded-path sets lose shards (MPP timeout, CancelSet) before a retry completes
            them, then SettleHodlInvoice / CancelInvoice (Focus="holdsets")
  ampsets   AMP invoices whose sets complete and settle while the invoice stays open, then CancelInvoice, CancelSet
            for one set id, MPP timeouts, replays and late shards meet settled and accepted sets (Focus="ampsets")
  icept     the interceptor client's answers: CancelSet / a modified amount (AmountPaid) for first-time HTLCs and for
            calls that replay an HTLC already recorded as accepted, settled or canceled (Focus="icept")
  free      seeded free-running driver with concurrent blocks (replays there carry interceptor answers, too)
In every part the projection compared is the invoice READ BACK FROM THE STORE after each event; besides the comparison
with the model (Conform*) the trace spec evaluates the property's clauses about recorded state on that projection
(StoreResAgree, StoreAmtPaidExact, StoreStatesAgree, StoreForward).
Deviation D1 (keysend replay after the height moved) is probed by a fixed schedule and reported with its own key.
"""
import copy
import json
import os
import re
import shutil

from .. import core
from ..core import Inconclusive

SPEC = os.path.join(core.VERIF, "spec", "InvoiceRegistry")
LEVEL = "model_checking"
HARNESS = ["invoices/c15_test.go"]
D1_KEY = "replay:keysend-expiry-precheck"

# (k1, k2, NC, Amts, MaxEvents): closure of the model for that pair of invoice kinds (MaxEvents = 0: all reachable
# states; measured with 4 workers: quick set 0.12M-0.51M generated / 4k-12k distinct states, 9-25 s each - with the
# interceptor answers of builder b15d (MaParams, Replay(c, ic)): 0.15M-0.65M generated / 3.7k-12.1k distinct; thorough adds
# regular+hold and noaddr+holdna with 3 circuits and all four amounts: 2.9M / 62k and 3.3M / 77k, 3.5-4.5 min each.
# amp+regular with 3 circuits does not close within the budget (> 9M generated): bounded to 5 events there)
FULL = "{3, 2, 4, 5}"
HALF = "{2, 4}"
MC_QUICK = [("regular", "hold", 3, HALF, 0), ("regular", "hold", 2, FULL, 0), ("zeroamt", "keysend", 2, FULL, 0),
            ("noaddr", "holdna", 2, FULL, 0), ("amp", "regular", 2, HALF, 0)]
MC_THOROUGH = MC_QUICK + [("noaddr", "holdna", 3, HALF, 0), ("amp", "regular", 2, FULL, 0), ("regular", "hold", 3, FULL, 0), ("noaddr", "holdna", 3, FULL, 0), ("hold", "hold", 3, HALF, 0),
                          ("regular", "regular", 3, HALF, 0), ("keysend", "holdna", 3, HALF, 0),
                          ("amp", "amp", 2, FULL, 0), ("keysend", "amp", 2, FULL, 0), ("holdna", "amp", 2, FULL, 0),
                          ("amp", "regular", 3, HALF, 5)]
PARTS = {"trace": "replay", "hold": "holdsets", "amps": "ampsets", "icept": "icept", "free": "free"}
SEQ_KINDS = ("trace", "hold", "amps", "icept")


def q(s):
    return '"%s"' % s


def is_reset(r):
    return r.get("a") == "Reset"


def split_traces(recs):
    out, cur = [], []
    for r in recs:
        if is_reset(r) and cur:
            out.append(cur)
            cur = []
        cur.append(r)
    if cur:
        out.append(cur)
    return out


def compact(r):
    keep = {k: r[k] for k in ("a", "th", "c", "k", "pl", "h", "ad", "amt", "tot", "exp", "set", "good", "cs", "ma", "ht")
            if r.get(k) not in (0, "", "none", None)}
    if r.get("a") == "Reset":
        keep["kp"] = r.get("kp")
    keep["res"] = r.get("res")
    if r.get("why"):
        keep["why"] = r["why"]
    hod = [(i + 1, x["kd"], x["why"]) for i, x in enumerate(r.get("hodl", [])) if x["kd"] != "none"]
    if hod:
        keep["hodl"] = hod
    keep["inv"] = [[x["st"] if x["ex"] else "-", x["paid"],
                    [(i + 1, h["st"], h["amt"], h["tot"]) for i, h in enumerate(x["h"]) if h["st"] != "none"]]
                   for x in r.get("inv", [])]
    return keep


def describe_trace(tr):
    return "\n".join(json.dumps(compact(r), separators=(",", ":")) for r in tr)


# --------------------------------------------------------------------------- validation helpers
def validate_seq(ck, path, quirk, name):
    """Sequential traces: conformance as invariants, CHECK_DEADLOCK TRUE."""
    return ck.validate(SPEC, "InvoiceRegistryTrace", "InvoiceRegistryTrace.cfg", path,
                       constants={"KeysendQuirk": "TRUE" if quirk else "FALSE"}, name=name, timeout=1500)


def validate_par(ck, path, quirk, name):
    """Traces with concurrent blocks: accepted iff TLC reaches the end of the file, i.e. violates NotAccepted."""
    v = ck.validate(SPEC, "InvoiceRegistryTrace", "InvoiceRegistryTracePar.cfg", path,
                    constants={"KeysendQuirk": "TRUE" if quirk else "FALSE"}, name=name, timeout=1500)
    out = v["res"].out
    hw = [int(x) for x in re.findall(r'<<"highwater", (\d+)>>', out)]
    if v["invariant"] == "invariant NotAccepted":
        v.update(ok=True, invariant=None, line=None, cex=None)
        ck.cov["validations"][-1]["result"] = "accepted (end of file reachable)"
    elif v["ok"]:
        # TLC finished without reaching the end: no interleaving explains some block / some line
        v.update(ok=False, invariant="no interleaving explains the recorded answers",
                 line=(max(hw) if hw else 1), cex="high-water line %s" % (max(hw) if hw else "?"))
        ck.cov["validations"][-1]["result"] = "rejected at line %s" % v["line"]
    return v


def report(ck, store, kind, recs, v, quirk):
    line = v["line"] or 1
    a, b = core.slice_trace(recs, line, is_reset)
    one = os.path.join(ck.out, "failing_%s_%s.ndjson" % (kind, store))
    core.write_ndjson(one, recs[a:b])
    bad = recs[min(line - 1, len(recs) - 1)]
    what = ("real InvoiceRegistry (%s store, %s) deviates from spec/InvoiceRegistry: %s at line %d of the trace "
            "(line %d of the attached single trace): %s" % (
                store, kind, v["invariant"], line, line - a, json.dumps(compact(bad))[:600]))
    key = "%s:%s:%s:%s" % (kind, (v["invariant"] or "").replace("invariant ", "").replace("property ", "").replace(" ", "_")[:40],
                           bad.get("a"), bad.get("pl"))
    ck.violation(key, what, files={"trace.ndjson": one},
                 text="KeysendQuirk=%s\n--- trace (compact) ---\n%s\n--- TLC ---\n%s" % (
                     quirk, describe_trace(recs[a:b]), v["cex"] or ""))


def d1_probe(ck, store, recs):
    """The first trace of the replay file is the fixed D1 schedule. Returns (shows D1, evidence or None)."""
    tr = split_traces(recs)[0]
    p = os.path.join(ck.out, "d1_%s.ndjson" % store)
    core.write_ndjson(p, tr)
    v0 = validate_seq(ck, p, False, "d1_%s_noquirk" % store)
    if v0["ok"]:
        return False, None
    v1 = validate_seq(ck, p, True, "d1_%s_quirk" % store)
    if not v1["ok"]:
        # neither model explains the probe: an unknown deviation, reported like any other
        report(ck, store, "replay", tr, v1, True)
        return True, None
    bad = tr[min((v0["line"] or 1) - 1, len(tr) - 1)]
    return True, dict(store=store, path=p, why=bad.get("why"), inv=v0["invariant"], line=v0["line"],
                      bad=json.dumps(compact(bad))[:400], text=describe_trace(tr) + "\n\n" + (v0["cex"] or ""))


def d1_report(ck, evs):
    evs = [e for e in evs if e]
    if not evs:
        return
    e = evs[0]
    ck.violation(D1_KEY,
                 "replay of a keysend HTLC that is already settled answers '%s' once expiry < height + "
                 "FinalCltvRejectDelta (NotifyExitHopHtlc runs processKeySend's expiry pre-check before the replay "
                 "logic): the replayed HTLC does not get its original verdict (%s store(s); rejected by %s at line %s "
                 "of the fixed schedule d1_keysend_replay.ndjson: %s)" % (
                     e["why"], "+".join(x["store"] for x in evs), e["inv"], e["line"], e["bad"]),
                 files={"trace.ndjson": e["path"], "schedule.ndjson": os.path.join(SPEC, "d1_keysend_replay.ndjson")},
                 text=e["text"])


def negative_controls(ck, seq_recs, par_recs, quirk):
    ctl = []
    # 1. sequential: a settle answer turned into an accept, and AmtPaid + 1 on a settled invoice
    traces = split_traces(seq_recs)
    done = set()
    for tr in traces[1:]:
        for i, r in enumerate(tr):
            mut = None
            if "res" not in done and r["a"] == "Notify" and r["res"] == "settle":
                mut = "res"
            elif "paid" not in done and r["a"] in ("Notify", "Settle") and any(x["st"] == "settled" for x in r["inv"]):
                mut = "paid"
            elif "hodl" not in done and any(x["kd"] == "settle" for x in r["hodl"]):
                mut = "hodl"
            if not mut:
                continue
            bad = copy.deepcopy(tr)
            if mut == "res":
                bad[i]["res"], bad[i]["why"] = "accept", ""
            elif mut == "paid":
                for x in bad[i]["inv"]:
                    if x["st"] == "settled":
                        x["paid"] += 1
            else:
                for x in bad[i]["hodl"]:
                    if x["kd"] == "settle":
                        x["kd"], x["why"] = "none", ""
            p = os.path.join(ck.out, "control_seq_%s.ndjson" % mut)
            core.write_ndjson(p, bad)
            v = validate_seq(ck, p, quirk, "control_seq_%s" % mut)
            if v["ok"]:
                raise Inconclusive("negative control (%s) accepted: trace validation is not binding" % mut)
            ctl.append(dict(mutation="sequential trace: %s corrupted at line %d" % (mut, i + 1),
                            rejected_by=v["invariant"], at_line=v["line"]))
            done.add(mut)
            break
        if len(done) == 3:
            break
    if len(done) < 2:
        raise Inconclusive("no suitable record for the sequential negative controls")
    # 2. concurrent: the Join snapshot of a block in which an HTLC was recorded
    ok = False
    for tr in split_traces(par_recs):
        for i, r in enumerate(tr):
            if r["a"] == "Join" and any(h["st"] != "none" for x in r["inv"] for h in x["h"]):
                bad = copy.deepcopy(tr)
                for x in bad[i]["inv"]:
                    for h in x["h"]:
                        if h["st"] != "none":
                            h["amt"] += 1
                p = os.path.join(ck.out, "control_par.ndjson")
                core.write_ndjson(p, bad)
                v = validate_par(ck, p, quirk, "control_par")
                if v["ok"]:
                    raise Inconclusive("negative control (Join snapshot) accepted: block validation is not binding")
                ctl.append(dict(mutation="concurrent block: HTLC amount + 1 in the Join snapshot (line %d)" % (i + 1),
                                rejected_by=v["invariant"], at_line=v["line"]))
                ok = True
                break
        if ok:
            break
    if not ok:
        raise Inconclusive("no suitable block for the concurrent negative control")
    ck.cov["negative_controls"] = ctl


def big_chan(kc):
    """value classes of a circuit key whose short channel id is >= 2^63 (alias / zero-conf scids and above)"""
    return kc["ch"] in ("i63", "alias", "alias2", "max")


def new_part_controls(ck, recs, quirk):
    """Negative controls of the circuit-key / blinded-path / hold-set parts: one recorded field of a valid trace is
    corrupted the way a defect of that class would show up; the validator must reject it."""
    ctl = ck.cov["negative_controls"]

    def run_ctl(name, bad, what, want=None):
        p = os.path.join(ck.out, "control_%s.ndjson" % name)
        core.write_ndjson(p, bad)
        v = validate_seq(ck, p, quirk, "control_%s" % name)
        if v["ok"]:
            raise Inconclusive("negative control (%s) accepted: trace validation is not binding" % name)
        if want and want not in (v["invariant"] or ""):
            raise Inconclusive("negative control (%s) rejected by %s, expected %s" % (name, v["invariant"], want))
        ctl.append(dict(mutation=what, rejected_by=v["invariant"], at_line=v["line"]))

    # 1. circuit keys: an HTLC under a key with a channel id >= 2^63 is canceled / settled in this event - the store
    #    "did not persist" the change (the projection keeps the HTLC accepted from here on)
    done = False
    for st in ("sql", "kv"):
        for tr in split_traces(recs[("trace", st)])[1:] + split_traces(recs[("hold", st)]):
            kcs = tr[0]["ck"]
            for i in range(1, len(tr)):
                if tr[i]["th"] != 0 or tr[i]["a"] in ("Par", "Join"):
                    continue
                hit = [(k, d) for k in range(2) for d in range(len(kcs)) if big_chan(kcs[d])
                       and tr[i - 1]["inv"][k]["h"][d]["st"] == "accepted"
                       and tr[i]["inv"][k]["h"][d]["st"] in ("canceled", "settled")]
                if not hit:
                    continue
                bad = copy.deepcopy(tr)
                k, d = hit[0]
                for r in bad[i:]:
                    r["inv"][k]["h"][d]["st"] = "accepted"
                run_ctl("keys_%s" % st, bad, "%s store, key pattern %s: the %s of the HTLC under circuit key %s at line %d is "
                        "not persisted (store projection keeps it accepted)" % (
                            st, tr[0]["kp"], tr[i]["inv"][k]["h"][d]["st"], json.dumps(kcs[d]), i + 1))
                done = True
                break
            if done:
                break
        if done:
            break
    if not done:
        raise Inconclusive("no state change of an HTLC under a circuit key with channel id >= 2^63 was executed")

    # 2. blinded path: an accepted / settled blinded-path HTLC answered with a failure, and a failed one with a settle
    done = set()
    for tr in split_traces(recs[("trace", "kv")])[1:] + split_traces(recs[("hold", "kv")]):
        for i, r in enumerate(tr):
            if r["a"] != "Notify" or r["pl"] != "blinded" or r["th"] != 0:
                continue
            mut = "blinded_ok" if r["res"] in ("accept", "settle") else "blinded_fail" if r["res"] == "fail" else None
            if not mut or mut in done:
                continue
            bad = copy.deepcopy(tr)
            if mut == "blinded_ok":
                bad[i]["res"], bad[i]["why"] = "fail", "payment address mismatch"
            else:
                bad[i]["res"], bad[i]["why"] = "settle", "settled"
            run_ctl(mut, bad, "blinded-path HTLC at line %d: answer %s turned into %s" % (i + 1, r["res"], bad[i]["res"]))
            done.add(mut)
        if len(done) == 2:
            break
    if len(done) < 2:
        raise Inconclusive("blinded-path HTLCs were not executed in both outcome classes (%s)" % sorted(done))

    # 3. hold sets: SettleHodlInvoice of an invoice that carries a canceled shard - the amount paid also counts it
    done = False
    for tr in split_traces(recs[("hold", "kv")]):
        for i, r in enumerate(tr):
            if r["a"] != "Settle" or r["res"] != "ok":
                continue
            x = r["inv"][r["k"] - 1]
            can = [h["amt"] for h in x["h"] if h["st"] == "canceled"]
            if x["st"] != "settled" or not can:
                continue
            bad = copy.deepcopy(tr)
            for q in bad[i:]:
                q["inv"][r["k"] - 1]["paid"] += can[0]
            run_ctl("hold_paid", bad, "hold invoice settled at line %d with a canceled shard: AmtPaid + the canceled "
                    "shard's amount" % (i + 1), want="StoreAmtPaidExact")
            done = True
            break
        if done:
            break
    if not done:
        raise Inconclusive("no hold invoice with an earlier canceled shard was settled in the holdsets part")


def followup_controls(ck, recs, quirk):
    """Negative controls of the ampsets / icept parts (same principle as new_part_controls)."""
    ctl = ck.cov["negative_controls"]

    def run_ctl(name, bad, what):
        p = os.path.join(ck.out, "control_%s.ndjson" % name)
        core.write_ndjson(p, bad)
        v = validate_seq(ck, p, quirk, "control_%s" % name)
        if v["ok"]:
            raise Inconclusive("negative control (%s) accepted: trace validation is not binding" % name)
        ctl.append(dict(mutation=what, rejected_by=v["invariant"], at_line=v["line"]))

    # 1. a replay under the interceptor's CancelSet of an HTLC recorded as settled / accepted answered with a failure
    done = set()
    for st in ("kv", "sql"):
        for tr in split_traces(recs[("icept", st)]):
            for i, r in enumerate(tr):
                if i == 0 or r["a"] != "Replay" or r["cs"] != 1 or r["res"] not in ("settle", "accept"):
                    continue
                name = "icept_replay_%s" % r["res"]
                if name in done:
                    continue
                bad = copy.deepcopy(tr)
                bad[i]["res"] = "fail"
                bad[i]["why"] = "invoice no longer open" if r["res"] == "settle" else "external validation failed"
                run_ctl(name, bad, "%s store: replay under CancelSet at line %d answered '%s' turned into a failure" % (
                    st, i + 1, r["res"]))
                done.add(name)
        if len(done) == 2:
            break
    if len(done) < 2:
        raise Inconclusive("replays under CancelSet were not executed in both classes (%s)" % sorted(done))
    # 2. an HTLC recorded with the interceptor's amount: the store shows the wire amount instead
    done = False
    for tr in split_traces(recs[("icept", "kv")]):
        for i, r in enumerate(tr):
            if i == 0 or r["a"] != "Notify" or not r["ma"] or r["ma"] == r["amt"] or r["res"] not in ("accept", "settle"):
                continue
            hit = [(k, r["c"] - 1) for k in range(2) if r["inv"][k]["h"][r["c"] - 1]["st"] != "none"]
            if not hit:
                continue
            bad = copy.deepcopy(tr)
            k, d = hit[0]
            for x in bad[i:]:
                x["inv"][k]["h"][d]["amt"] = r["amt"]
            run_ctl("icept_amount", bad, "HTLC at line %d recorded with the wire amount %d instead of the interceptor's %d" % (
                i + 1, r["amt"], r["ma"]))
            done = True
            break
        if done:
            break
    if not done:
        raise Inconclusive("no HTLC with an interceptor-modified amount was recorded in the icept part")
    # 3. CancelInvoice of an open AMP invoice with a settled set (the real code refuses): the store shows the
    #    settled HTLCs canceled and the invoice canceled from there on
    done = False
    for tr in split_traces(recs[("amps", "sql")]):
        kinds = (tr[0]["k1"], tr[0]["k2"])
        for i, r in enumerate(tr):
            if i == 0 or r["a"] != "Cancel" or r["res"] != "err" or kinds[r["k"] - 1] != "amp":
                continue
            x = r["inv"][r["k"] - 1]
            if x["st"] != "open" or not any(h["st"] == "settled" for h in x["h"]):
                continue
            bad = copy.deepcopy(tr)
            bad[i]["res"], bad[i]["err"] = "ok", ""
            for y in bad[i:]:
                z = y["inv"][r["k"] - 1]
                z["st"] = "canceled"
                for h in z["h"]:
                    if h["st"] in ("settled", "accepted"):
                        h["st"] = "canceled"
            run_ctl("amps_cancel", bad, "CancelInvoice at line %d of an AMP invoice with a settled set 'succeeds' and the "
                    "store shows its settled HTLCs canceled" % (i + 1))
            done = True
            break
        if done:
            break
    if not done:
        raise Inconclusive("no CancelInvoice of an AMP invoice with a settled set in the ampsets part")


def class_counts(recs):
    """Measured coverage of the behaviour classes (for the evidence and as vacuity guard)."""
    out = dict(blinded_htlcs={}, cancel_set_events=0, key_patterns={}, htlc_state_changes_chan_ge_2_63={"kv": 0, "sql": 0},
               htlc_state_changes_htlcid_ge_2_32={"kv": 0, "sql": 0}, hold_settled_with_canceled_shard=0,
               hold_canceled_with_canceled_shard=0, accepted_after_canceled_shard=0, legacy_with_total=0,
               replay_with_cancelset={}, replay_with_modified_amount={}, modified_amount_recorded=0,
               amp_sets_settled=0, amp_cancel_with_settled_set=0, amp_cancelset_beside_settled_set=0,
               amp_cancel_with_accepted_set=0)
    for (kind, st), rs in recs.items():
        for tr in split_traces(rs):
            kcs = tr[0].get("ck") or []
            out["key_patterns"][tr[0].get("kp")] = out["key_patterns"].get(tr[0].get("kp"), 0) + 1
            for i, r in enumerate(tr):
                if r["a"] in ("Notify", "Replay") and r["pl"] == "blinded":
                    out["blinded_htlcs"][r["res"]] = out["blinded_htlcs"].get(r["res"], 0) + 1
                if r["a"] == "Notify" and r.get("cs") == 1:
                    out["cancel_set_events"] += 1
                if r["a"] == "Notify" and r["pl"] == "legacy" and r["tot"] > 0:
                    out["legacy_with_total"] += 1
                if i == 0 or r["a"] in ("Par",) or r["th"] != 0:
                    continue
                prev = tr[i - 1]["inv"]
                if r["a"] == "Replay" and (r.get("cs") == 1 or r.get("ma")):
                    was = [h["st"] for x in prev for h in [x["h"][r["c"] - 1]] if h["st"] != "none"]
                    if was:
                        if r.get("cs") == 1:
                            out["replay_with_cancelset"][was[0]] = out["replay_with_cancelset"].get(was[0], 0) + 1
                        if r.get("ma"):
                            out["replay_with_modified_amount"][was[0]] = out["replay_with_modified_amount"].get(was[0], 0) + 1
                if r["a"] in ("Notify", "Replay") and r.get("ma") and r["ma"] != r["amt"] and r["res"] in ("accept", "settle") \
                        and any(x["h"][r["c"] - 1]["st"] == "none" for x in prev) \
                        and any(x["h"][r["c"] - 1]["st"] != "none" and x["h"][r["c"] - 1]["amt"] == r["ma"] for x in r["inv"]):
                    out["modified_amount_recorded"] += 1
                kinds = (tr[0]["k1"], tr[0]["k2"])
                for k in range(2):
                    if kinds[k] != "amp":
                        continue
                    pst = [h["st"] for h in prev[k]["h"]]
                    nst = [h["st"] for h in r["inv"][k]["h"]]
                    if "settled" in nst and "settled" not in pst:
                        out["amp_sets_settled"] += 1
                    if r["a"] == "Cancel" and r["k"] == k + 1 and prev[k]["st"] == "open":
                        if "settled" in pst:
                            out["amp_cancel_with_settled_set"] += 1
                        elif "accepted" in pst:
                            out["amp_cancel_with_accepted_set"] += 1
                    if r["a"] == "Notify" and r.get("cs") == 1 and r["pl"] == "amp" and "settled" in pst \
                            and any(a == "accepted" and b == "canceled" for a, b in zip(pst, nst)):
                        out["amp_cancelset_beside_settled_set"] += 1
                for k in range(2):
                    x = r["inv"][k]
                    for d, h in enumerate(x["h"]):
                        was = tr[i - 1]["inv"][k]["h"][d]["st"]
                        if was == "accepted" and h["st"] in ("canceled", "settled") and d < len(kcs):
                            if big_chan(kcs[d]):
                                out["htlc_state_changes_chan_ge_2_63"][st] += 1
                            if kcs[d]["id"] in ("i32n", "bign", "i63m"):
                                out["htlc_state_changes_htlcid_ge_2_32"][st] += 1
                    can = any(h["st"] == "canceled" for h in x["h"])
                    if r["a"] == "Settle" and r["res"] == "ok" and r["k"] == k + 1 and can:
                        out["hold_settled_with_canceled_shard"] += 1
                    if r["a"] == "Cancel" and r["res"] == "ok" and r["k"] == k + 1 \
                            and tr[i - 1]["inv"][k]["st"] in ("open", "accepted") \
                            and any(h["st"] == "accepted" for h in tr[i - 1]["inv"][k]["h"]) \
                            and any(h["st"] == "canceled" for h in tr[i - 1]["inv"][k]["h"]):
                        out["hold_canceled_with_canceled_shard"] += 1
                    if x["st"] == "accepted" and tr[i - 1]["inv"][k]["st"] == "open" and can:
                        out["accepted_after_canceled_shard"] += 1
    return out


def replay(ck, path):
    """./vcheck C15 --replay <violation dir | trace.ndjson>: judge one stored trace again (no evidence is written)."""
    import sys
    p = os.path.join(path, "trace.ndjson") if os.path.isdir(path) else path
    recs = core.read_ndjson(p)
    par = any(r["a"] == "Par" for r in recs)
    rc = 0
    for quirk in (False, True):
        v = (validate_par if par else validate_seq)(ck, p, quirk, "replay_quirk%d" % quirk)
        core.log("  replay %s with KeysendQuirk=%s: %s" % (p, quirk, "accepted" if v["ok"] else
                                                          "REJECTED (%s at line %s)" % (v["invariant"], v["line"])))
        if quirk and not v["ok"]:
            core.log("VIOLATION property=C15 replay=%s" % path)
            core.log((v["cex"] or "")[-3000:])
            rc = 1
    sys.exit(rc)


def run(ck):
    if getattr(ck, "replay", None):
        replay(ck, ck.replay)
    thorough = ck.tier == "thorough"
    extra = json.loads(os.environ.get("VERIF_EXTRA_OVERLAY", "") or "{}") or None   # mutation controls

    # ---------------------------------------------------------------- (a) model checking
    base = {"V": 4, "InvDelta": 6, "RejectDelta": 4, "MaxHeight": 50, "MaxNow": 50, "KeysendQuirk": "FALSE",
            "Margins": "{0, 1}", "ExpiredOffs": "{1}"}
    pairs = MC_THOROUGH if thorough else MC_QUICK
    if os.environ.get("VERIF_C15_FAST"):   # development / mutation-control runs only
        pairs = MC_QUICK[2:3]      # mutation-control runs: the code mutation does not change the model
    for k1, k2, nc, amts, maxev in pairs:
        c = dict(base, NC=nc, K1=q(k1), K2=q(k2), MaxEvents=maxev, Amts=amts)
        ck.model_check(SPEC, "InvoiceRegistryMC", "InvoiceRegistryMC.cfg",
                       "InvoiceRegistry %s+%s, %d circuits, amounts %s, %s" % (
                           k1, k2, nc, amts, "all reachable states" if maxev == 0 else "all event sequences of length <= %d" % maxev),
                       constants=c, workers=8, name="mc_%s_%s_%d_%d" % (k1, k2, nc, len(amts)), timeout=1700)
    ck.cov["exhaustive"] = True
    # the model-level picture of D1: with the quirk the property fails in the model, too
    r = ck.model_check(SPEC, "InvoiceRegistryMC", "InvoiceRegistryMCQuirk.cfg",
                       "InvoiceRegistry keysend+regular with KeysendQuirk (expected: ReplaySameVerdict fails)",
                       must_hold=False, workers=4, name="mc_quirk", timeout=600)
    if r.violation != "property ReplaySameVerdict":
        raise Inconclusive("the quirk model does not show deviation D1 (got %s)" % r.violation)
    ck.notes.append("model with KeysendQuirk=TRUE violates ReplaySameVerdict as expected (deviation D1 at model level)")

    # ---------------------------------------------------------------- (b) behaviours
    num = 400 if thorough else 110
    files = ck.generate(SPEC, "InvoiceRegistryGen", "InvoiceRegistryGen.cfg", num, 16,
                        constants={"MaxLen": 12, "Focus": q("all")}, name="gen", timeout=1200)
    sched = os.path.dirname(files[0])
    shutil.copy(os.path.join(SPEC, "d1_keysend_replay.ndjson"), os.path.join(sched, "b_0.ndjson"))
    # hold invoices whose sets lose shards before they complete (4 circuit keys: a lost shard + a retry of up to 3)
    hfiles = ck.generate(SPEC, "InvoiceRegistryGen", "InvoiceRegistryGen.cfg", 260 if thorough else 70, 16,
                         constants={"MaxLen": 12, "Focus": q("holdsets"), "NC": 4, "MaxNow": 6}, name="gen_hold", timeout=1200)
    hsched = os.path.dirname(hfiles[0])
    # AMP invoices with settled / accepted sets that are then canceled, time out, are replayed or joined
    afiles = ck.generate(SPEC, "InvoiceRegistryGen", "InvoiceRegistryGen.cfg", 150 if thorough else 70, 16,
                         constants={"MaxLen": 12, "Focus": q("ampsets"), "NC": 4, "MaxNow": 6}, name="gen_amps", timeout=1200)
    asched = os.path.dirname(afiles[0])
    # the interceptor client's answers (CancelSet, modified amount) to first-time and replayed HTLCs
    ifiles = ck.generate(SPEC, "InvoiceRegistryGen", "InvoiceRegistryGen.cfg", 150 if thorough else 70, 16,
                         constants={"MaxLen": 12, "Focus": q("icept"), "NC": 4, "MaxNow": 6}, name="gen_icept", timeout=1200)
    isched = os.path.dirname(ifiles[0])

    # ---------------------------------------------------------------- (c) execution on the real code
    res = ck.go_test("./invoices/", "^TestVerifC15(Replay|Free)$", HARNESS,
                     env={"VERIF_SCHED": "trace=%s,hold=%s,amps=%s,icept=%s" % (sched, hsched, asched, isched),
                          "VERIF_STORES": "kv,sql",
                          "VERIF_RUNS": 250 if thorough else 60},
                     name="exec", timeout=3000 if thorough else 1500, extra_overlay=extra, race=thorough)
    paths = {(kind, st): os.path.join(res["dir"], "%s_%s.ndjson" % (kind, st))
             for kind in SEQ_KINDS + ("free",) for st in ("kv", "sql")}
    if res["rc"] != 0 or not all(os.path.exists(p) for p in paths.values()):
        raise Inconclusive("executor failed:\n" + res["out"][-4000:])
    recs = {k: core.read_ndjson(p) for k, p in paths.items()}

    # ---------------------------------------------------------------- (d) validation
    probes = {st: d1_probe(ck, st, recs[("trace", st)]) for st in ("kv", "sql")}
    quirk = {st: probes[st][0] for st in probes}
    d1_report(ck, [probes[st][1] for st in ("kv", "sql")])
    if quirk["kv"] != quirk["sql"]:
        ck.violation("divergence:keysend-replay", "KV and SQL stores disagree on the keysend replay probe: %s" % quirk)
    nviol = 0
    for st in ("kv", "sql"):
        for kind, fn in [(x, validate_seq) for x in SEQ_KINDS] + [("free", validate_par)]:
            rs = recs[(kind, st)]
            if kind == "trace":      # the probe has been judged above
                rs = [r for tr in split_traces(rs)[1:] for r in tr]
            p = os.path.join(ck.out, "%s_%s.ndjson" % (kind, st))
            core.write_ndjson(p, rs)
            v = fn(ck, p, quirk[st], "val_%s_%s" % (kind, st))
            ck.cov["evaluations"] += sum(1 for r in rs if r["a"] not in ("Reset", "Par", "Join"))
            if v["ok"]:
                ck.cov["traces_validated_against_impl"] += sum(1 for r in rs if is_reset(r))
            else:
                nviol += 1
                report(ck, st, PARTS[kind], rs, v, quirk[st])
    classes = class_counts(recs)
    ck.cov["behaviour_classes"] = classes
    if nviol == 0:
        negative_controls(ck, recs[("trace", "kv")], recs[("free", "kv")], quirk["kv"])
        new_part_controls(ck, recs, quirk["kv"])
        followup_controls(ck, recs, quirk["kv"])
        # vacuity guards: the classes the check claims to cover were really executed
        if classes["htlc_state_changes_chan_ge_2_63"]["sql"] < 5 or classes["htlc_state_changes_chan_ge_2_63"]["kv"] < 5:
            raise Inconclusive("too few HTLC state changes under circuit keys with channel id >= 2^63: %s" % classes)
        if classes["hold_settled_with_canceled_shard"] < 1 or classes["cancel_set_events"] < 5:
            raise Inconclusive("hold-set class hardly reached: %s" % classes)
        if sum(classes["blinded_htlcs"].get(x, 0) for x in ("accept", "settle")) < 5:
            raise Inconclusive("blinded-path class hardly reached: %s" % classes)
        rc = classes["replay_with_cancelset"]
        if rc.get("settled", 0) < 2 or rc.get("accepted", 0) < 2:
            raise Inconclusive("replays of recorded HTLCs under an interceptor CancelSet hardly reached: %s" % classes)
        if classes["modified_amount_recorded"] < 3:
            raise Inconclusive("HTLCs recorded with an interceptor-modified amount hardly reached: %s" % classes)
        if classes["amp_cancel_with_settled_set"] < 2 or classes["amp_sets_settled"] < 4:
            raise Inconclusive("AMP invoices with settled sets hardly reached / canceled: %s" % classes)

    # ---------------------------------------------------------------- evidence
    distinct, changing = set(), 0
    for (kind, st), rs in recs.items():
        for tr in split_traces(rs):
            sig = [(r["a"], r["th"], r["c"], r["k"], r["pl"], r["h"], r["ad"], r["amt"], r["tot"], r["exp"] - r["ht"],
                    r["set"], r["good"], r["cs"], r["ma"], r["res"], r["why"]) for r in tr]
            if any(r["res"] in ("settle", "accept", "ok") for r in tr):
                distinct.add(core.sha(str((tr[0]["k1"], tr[0]["k2"], tr[0]["kp"], sig))))
    ck.cov["distinct_nontrivial"] = len(distinct)
    ck.cov["rule"] = ("behaviours generated by TLC -simulate from InvoiceRegistryGen (12 events; kinds of the two invoices and "
                      "the circuit-key pattern drawn per behaviour; HTLCs of the classes legacy/MPP/blinded path/AMP/keysend, "
                      "parameters 55% acceptable / 15% acceptable but already expired / 8% CancelSet by the interceptor client / "
                      "22% from the full product), a second generation focused on hold invoices whose sets lose shards (MPP "
                      "timeout, CancelSet) before a retry completes them, a third focused on AMP invoices whose sets settle and are then "
                      "canceled / time out / are replayed, a fourth on the interceptor client's answers (CancelSet, modified "
                      "amount) to first-time and replayed HTLCs, plus seeded free-running histories with concurrent "
                      "blocks of two links; each executed on the KV and on the SQLite store, the projection read back from the "
                      "store after every event; distinct = distinct (kinds, key pattern, event, parameters, answer) sequences "
                      "with at least one accept/settle/successful API call")
    outcomes = {}
    for rs in recs.values():
        for r in rs:
            if r["a"] in ("Notify", "Replay"):
                outcomes[r["res"] + (":" + r["why"] if r["why"] else "")] = outcomes.get(r["res"] + (":" + r["why"] if r["why"] else ""), 0) + 1
    ck.cov["outcome_histogram"] = outcomes
    tr = split_traces(recs[("trace", "kv")])
    ck.cov["samples"] = [dict(store="kv", kinds=[t[0]["k1"], t[0]["k2"]], events=[compact(r) for r in t[1:5]]) for t in tr[1:3]]
    hr = split_traces(recs[("hold", "sql")])
    ck.cov["samples"] += [dict(store="sql", part="holdsets", kinds=[t[0]["k1"], t[0]["k2"]], kp=t[0]["kp"],
                               events=[compact(r) for r in t[1:7]]) for t in hr[:1]]
    for kind, st in (("amps", "kv"), ("icept", "sql")):
        tt = [t for t in split_traces(recs[(kind, st)])
              if any(r["a"] == "Replay" and r["cs"] == 1 and r["res"] in ("settle", "accept") for r in t)
              or any(r["a"] == "Cancel" and r["res"] == "err" for r in t)]
        ck.cov["samples"] += [dict(store=st, part=PARTS[kind], kinds=[t[0]["k1"], t[0]["k2"]], kp=t[0]["kp"],
                                   events=[compact(r) for r in t[1:8]]) for t in tt[:1]]
    fr = split_traces(recs[("free", "sql")])
    ck.cov["samples"] += [dict(store="sql", driver="free", kinds=[t[0]["k1"], t[0]["k2"]], events=[compact(r) for r in t[1:6]]) for t in fr[:1]]
    ck.cov["trusted_base"] = ["TLC 1.8.0", "CommunityModules Json",
                              "abstraction: hashes/preimages/payment addresses identified with the invoice slot; AMP shares "
                              "abstracted to member/good (executor uses the real amp sharer and records preimage.Hash()==hash)",
                              "executor projection (resolution kind/outcome string, InvoiceDB.LookupInvoice state/AmtPaid/HTLC "
                              "fields looked up under the concrete circuit keys; the executor's key table mirrors KeyOf and the "
                              "Reset record reports the classes of the values used)",
                              "test clock barrier (sentinel timer + tick signal) for auto-release timers"]
    ck.assumptions += [
        "a circuit key is used by one link (one hodl channel) and a replay repeats the HTLC's original parameters",
        "a replay of a circuit key that never reached the invoice is a fresh evaluation (no verdict is remembered for it)",
        "FinalCltvRejectDelta=4, invoice FinalCltvDelta=6, HtlcHoldDuration=30s, AcceptKeySend=true, AcceptAMP=false; the HTLC "
        "interceptor client answers CancelSet and/or AmountPaid (never an error, never disconnects mid-call)",
        "invoice expiry watcher kept quiet (own clock, no block notifications)",
        "a blinded-path invoice is a regular/hold invoice whose payment address is used as path id; blinded HTLCs carry no MPP record",
        "CancelSet is sent only with an unambiguous invoice reference (for an address/path id indexed for no invoice the KV "
        "store would cancel the set of the invoice named by the hash, the SQL store finds no invoice)",
        "KV and SQL fail reasons differ for an MPP HTLC whose address is indexed for no invoice (named: RefSQLDiffers)"]
