"""C05: whichever commitment confirms, the node holds valid spends for all it owns.

Decided with spec/Channel (the commitment state machine that C01-C03 validate against the real
lnwallet) plus spec/Channel/ChannelCloseTrace.tla:

  (a) TLC, exhaustively on the bounded model (ChannelCloseMC): every commitment the counterparty can
      broadcast is on our disk as the current or pending remote commitment with identical content;
      every revocation-log entry is the commitment the counterparty held at that height;
  (b) TLC-generated behaviours (ChannelGen) are replayed on two real LightningChannels of all seven
      channel types (harness/lnwallet/c05_close_test.go); after every k-th call - and whenever a
      pending remote commitment exists - channels RELOADED FROM THE DATABASE compute ForceClose() and
      NewUnilateralCloseSummary() for the counterparty's current and pending commitment; every spend
      is run through btcd's script interpreter against the real outputs, at and one block before its
      CSV / CLTV maturity;
  (c) TLC validates the recorded trace: the base events must be a behaviour of spec/Channel with equal
      commitment chains, and every `CloseCheck` line must carry exactly the resolutions, amounts,
      time locks and interpreter verdicts that the spec computes from the MODEL state (trimming with
      the owner's dust limit, commitment fee, who pays it, second-level fees, CSV per party/type).

  (d) the same behaviours are replayed a second time from inside package contractcourt
      (harness/contractcourt/c05_watch_test.go, other channel type per behaviour): each party has a REAL
      chainWatcher with its own copy of the channel; the transaction that would confirm (own / counterparty's
      current / counterparty's pending commitment) is handed to handleCommitSpend and the close summary the
      watcher dispatches to its subscriber is what is judged (`CloseCheck` with via = 1, trace cfg
      ChannelCloseTrace_C05W.cfg): same invariants, plus CCWatcher (the watcher classified the transaction
      as the commitment it is and passes on that commitment's HTLC set);
  (e) every CloseCheck also carries the party's ANCHOR resolution (inside the summary and from
      NewAnchorResolutions() before confirmation), judged by CCAnchor for all three commitments.

The helpers here are shared with C04 (c04.py).
"""
import copy
import os
from .. import core
from ..core import Inconclusive
from . import channel_common

SPEC = channel_common.SPEC
ALL_TYPES = channel_common.ALL_TYPES
LEVEL = "model_checking"
is_reset = channel_common.is_reset

PROFILE = {
    "C05": dict(mc=dict(quick=["mc_c05_quick_disc", "mc_c05_quick_fee"], thorough=["mc_c05_thorough"]),
                gen=dict(MaxDisc=2, MaxAdds=4, MaxFees=3, MaxLen=100),
                n=dict(quick=42, thorough=180), poor=dict(quick=10, thorough=40), every=dict(quick=3, thorough=1),
                wevery=dict(quick=3, thorough=2), wstride=dict(quick=2, thorough=1)),
    "C04": dict(mc=dict(quick=["mc_c05_quick_disc", "mc_c05_quick_fee"], thorough=["mc_c05_thorough"]),
                gen=dict(MaxDisc=2, MaxAdds=4, MaxFees=3, MaxLen=100),
                n=dict(quick=88, thorough=640), poor=dict(quick=15, thorough=80)),
}


def model_and_behaviours(ck, prop):
    prof = PROFILE[prop]
    for cfg in prof["mc"][ck.tier]:
        ck.model_check(SPEC, "ChannelCloseMC", cfg + ".cfg", cfg, timeout=3000, workers=min(core.NCPU, 12))
    g = prof["gen"]
    files = ck.generate(SPEC, "ChannelGen", "ChannelGen.cfg", prof["n"][ck.tier], g["MaxLen"] + 10,
                        constants=dict(g), timeout=1500)
    # uneven funding split: the non-opener's balance lies around the two dust limits
    ck.cov["uneven_split_behaviours"] = channel_common.poor_batch(ck, files, g, prof["poor"][ck.tier])
    return files, g


def judge(ck, prop, recs, cfg, obs, what_exec, keyfn=None, quirk=None, tag=""):
    """Validate the Reset-batched trace; report every rejected trace as a violation. Returns True if all accepted.

    keyfn(badrec, hdr, inv) -> violation key for a rejected observation line.
    quirk(badrec, hdr, inv) -> {CONSTANT: value} or None: when the rejected line shows a *named deviation* of the
    spec (a finding modelled as a switchable constant), it is reported once and the whole batch is judged again
    with the deviation switched on, so that everything else about those traces is still decided."""
    batches = core.split_batches(recs, is_reset, max_bytes=25_000_000)
    accepted_all = True
    consts = {}
    for bi, b in enumerate(batches):
        bp = os.path.join(ck.out, "batch%s_%d.ndjson" % (tag, bi))
        core.write_ndjson(bp, b)
        todo = b
        while todo:
            v = ck.validate(SPEC, "ChannelCloseTrace", cfg, bp, name="val%s_%d" % (tag, bi), timeout=2400,
                            constants=dict(consts) or None)
            if v["ok"]:
                break
            accepted_all = False
            line = v["line"] or 1
            a, e = core.slice_trace(todo, line, is_reset)
            one = os.path.join(ck.out, "failing_trace%s.ndjson" % tag)
            core.write_ndjson(one, todo[a:e])
            badrec = todo[min(line - 1, len(todo) - 1)]
            hdr = todo[a]
            inv = (v["invariant"] or "?").replace("invariant ", "")
            if badrec.get("a") in obs:
                detail = {k: badrec.get(k) for k in badrec if k not in ("res", "ins", "sl", "st", "sh")}
                key = keyfn(badrec, hdr, inv) if keyfn else "%s:%s:%s:%s" % (prop, inv, badrec.get("a"), hdr.get("type"))
                what = ("%s: the real code's %s for party %s deviates from what spec/Channel computes for that "
                        "commitment (%s), channel type %s, opener %s: %s" % (
                            what_exec, badrec.get("a"), badrec.get("p"), inv, hdr.get("type"), hdr.get("opener"),
                            str(detail)[:600]))
            else:
                key = "%s:base:%s:%s" % (prop, inv, badrec.get("a"))
                what = ("replayed behaviour is not a behaviour of spec/Channel (%s at %s(%s), type %s, err=%r) - "
                        "the close/justice verdicts of this trace are not judged" % (
                            inv, badrec.get("a"), badrec.get("p"), hdr.get("type"), badrec.get("err")))
            hist = " ".join("%s(%s%s)" % (r["a"], r["p"], ",%d" % r["x"] if r["x"] else "")
                            for r in todo[a + 1:line] if r["a"] not in obs)
            ck.violation(key, what, files={"trace.ndjson": one},
                         text="offending record:\n%s\n\nhistory: %s\n\nmodel state:\n%s" % (
                             str(badrec)[:3000], hist[-3000:], v["cex"] or ""))
            q = quirk(badrec, hdr, inv) if (quirk and badrec.get("a") in obs) else None
            if q and not all(consts.get(k) == v_ for k, v_ in q.items()):
                consts.update(q)
                ck.notes.append("named deviation %s switched on after reporting %s; the traces are judged again" % (q, key))
                continue
            todo = todo[e:]
            core.write_ndjson(bp, todo)
            if len(ck.violations) + len(ck.known_hits) > 8:
                break
    return accepted_all


def control(ck, recs, cfg, mutate, what, nmax=600, constants=None):
    """Negative control: corrupt one recorded fact of an accepted trace; validation must reject it."""
    bad = copy.deepcopy(recs[:nmax])
    while bad and not is_reset(bad[-1]):
        bad.pop()
    bad = bad[:-1]
    i = mutate(bad)
    if i is None:
        ck.notes.append("negative control skipped (%s): no suitable record in the first traces" % what)
        return
    path = os.path.join(ck.out, "control.ndjson")
    core.write_ndjson(path, bad)
    v = ck.validate(SPEC, "ChannelCloseTrace", cfg, path, name="control", constants=constants)
    if v["ok"]:
        raise Inconclusive("negative control (%s at line %d) was accepted: validation is not binding" % (what, i + 1))
    ck.cov.setdefault("negative_controls", []).append(
        dict(mutation=what, line=i + 1, rejected_by=v["invariant"], at_line=v["line"]))


def _pick(bad, pred):
    c = [i for i, r in enumerate(bad) if pred(r)]
    return c[len(c) // 2] if c else None


def c05_controls(ck, recs, cfg):
    def m_claim(bad):
        i = _pick(bad, lambda r: r["a"] == "CloseCheck" and r["res"])
        if i is not None:
            bad[i]["claim"] += 1
        return i

    def m_csv(bad):
        i = _pick(bad, lambda r: r["a"] == "CloseCheck" and r["x"] == 0 and r["res"])
        if i is not None:
            bad[i]["res"][0]["e2lo"] = 0
        return i

    def m_drop(bad):
        i = _pick(bad, lambda r: r["a"] == "CloseCheck" and r["x"] > 0 and len(r["res"]) >= 2)
        if i is not None:
            r = bad[i]["res"].pop()
            bad[i]["nout" if r["dir"] == 0 else "nin"] -= 1
            bad[i]["claim"] -= r["claim"]
        return i

    def m_lock(bad):
        i = _pick(bad, lambda r: r["a"] == "CloseCheck" and any(x["dir"] == 0 for x in r["res"]))
        if i is not None:
            x = [x for x in bad[i]["res"] if x["dir"] == 0][0]
            x["lt"] -= 1
        return i

    control(ck, recs, cfg, m_claim, "claimable value +1 sat")
    control(ck, recs, cfg, m_csv, "second-level sweep accepted one block before its CSV delay")
    control(ck, recs, cfg, m_drop, "one HTLC resolution missing on the counterparty's commitment")
    control(ck, recs, cfg, m_lock, "timeout spend lock time = expiry - 1")

    def m_fault(bad):
        i = _pick(bad, lambda r: r["a"] == "CloseFault" and r["faults"])
        if i is not None:
            f = bad[i]["faults"][-1]
            f["err"], f["nout"], f["nin"], f["commit"] = 0, 0, 0, 1
        return i

    control(ck, recs, cfg, m_fault, "signer fault swallowed: force close succeeds with an empty summary")

    def m_anchor(bad):
        i = _pick(bad, lambda r: r["a"] == "CloseCheck" and r["x"] >= 1 and r["anc"]["present"] == 1)
        if i is not None:
            bad[i]["anc"]["ok"] = 0
        return i

    def m_anchor_idx(bad):
        # the anchor resolution names the output another resolution already claims
        i = _pick(bad, lambda r: r["a"] == "CloseCheck" and r["apre"]["present"] == 1 and r["self"]["present"] == 1)
        if i is not None:
            bad[i]["apre"]["idx"] = bad[i]["anc"]["idx"] = bad[i]["self"]["idx"]
        return i

    control(ck, recs, cfg, m_anchor, "anchor sweep on the counterparty's commitment rejected by the interpreter")
    control(ck, recs, cfg, m_anchor_idx, "anchor resolution points at the party's balance output")


def evidence(ck, recs, g, obs, rule_extra):
    hashes = set()
    cur = []
    for r in recs + [dict(a="Reset")]:
        if is_reset(r) and cur:
            h, nt = channel_common.nontrivial_hash([x for x in cur if x["a"] not in obs])
            if nt:
                hashes.add(h)
            cur = []
        cur.append(r)
    per_action = {}
    for r in recs:
        per_action[r["a"]] = per_action.get(r["a"], 0) + 1
    ck.cov["evaluations"] += sum(1 for r in recs if not is_reset(r))
    ck.cov["distinct_nontrivial"] += len(hashes)
    ck.cov["traces_validated_against_impl"] += sum(1 for r in recs if is_reset(r))
    ck.cov["events_per_action"] = per_action
    ck.cov["rule"] = ("TLC -simulate behaviours of ChannelGen (constants %s) replayed on two real LightningChannels "
                      "(7 channel types round-robin, opener chosen by TLC); distinct = distinct (type, opener, action "
                      "sequence) containing a sign or revoke; " % g) + rule_extra
    ck.cov["trusted_base"] = ["TLC 1.8.0", "CommunityModules Json", "btcd txscript engine (script verdicts)",
                              "executor: field copies of resolutions / retributions, choice of witness type as in "
                              "contractcourt's resolvers, transaction assembly as in sweep.createSweepTx",
                              "transcription of lnwallet/channeldb into spec/Channel; BOLT-3 weights and dust rule in "
                              "ChannelTrace.TypeTable; fixture CSV delays / dust limits as constants"]
    ck.assumptions += ["link-faithful schedules (Fused): receive commitment_signed and revoke are one step, as in htlcswitch",
                       "fixture capacity lowered to 1 000 000 sat so msat values fit TLC's 32-bit integers",
                       "AddHTLC constraint rejections are not judged; the behaviour ends there",
                       "bolt kvdb backend only; no aux (custom channel) leaves",
                       "fee sufficiency of sweeps and the anchors' CPFP fee logic (CommitFee / CommitWeight of the anchor "
                       "resolution, budgets) are not part of the property; that the anchor resolution IS a valid spend is"]


WSHIM = {"lnwallet/zz_verif_c04_export.go": os.path.join(core.VERIF, "harness", "lnwallet", "c04_export.go"),
         "lnwallet/zz_verif_c05_export.go": os.path.join(core.VERIF, "harness", "lnwallet", "c05_export.go")}
WHICH = {0: "own", 1: "remote", 2: "pending"}


def watcher_keyfn(badrec, hdr, inv):
    return "C05:watcher:%s:CloseCheck:%s:%s" % (inv, WHICH.get(badrec.get("x"), "?"), hdr.get("type"))


def watcher_controls(ck, recs, cfg):
    cc = lambda r: r["a"] == "CloseCheck" and r["err"] == ""

    def m_key(bad):
        i = _pick(bad, lambda r: cc(r) and r["x"] == 2)
        if i is not None:
            bad[i]["ckey"] = 1
        return i

    def m_htlc(bad):
        # what a wrong commit point does: the descriptor of one HTLC resolution does not match the real output
        i = _pick(bad, lambda r: cc(r) and r["x"] == 2 and r["res"])
        if i is not None:
            bad[i]["res"][0]["desc"], bad[i]["res"][0]["e1"] = 0, 0
        return i

    def m_set(bad):
        i = _pick(bad, lambda r: cc(r) and r["x"] >= 1)
        if i is not None:
            bad[i]["nset"] += 1
        return i

    def m_anchor(bad):
        i = _pick(bad, lambda r: cc(r) and r["x"] >= 1 and r["anc"]["present"] == 1)
        if i is not None:
            bad[i]["anc"]["ok"] = 0
        return i

    def m_noanchor(bad):
        i = _pick(bad, lambda r: cc(r) and r["apre"]["present"] == 1)
        if i is not None:
            bad[i]["apre"] = dict(present=0, idx=-1, val=0, desc=-1, ok=-1)
        return i

    control(ck, recs, cfg, m_key, "watcher: pending commitment classified as the current one", nmax=2500)
    control(ck, recs, cfg, m_htlc, "watcher: HTLC resolution of the pending commitment does not spend the real output", nmax=2500)
    control(ck, recs, cfg, m_set, "watcher: one HTLC too many in the CommitSet", nmax=2500)
    control(ck, recs, cfg, m_anchor, "anchor sweep of the counterparty's commitment rejected by the interpreter", nmax=2500)
    control(ck, recs, cfg, m_noanchor, "no pre-confirmation anchor resolution although the anchor exists", nmax=2500)


def watcher_part(ck, files, extra_overlay):
    """C05 (d): close summaries obtained through contractcourt's real chainWatcher."""
    prop = "C05"
    every = PROFILE[prop]["wevery"][ck.tier]
    ov = dict(WSHIM)
    ov.update(channel_common.fixture_overlay(ck))
    ov.update(extra_overlay or {})
    res = ck.go_test("./contractcourt/", "^TestVerifC05Watch$", ["contractcourt/c05_watch_test.go"], name="go_watch",
                     env={"VERIF_SCHED": os.path.dirname(files[0]), "VERIF_TYPES": ALL_TYPES,
                          "VERIF_CLOSE_EVERY": every, "VERIF_THAW": 600,
                          "VERIF_WATCH_STRIDE": PROFILE[prop]["wstride"][ck.tier]},
                     timeout=3000, extra_overlay=ov)
    trace = os.path.join(res["dir"], "trace.ndjson")
    if not os.path.exists(trace) or os.path.getsize(trace) == 0:
        raise Inconclusive("watcher executor produced no trace:\n" + res["out"][-3000:])
    if res["rc"] != 0 and "panic:" in res["out"]:
        ck.violation("C05:watcher:panic", "real contractcourt/lnwallet code panicked while the chain watcher handled a "
                     "commitment of a spec behaviour", files={"go.out": os.path.join(res["dir"], "go.out")},
                     text=res["out"][-4000:])
        return
    if res["rc"] != 0:
        raise Inconclusive("watcher executor failed:\n" + res["out"][-3000:])
    recs = core.read_ndjson(trace)
    cfg = "ChannelCloseTrace_C05W.cfg"
    nviol = len(ck.violations) + len(ck.known_hits)
    ok = judge(ck, prop, recs, cfg, ("CloseCheck",), "C05 (chain watcher)", keyfn=watcher_keyfn, tag="w")
    ndiv = res["out"].count("VERIF-DIVERGED ")
    if ndiv and ok and len(ck.violations) + len(ck.known_hits) == nviol:
        raise Inconclusive("%d behaviours could not be replayed to the end by the watcher executor, yet every "
                           "recorded step conforms" % ndiv)
    cc = [r for r in recs if r["a"] == "CloseCheck"]
    ck.cov["evaluations"] += sum(1 for r in recs if not is_reset(r))
    ck.cov["traces_validated_against_impl"] += sum(1 for r in recs if is_reset(r))
    ck.cov["watcher_close_checks"] = dict(
        rule="close summaries dispatched by a real chainWatcher (handleCommitSpend) per party, every %d-th step and "
             "whenever a pending remote commitment exists; every %d-th behaviour" % (every, PROFILE[prop]["wstride"][ck.tier]),
        total=len(cc), own=sum(1 for r in cc if r["x"] == 0), remote=sum(1 for r in cc if r["x"] == 1),
        pending=sum(1 for r in cc if r["x"] == 2), htlc_resolutions=sum(len(r["res"]) for r in cc),
        pending_with_htlc_resolutions=sum(1 for r in cc if r["x"] == 2 and r["res"]),
        counterparty_tx_taken_from_the_counterparty=sum(1 for r in cc if r["x"] >= 1 and r["commit"] == 1),
        anchors_swept=sum(1 for r in cc if r["anc"]["present"] == 1),
        no_anchor_resolution=sum(1 for r in cc if r["anc"]["present"] == 0 and r["apre"]["present"] == 0),
        types=sorted({r.get("type") for r in recs if is_reset(r)}))
    big = [r for r in cc if r["x"] == 2 and r["res"]]
    if big:
        r = big[len(big) // 2]
        ck.cov["samples"].append(dict(watcher_close_check={k: r[k] for k in (
            "p", "x", "h", "nout", "nin", "commit", "claim", "self", "anc", "apre", "ckey", "nset")}))
    if ok and len(ck.violations) + len(ck.known_hits) == nviol:
        watcher_controls(ck, recs, cfg)


def run(ck, extra_overlay=None):
    prop = "C05"
    files, g = model_and_behaviours(ck, prop)
    every = PROFILE[prop]["every"][ck.tier]
    res = ck.go_test("./lnwallet/", "^TestVerifC05Close$",
                     ["lnwallet/channel_exec_test.go", "lnwallet/c05_close_test.go"],
                     env={"VERIF_SCHED": os.path.dirname(files[0]), "VERIF_TYPES": ALL_TYPES,
                          "VERIF_CLOSE_EVERY": every, "VERIF_THAW": 600},
                     timeout=3000, extra_overlay=dict(channel_common.fixture_overlay(ck), **(extra_overlay or {})))
    trace = os.path.join(res["dir"], "trace.ndjson")
    if not os.path.exists(trace) or os.path.getsize(trace) == 0:
        raise Inconclusive("executor produced no trace:\n" + res["out"][-3000:])
    if res["rc"] != 0 and "panic:" in res["out"]:
        ck.violation("C05:panic", "real lnwallet code panicked while computing close summaries for a spec behaviour",
                     files={"go.out": os.path.join(res["dir"], "go.out")}, text=res["out"][-4000:])
        return
    if res["rc"] != 0:
        raise Inconclusive("executor failed:\n" + res["out"][-3000:])
    recs = core.read_ndjson(trace)
    cfg = "ChannelCloseTrace_C05.cfg"
    obs = ("CloseCheck", "CloseFault")
    ok = judge(ck, prop, recs, cfg, obs, "C05")
    ndiv = res["out"].count("VERIF-DIVERGED ")
    if ndiv and ok and not ck.violations and not ck.known_hits:
        raise Inconclusive("%d behaviours could not be replayed to the end, yet every recorded step conforms" % ndiv)
    cc = [r for r in recs if r["a"] == "CloseCheck"]
    evidence(ck, recs, g, obs,
             "close checks on reloaded channels after every %s call and whenever a pending remote commitment "
             "exists: own commitment / counterparty's current / pending" % ("" if every <= 1 else "%d-th" % every))
    ck.cov["close_checks"] = dict(
        total=len(cc), own=sum(1 for r in cc if r["x"] == 0), remote=sum(1 for r in cc if r["x"] == 1),
        pending=sum(1 for r in cc if r["x"] == 2), htlc_resolutions=sum(len(r["res"]) for r in cc),
        own_on_live_object_mid_dance_or_at_end=sum(1 for r in cc if r.get("live") == 1),
        own_balance_output_trimmed=sum(1 for r in cc if r["self"]["present"] == 0),
        anchor_resolutions=dict(
            own=sum(1 for r in cc if r["x"] == 0 and r["anc"]["present"] == 1),
            remote=sum(1 for r in cc if r["x"] == 1 and r["anc"]["present"] == 1),
            pending=sum(1 for r in cc if r["x"] == 2 and r["anc"]["present"] == 1),
            pre_confirmation=sum(1 for r in cc if r["apre"]["present"] == 1),
            interpreter_runs=sum((r["anc"]["ok"] != -1) + (r["apre"]["ok"] != -1) for r in cc)),
        script_executions=sum(sum(1 for k in ("e1", "e1lo", "cltv", "agg", "e2", "e2lo", "e2cl") if x[k] != -1)
                              for r in cc for x in r["res"]) + sum(
            sum(1 for k in ("ok", "lo", "cl") if r["self"][k] != -1) + (1 if r["commit"] != -1 and r["x"] == 0 else 0)
            for r in cc))
    # how many of the judged commitments carried HTLCs WITHOUT an output (trimmed), per the executor's own projection
    trimmed, last = 0, None
    for r in recs:
        if r["a"] == "CloseCheck" and last is not None and r["err"] == "":
            chain = last["sh"][r["p"]]["LC" if r["x"] == 0 else "RC"]
            c = chain[0] if r["x"] < 2 else (chain[1] if len(chain) > 1 else None)
            if c is not None and len(c["outs"]) + len(c["ins"]) > len(r["res"]):
                trimmed += 1
        elif r["a"] not in ("CloseCheck", "CloseFault", "Reset"):
            last = r
    ck.cov["close_checks"]["commitments_with_trimmed_htlcs"] = trimmed
    cf = [r for r in recs if r["a"] == "CloseFault"]
    ck.cov["close_checks"]["signer_fault_force_closes"] = dict(
        states=len(cf), faulted_calls=sum(len(r["faults"]) for r in cf),
        reported_as_error=sum(1 for r in cf for f in r["faults"] if f["err"] == 1))
    big = [r for r in cc if len(r["res"]) >= 2]
    if big:
        r = big[len(big) // 2]
        ck.cov["samples"].append(dict(close_check={k: r[k] for k in ("p", "x", "h", "nout", "nin", "commit", "claim", "self")},
                                      first_resolution=r["res"][0]))
    if ok and not ck.violations:
        c05_controls(ck, recs, cfg)
    try:
        watcher_part(ck, files, extra_overlay)
    except Inconclusive as e:
        if not ck.violations:
            raise
        # what part (b)/(c) found stands; the watcher part could not be decided on this tree
        ck.notes.append("chain-watcher part inconclusive after violations of the lnwallet part: %s" % str(e)[:500])
