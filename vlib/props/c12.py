"""C12 The node goes on chain before HTLC deadlines and disposes of every HTLC once.

spec/ChainActions - a small state machine shaped like contractcourt.ChannelArbitrator (cell = HTLCs with their
presence absent/dust/output on the local / remote / remote-pending commitment, preimage, expiry, forwarded/own;
actions Start, BlockEpoch, UserForceClose, CloseEvent(L|R|P|breach|coop) and one action per stateStep case).
  (a) exhaustive TLC over every cell x every path (one HTLC: everything; two and three HTLCs: bounded domains):
      the go-on-chain invariants, resolver / closed-out dispositions hold; the fail-back disposition deviates only in
      the named classes F3a/F3b/F3c/F3d (OnlyKnownClasses); one witness run per class (TLC's counterexample = cell + path);
      TLC prints the set of deviating cell classes the model predicts;
  (b) ChainActionsGen: every (cell, path) with one HTLC (BFS), seeded -simulate for two and three HTLCs;
  (c) harness/contractcourt/c12_test.go drives a real, started ChannelArbitrator (real bolt log) through every
      schedule, 3x (quick) / 8x (thorough) - the classification ranges over Go maps;
  (d) ChainActionsTrace validates every distinct recorded run: Conform* (what the arbitrator did = the model's history),
      the property's invariants on that history; deviations of the named classes are announced (<<"QUIRK", key, line>>)
      and reported through ck.violation(key) - keys "F3a:<on[L]>,<on[R]>,<on[P]>,<conf>,<prior>", "F3b:...", "F3c:...",
      "F3d:..."; anything else is rejected (deadlock / invariant) and reported with key "C12:<invariant>:...";
  (e) observed keys must be among the predicted ones; thorough: every predicted deterministic class is reproduced;
  (f) negative controls: a corrupted fail-back count must be rejected; a F3 trace must be rejected in strict mode.

Part H - the HISTORY dimension of the go-to-chain decision (spec/ChainActions/ChainActionsHist*.tla, follow-up b12):
a running arbitrator that sees a sequence of events (Start, Block, HtlcUpdate = notifyContractUpdate, SignalUpdate =
UpdateContractSignals, AddInvoice / LearnPreimage between two blocks, ClockAdvance); the first sentence of C12 must hold
at every block of every history.
  (h1) exhaustive TLC (ChainActionsHistMC): 1 HTLC with the full attribute domain, 2 HTLCs with bounded domains; two
       non-vacuity controls (StaleLookups, SignalRestartsGrace: the model check must fail GoesOnChainInTimeH);
  (h2) ChainActionsHistGen: TLC -simulate from a seeded sample of universes (1-3 HTLCs; the sample replaces
       ChainActionsHistCells.tla in the scratch copy);
  (h3) harness/contractcourt/c12_hist_test.go replays every history on a real, started ChannelArbitrator (same go test
       invocation as (c)) and records state / ForceCloseChan / PublishTx / fail-backs after every event;
  (h4) ChainActionsHistTrace: the outcome of every chain-trigger pass is taken from the recorded line and judged by the
       property invariants (GoesOnChainInTimeH, GoesOnChainOnlyWithReasonH, ForceClosesOnceH) and by conformance with
       the code-shaped decision; a rejection is reported with key "C12:Hist:<invariant>:<event>";
  (h5) negative controls: the decision erased from a recorded history (state / calls of the deciding line and all later
       ones reset) and a fail-back count + 1 must both be rejected.
C12_SKIP_HIST=1 skips part H, C12_ONLY_HIST=1 runs part H alone (development).

Part C - the CONFIRMATION layer around the classification (spec/ChainActions/ChainActionsConf*.tla, follow-ups b12c/b12d):
ChainActions takes the CommitSet as given; here the three commitments are snapshots of a running commitment protocol
(AAdd / BAdd / ARemove / BRemove / AFee / ASign / BRevoke / BSign; AFee = update_fee, which makes the trim threshold differ
between the commitments), Spend(c) lets one of them spend the funding output and the
chain watcher names the confirmed commitment and hands over the HTLC sets and resolutions, Close is the arbitrator's pass,
and Restart / Expire / Claim(i) / TimeoutSpend(i) follow each resolver until its output is spent.  The property (second and
third sentence of C12) is written over the chain's truth: WatcherNamesConfirmed, ResolverPerOutput, ResolverOwnsOutput,
FailBackOnce, SettleOnce, NoFailBackWithOutput, ClosedOutOnce, QuietBefore.
  (c1) exhaustive TLC (ChainActionsConfMC, 2 slots) + two non-vacuity controls (WatcherConfusesPending, RelaunchUsesAllSets);
  (c2) ChainActionsConfGen: TLC -simulate (3 slots, three lengths of the link phase), one schedule per behaviour;
  (c3) harness/contractcourt/c12_conf_test.go replays every schedule on a real lnwallet channel pair, a real chainWatcher
       (handleCommitSpend), a real started ChannelArbitrator with its resolvers on a bolt log and an outpoint-faithful notifier
       (same go test invocation as (c) and (h3));
  (c4) ChainActionsConfTrace: the watcher's key / sets / resolutions, the HTLC a relaunched resolver carries and the HTLC a
       resolver reports upstream are taken from the recorded line and judged by the property; everything else by Conform*;
       a rejection is reported with key "C12:Conf:<invariant>:<event>";
  (c5) negative controls: fail-back count + 1, the pending key renamed to the current one on a recorded Spend line, the HTLC
       of a relaunched resolver exchanged on a recorded Restart line - all three must be rejected.
C12_SKIP_CONF=1 skips part C, C12_ONLY_CONF=1 runs part C alone (development).

Environment (development / controls): C12_OVERLAY='contractcourt/channel_arbitrator.go=/path/patched.go' (or VERIF_MUTATION),
C12_F3C_REPAIRED=0 (model and validation with the order-dependent merge of the code before fix 1eb7c38; default 1),
C12_F3AB_REPAIRED=1 (validate against the model with the candidate policy EarlyOK - use with mutations/C12/repairs/F3ab_*.diff),
C12_KNOWN_GLOBS='F3a:*,F3b:*' (treat these keys as listed in known_findings.json, development only),
C12_MC_WORKERS (default 4), C12_SKIP_MC2=1 (skip the 2/3-HTLC model checking), C12_SKIP_MC=1 (skip all model checking; control runs).
"""
import collections
import concurrent.futures
import copy
import json
import os
import random
import re

from .. import core
from ..core import Inconclusive

SPEC = os.path.join(core.VERIF, "spec", "ChainActions")
LEVEL = "model_checking"
PKG = "./contractcourt/"
HARNESS = ["contractcourt/c12_test.go"]
HARNESS_ALL = HARNESS + ["contractcourt/c12_hist_test.go", "contractcourt/c12_conf_test.go"]
MC_WORKERS = int(os.environ.get("C12_MC_WORKERS", "4"))
# the tree merges the two remote HTLC sets deterministically since fix 1eb7c38 (F3c); C12_F3C_REPAIRED=0 = the older code
REPAIRED = os.environ.get("C12_F3C_REPAIRED", "1") not in ("", "0")
REPAIRED_AB = os.environ.get("C12_F3AB_REPAIRED", "") not in ("", "0")
SKIP_HIST = os.environ.get("C12_SKIP_HIST", "") not in ("", "0")
SKIP_CONF = os.environ.get("C12_SKIP_CONF", "") not in ("", "0")

WHAT = {
    "F3a": "offered HTLC that is dust on the confirmed commitment (or dangling dust) is NEVER failed back upstream when the "
           "close event arrives after we decided to broadcast: stateStep(StateContractClosed) drops the recomputed "
           "HtlcFailDustAction set, the StateDefault pass saw only local dust / near-expiry dangling HTLCs",
    "F3b": "offered HTLC is failed back upstream when we decide to broadcast (dust on our commitment, or dangling dust near "
           "expiry) and then a commitment on which it has a real OUTPUT confirms: fail-back although an output confirms, a "
           "resolver is launched as well",
    "F3c": "offered HTLC absent from our commitment with DIFFERENT dust status on the remote and the remote-pending "
           "commitment: checkRemoteDanglingActions merges both remote sets while ranging over a Go map, the classification "
           "(HtlcFailDustAction vs HtlcFailDanglingAction) depends on map order: 0, 1 or 2 fail-backs for the same input",
    "F3d": "breach close: stateStep(StateContractClosed) fails back EVERY offered HTLC on the remote commitments, including "
           "the dust ones that the StateDefault pass has already failed back: two ResolutionMsgs for one HTLC",
}


STATE = {}


def is_reset(r):
    return r.get("a") == "Reset"


def overlay():
    ov = {}
    for kv in filter(None, os.environ.get("C12_OVERLAY", "").split(",")):
        k, v = kv.split("=", 1)
        if not os.path.exists(v):
            raise Inconclusive("C12_OVERLAY: %s does not exist" % v)
        ov[k] = v
    return ov


def tconsts(nh, known=True):
    return {"NH": nh, "F3cRepaired": "TRUE" if REPAIRED else "FALSE", "F3abRepaired": "TRUE" if REPAIRED_AB else "FALSE",
            "F3Known": "TRUE" if known else "FALSE"}


# ---------------------------------------------------------------------------------------------- model checking
def parse_keys(out, tag):
    return sorted(set(re.findall(r'<<"%s", "([^"]+)"' % tag, out)))


def model_checking(ck):
    thorough = ck.tier == "thorough"
    merge = "TRUE" if REPAIRED else "FALSE"
    base = {"WitClass": '"none"', "F3cRepaired": merge}
    r = ck.model_check(SPEC, "ChainActionsMC", "ChainActionsMC.cfg", "1 HTLC: every cell x every path",
                       constants=dict(base, DeltaPairs="Deltas2" if thorough else "Deltas46"),
                       name="mc_nh1", workers=MC_WORKERS, timeout=1800)
    predicted = parse_keys(r.out, "F3KEY")
    if not predicted:
        raise Inconclusive("the model predicts no deviation class at all (Announce printed nothing)")
    ck.cov["predicted_classes_nh1"] = len(predicted)
    # one witness per class: TLC's counterexample is a cell + path of that class
    wit = {}
    for cls in ("F3a", "F3b", "F3c", "F3d"):
        # F3c is a class of the order-dependent merge (the code before fix 1eb7c38): its witness documents what the fix removed
        w = ck.model_check(SPEC, "ChainActionsMC", "ChainActionsWit.cfg",
                           "witness " + cls + (" (order-dependent merge, before the fix)" if cls == "F3c" else ""),
                           must_hold=False,
                           constants={"WitClass": '"%s"' % cls, "F3cRepaired": "FALSE" if cls == "F3c" else merge},
                           name="wit_" + cls, workers=2, timeout=900)
        if w.violation != "invariant WitnessInv":
            raise Inconclusive("class %s is not reachable in the model (vacuous class): %s" % (cls, w.violation))
        st = core.last_state(w.cex or "")
        m = re.search(r"htlc = (<<.*?>>)\n/\\", st, re.S)
        wit[cls] = re.sub(r"\s+", " ", m.group(1))[:300] if m else "?"
    ck.cov["class_witnesses"] = wit
    # with the merge repaired the class F3c is gone (and only it)
    w = ck.model_check(SPEC, "ChainActionsMC", "ChainActionsWit.cfg", "merge repaired: no F3c", must_hold=True,
                       constants={"WitClass": '"F3c"', "F3cRepaired": "TRUE"}, name="mc_f3c_repaired", workers=MC_WORKERS,
                       timeout=1800)
    # the candidate policy for F3a/F3b/F3d (EarlyOK): no deviation class at all, with the merge as it is
    w = ck.model_check(SPEC, "ChainActionsMC", "ChainActionsMC.cfg", "candidate policy F3ab: property holds in every cell",
                       constants=dict(base, F3abRepaired="TRUE"), name="mc_f3ab_candidate", workers=MC_WORKERS, timeout=1800)
    left = parse_keys(w.out, "F3KEY")
    if left:
        raise Inconclusive("the candidate policy still deviates in the model: %s" % left[:5])
    if os.environ.get("C12_SKIP_MC2"):
        ck.notes.append("C12_SKIP_MC2: the 2/3-HTLC model checking runs were skipped (development)")
        return predicted
    # two HTLCs
    c2 = dict(base, NH=2, Rels="RelsSmall", MaxBlocks=1, DataLoss="DLNo", Fwds="FwdBoth" if thorough else "FwdYes")
    ck.model_check(SPEC, "ChainActionsMC", "ChainActionsMC.cfg", "2 HTLCs (rel in {0, far}, 1 block%s)" % (
        "" if thorough else ", forwarded only"), constants=c2, name="mc_nh2", workers=MC_WORKERS, timeout=3000)
    if thorough:
        c3 = dict(base, NH=3, Rels="RelsFar", Dirs="DirsOut", Fwds="FwdYes", MaxBlocks=0, DataLoss="DLNo")
        ck.model_check(SPEC, "ChainActionsMC", "ChainActionsMC.cfg", "3 offered HTLCs (far from expiry)", constants=c3,
                       name="mc_nh3", workers=MC_WORKERS, timeout=3000)
    return predicted


# ---------------------------------------------------------------------------------------------- schedules
def parse_scheds(out):
    res = []
    for m in re.finditer(r'<<"SCHED", "(.*)">>', out):
        res.append(json.loads(m.group(1).replace('\\"', '"').replace("\\\\", "\\")))
    return res


def sched_key(s):
    return core.sha(json.dumps({k: s[k] for k in ("hasP", "grace", "dl", "dout", "din", "htlc", "ev")}, sort_keys=True))


def gen_exhaustive(ck):
    r = ck.tlc(SPEC, "ChainActionsGen", "ChainActionsGen.cfg", name="gen_nh1", mode="mc", workers=2, timeout=1800)
    if r.error or r.violation:
        raise Inconclusive("ChainActionsGen (1 HTLC) failed: %s\n%s" % (r.error or r.violation, r.out[-2000:]))
    s = parse_scheds(r.out)
    core.log("  [gen] 1 HTLC, exhaustive: %d (cell, path) schedules, %.0fs" % (len(s), r.wall))
    ck.cov["model_runs"].append(dict(what="generate 1 HTLC exhaustive", schedules=len(s), states=r.distinct,
                                     wall_s=round(r.wall, 1)))
    if not s:
        raise Inconclusive("no schedules generated")
    return s


def gen_simulate(ck, nh, num, consts, name):
    c = dict(consts, NH=nh)
    r = ck.tlc(SPEC, "ChainActionsGen", "ChainActionsGen.cfg", name=name, mode="sim", workers=1, sim_num=num,
               sim_depth=40, constants=c, timeout=1800)
    if r.error or r.violation:
        raise Inconclusive("ChainActionsGen (%d HTLCs) failed: %s\n%s" % (nh, r.error or r.violation, r.out[-2000:]))
    s = parse_scheds(r.out)
    core.log("  [gen] %d HTLCs, simulate: %d schedules, %.0fs" % (nh, len(s), r.wall))
    ck.cov["model_runs"].append(dict(what="generate %d HTLCs simulate" % nh, schedules=len(s), wall_s=round(r.wall, 1)))
    return s


def stratified(scheds, rng, per_group, extra):
    """Every (direction, presence pattern, pending exists, path) gets per_group schedules, the rest is random."""
    groups = collections.defaultdict(list)
    for i, s in enumerate(scheds):
        h = s["htlc"][0]
        path = tuple((e["a"], e["k"]) for e in s["ev"])
        groups[(h["dir"], h["onL"], h["onR"], h["onP"], s["hasP"], path)].append(i)
    pick = set()
    for k in sorted(groups):
        g = groups[k]
        for i in rng.sample(g, min(per_group, len(g))):
            pick.add(i)
    rest = [i for i in range(len(scheds)) if i not in pick]
    for i in rng.sample(rest, min(extra, len(rest))):
        pick.add(i)
    return [scheds[i] for i in sorted(pick)]


PV = ("dust", "output")


def out_patterns(hp):
    if not hp:
        return [("absent", r, "absent") for r in PV] + [(l, r, "absent") for l in PV for r in PV]
    return ([("absent", "absent", p) for p in PV] + [("absent", r, p) for r in PV for p in PV]
            + [(l, r, p) for l in PV for r in PV for p in PV] + [("absent", r, "absent") for r in PV])


def in_patterns(hp):
    if not hp:
        return [(l, "absent", "absent") for l in PV] + [(l, r, "absent") for l in PV for r in PV]
    return ([(l, "absent", "absent") for l in PV] + [(l, "absent", p) for l in PV for p in PV]
            + [(l, r, "absent") for l in PV for r in PV] + [(l, r, p) for l in PV for r in PV for p in PV])


def gen_random(rng, num):
    """Free-running seeded driver: inputs the model checker never enumerates - 3 to 5 HTLCs, arbitrary broadcast
    deltas, expiries up to 3 blocks around the cut-off, up to 4 blocks, force-close requests in any state."""
    res = []
    for _ in range(num):
        hp = rng.random() < 0.7
        nh = rng.choice((3, 3, 4, 5))
        hs = []
        for _ in range(nh):
            if rng.random() < 0.6:
                pat = rng.choice(out_patterns(hp))
                hs.append({"dir": "out", "fwd": int(rng.random() < 0.7), "pre": int(rng.random() < 0.3),
                           "rel": rng.choice((-3, -2, -1, 0, 1, 2, -50, -50)), "onL": pat[0], "onR": pat[1], "onP": pat[2]})
            else:
                pat = rng.choice(in_patterns(hp))
                hs.append({"dir": "in", "fwd": 0, "pre": int(rng.random() < 0.5),
                           "rel": rng.choice((-3, -2, -1, 0, 1, 2, -50, -50)), "onL": pat[0], "onR": pat[1], "onP": pat[2]})
        ev = [{"a": "Start", "k": ""}]
        for _ in range(rng.randint(0, 5)):
            ev.append({"a": rng.choice(("BlockEpoch", "BlockEpoch", "UserForceClose")), "k": ""})
        ev.append({"a": "CloseEvent", "k": rng.choice(["L", "R", "breach"] + (["P"] if hp else []))})
        res.append({"hasP": int(hp), "grace": int(rng.random() < 0.6), "dl": int(rng.random() < 0.25),
                    "dout": rng.randint(1, 12), "din": rng.randint(1, 12), "htlc": hs, "ev": ev})
    return res


def assign_idx(s, rng):
    """HtlcIndex per HTLC: offered and received HTLCs are numbered by independent counters. Mostly as in a real channel
    (both counters from 0, so the first offered and the first received HTLC share index 0), sometimes arbitrary distinct
    numbers per direction (shared or not)."""
    for d in ("out", "in"):
        hs = [h for h in s["htlc"] if h["dir"] == d]
        if rng is None or rng.random() < 0.7:
            ids = list(range(len(hs)))
            if rng is not None:
                rng.shuffle(ids)
        else:
            ids = rng.sample(range(0, max(4, len(hs) + 1)), len(hs))
        for h, i in zip(hs, ids):
            h["idx"] = i
    for h in s["htlc"]:
        h.setdefault("idx", 0)
    return s


def gen_mixed(ck):
    """Every (cell, path) with one offered and one received HTLC far from expiry (BFS): the cells in which the two
    directions' index spaces meet."""
    c = {"NH": 2, "Rels": "RelsFar", "Fwds": "FwdYes", "DataLoss": "DLNo", "MaxBlocks": 0}
    r = ck.tlc(SPEC, "ChainActionsGen", "ChainActionsGen.cfg", name="gen_mixed", mode="mc", workers=2, timeout=1800,
               constants=c)
    if r.error or r.violation:
        raise Inconclusive("ChainActionsGen (mixed directions) failed: %s\n%s" % (r.error or r.violation, r.out[-2000:]))
    s = [x for x in parse_scheds(r.out) if sorted(h["dir"] for h in x["htlc"]) == ["in", "out"]]
    core.log("  [gen] one offered + one received HTLC, exhaustive: %d (cell, path) schedules, %.0fs" % (len(s), r.wall))
    ck.cov["model_runs"].append(dict(what="generate offered+received exhaustive", schedules=len(s), states=r.distinct,
                                     wall_s=round(r.wall, 1)))
    if not s:
        raise Inconclusive("no mixed-direction schedules generated")
    return s


def pad(s, nh):
    s = copy.deepcopy(s)
    empty = {"dir": "none", "fwd": 0, "pre": 0, "rel": -50, "onL": "absent", "onR": "absent", "onP": "absent"}
    while len(s["htlc"]) < nh:
        s["htlc"].append(dict(empty))
    return s


# ---------------------------------------------------------------------------------------------- execute + validate
def execute(ck, scheds, name, reps, hist=None, conf=None):
    """One go test invocation for the cell executor and (hist: list of histories) the history executor and (conf: list of
    schedules of part C) the confirmation-layer executor.  Returns the cell trace (and the history trace); the trace of
    part C is left in STATE["ctrace"]."""
    d = ck.scratch("sched_" + name)
    sp = os.path.join(d, "sched.ndjson")
    core.write_ndjson(sp, scheds)
    env = {"VERIF_SCHED": sp, "C12_REPS": reps, "C12_WORKERS": 3, "TMPDIR": "/dev/shm"}
    run = "^TestVerifC12ChainActions$"
    if hist is not None:
        hp = os.path.join(d, "sched_hist.ndjson")
        core.write_ndjson(hp, hist)
        env.update({"C12H_SCHED": hp, "C12H_REPS": 2 if ck.tier == "thorough" else 1})
        run = "^TestVerifC12(ChainActions|Hist)$" if scheds else "^TestVerifC12Hist$"
    if conf is not None:
        cp = os.path.join(d, "sched_conf.ndjson")
        core.write_ndjson(cp, conf)
        env["C12C_SCHED"] = cp
        parts = (["ChainActions"] if scheds else []) + (["Hist"] if hist is not None else []) + ["Conf"]
        run = "^TestVerifC12(%s)$" % "|".join(parts)
    res = ck.go_test(PKG, run, HARNESS_ALL, name="exec_" + name, timeout=2400, env=env, extra_overlay=overlay())
    trace = os.path.join(res["dir"], "trace.ndjson")
    htrace = os.path.join(res["dir"], "trace_hist.ndjson")
    ctrace = os.path.join(res["dir"], "trace_conf.ndjson")
    if res["rc"] != 0 or (scheds and not os.path.exists(trace)) or (hist is not None and not os.path.exists(htrace)) \
            or (conf is not None and not os.path.exists(ctrace)):
        raise Inconclusive("executor failed (%s):\n%s" % (name, res["out"][-3000:]))
    if conf is not None:
        STATE["ctrace"] = ctrace
    return (trace, htrace) if hist is not None else trace


def cell_text(reset):
    hs = ["%s%s%s rel=%s L=%s R=%s P=%s" % (h["dir"], "/fwd" if h["fwd"] else "/own" if h["dir"] == "out" else "",
                                          "/pre" if h["pre"] else "", h["rel"], h["onL"], h["onR"],
                                          h["onP"] if reset["hasP"] else "none")
          for h in reset["htlc"] if h["dir"] != "none"]
    return "[%s] grace=%s dl=%s deltas=%s/%s" % ("; ".join(hs), reset["grace"], reset["dl"], reset["dout"], reset["din"])


def path_text(one):
    return " ".join(r["a"] + ("(%s)" % r["k"] if r.get("k") else "") for r in one
                    if r["a"] in ("Start", "BlockEpoch", "UserForceClose", "CloseEvent"))


def store_trace(ck, recs, line, tag):
    a, b = core.slice_trace(recs, line or 1, is_reset)
    one = recs[a:b]
    d = ck.scratch("fail_" + tag)
    tp = os.path.join(d, "trace.ndjson")
    core.write_ndjson(tp, one)
    r0 = one[0]
    sched = {"id": 1, "hasP": r0["hasP"], "grace": r0["grace"], "dl": r0["dl"], "dout": r0["dout"], "din": r0["din"],
             "htlc": r0["htlc"],
             "ev": [{"a": r["a"], "k": r.get("k", "")} for r in one
                    if r["a"] in ("Start", "BlockEpoch", "UserForceClose", "CloseEvent")]}
    sp = os.path.join(d, "sched.ndjson")
    core.write_ndjson(sp, [sched])
    return one, {"trace.ndjson": tp, "sched.ndjson": sp}


def validate_batches(ck, trace, nh, name, quirks, rejected):
    """Validate a recorded trace file in batches; collect announced keys and rejections."""
    recs = core.read_ndjson(trace)
    batches = core.split_batches(recs, is_reset, max_bytes=40_000_000)

    def one_batch(i, b):
        res = []
        cur = b
        for attempt in range(3):
            p = os.path.join(ck.out, "batch_%s_%d_%d.ndjson" % (name, i, attempt))
            core.write_ndjson(p, cur)
            c = tconsts(nh)
            if "merge" in STATE:
                c["F3cRepaired"] = STATE["merge"]
            v = ck.validate(SPEC, "ChainActionsTrace", "ChainActionsTrace.cfg", p, constants=c,
                            name="val_%s_%d_%d" % (name, i, attempt), timeout=3000)
            if not v["ok"] and "merge" not in STATE and "C12_F3C_REPAIRED" not in os.environ:
                # a tree with the other merge (order-dependent before fix 1eb7c38, deterministic after) is a behaviour of
                # the model with the other value of F3cRepaired only; adopt it if that explains the rejection
                c["F3cRepaired"] = "FALSE" if c["F3cRepaired"] == "TRUE" else "TRUE"
                v2 = ck.validate(SPEC, "ChainActionsTrace", "ChainActionsTrace.cfg", p, constants=c,
                                 name="val_%s_%d_%d_other_merge" % (name, i, attempt), timeout=3000)
                if v2["ok"]:
                    STATE["merge"] = c["F3cRepaired"]
                    v = v2
            res.append((cur, v))
            os.remove(p)
            if v["ok"]:
                break
            # drop the rejected single trace and go on with the rest of the batch
            a, e = core.slice_trace(cur, v["line"] or 1, is_reset)
            cur = cur[:a] + cur[e:]
            if not cur:
                break
        return res

    with concurrent.futures.ThreadPoolExecutor(max_workers=3) as ex:
        futs = [ex.submit(one_batch, i, b) for i, b in enumerate(batches)]
        results = [f.result() for f in futs]
    ntraces = 0
    for res in results:
        for cur, v in res:
            out = v["res"].out
            for m in re.finditer(r'<<"QUIRK", "([^"]+)", (\d+)>>', out):
                k, l = m.group(1), int(m.group(2))
                if k not in quirks:
                    quirks[k] = (cur, l)
            if not v["ok"]:
                rejected.append((cur, v))
        ntraces += sum(1 for r in res[-1][0] if is_reset(r)) if res and res[-1][1]["ok"] else 0
    return recs, ntraces


def report_quirks(ck, quirks, predicted, nh1_only):
    fams = collections.Counter()
    for key in sorted(quirks):
        cur, line = quirks[key]
        fam = key.split(":")[0]
        fams[fam] += 1
        one, files = store_trace(ck, cur, line, key.replace(":", "_").replace(",", "-"))
        what = "real ChannelArbitrator violates C12 in cell class %s: %s. Example: cell %s, path %s, final record %s" % (
            key, WHAT.get(fam, fam), cell_text(one[0]), path_text(one),
            json.dumps({k: one[-2].get(k) for k in ("st", "fails", "closed", "rn", "rk")}))
        ck.violation(key, what, files=files)
    ck.cov["deviation_classes_observed"] = dict(fams)
    return fams


def negative_controls(ck, recs, nh, quirks):
    # (1) corrupt one cumulative fail-back count of a conforming trace
    bad = None
    resets = [i for i, r in enumerate(recs) if is_reset(r)]
    for a in resets[: 400]:
        _, b = core.slice_trace(recs, a + 1, is_reset)
        one = copy.deepcopy(recs[a:b])
        ends = [i for i, r in enumerate(one) if r["a"] == "End"]
        if len(ends) >= 2:
            j = ends[-1]
            one[j]["fails"][0] += 1
            bad = one
            break
    if bad is None:
        raise Inconclusive("no trace for the negative control")
    p = os.path.join(ck.out, "control_fail.ndjson")
    core.write_ndjson(p, bad)
    v = ck.validate(SPEC, "ChainActionsTrace", "ChainActionsTrace.cfg", p, constants=tconsts(nh), name="control_fail")
    if v["ok"]:
        raise Inconclusive("negative control accepted (fail-back count + 1): trace validation is not binding")
    ck.cov.setdefault("negative_controls", []).append(
        dict(mutation="fails[0]+1 on the last End line", rejected_by=v["invariant"], at_line=v["line"]))
    # (2) a recorded run of a named class must be rejected in strict mode (the classes are not silently permitted)
    pick = [k for k in sorted(quirks) if k.split(":")[0] in ("F3a", "F3b", "F3d")]
    if pick:
        cur, line = quirks[pick[0]]
        a, b = core.slice_trace(cur, line, is_reset)
        p = os.path.join(ck.out, "control_strict.ndjson")
        core.write_ndjson(p, cur[a:b])
        v = ck.validate(SPEC, "ChainActionsTrace", "ChainActionsTrace.cfg", p, constants=tconsts(nh, known=False),
                        name="control_strict")
        if v["ok"]:
            raise Inconclusive("strict validation accepted a run of class %s" % pick[0])
        ck.cov["negative_controls"].append(dict(mutation="strict mode (F3Known = FALSE) on a run of class " + pick[0],
                                                rejected_by=v["invariant"], at_line=v["line"]))


# ---------------------------------------------------------------------------------------------- part H: histories
HIST_GRACE = 2
HOUT = [(0, 0, 1), (0, 1, 1), (1, 1, 1), (0, 1, 0)]      # <<L, R, P>> of an offered HTLC, a pending set was reported
HOUT0 = [(0, 1, 0), (1, 1, 0)]
HIN = [(1, 0, 0), (1, 0, 1), (1, 1, 0), (1, 1, 1)]
HIN0 = [(1, 0, 0), (1, 1, 0)]


def hist_is_reset(r):
    return r.get("a") == "Reset"


def hist_model_checking(ck):
    thorough = ck.tier == "thorough"
    ck.model_check(SPEC, "ChainActionsHistMC", "ChainActionsHistMC.cfg", "histories, 1 HTLC: every universe x every history "
                   "(3 blocks, 3 ticks)", name="mch_nh1", workers=MC_WORKERS, timeout=1800)
    c2 = {"NH": 2, "Dusts": "DustNo", "MaxClock": 2}
    if not thorough:
        c2.update({"Cuts": "CutsOne", "Srcs": "SrcBeacon", "MaxH": 2})
    ck.model_check(SPEC, "ChainActionsHistMC", "ChainActionsHistMC.cfg", "histories, 2 HTLCs (%s)" % (
        "cut in {0,1,2,far}, 3 blocks, 2 ticks, no dust" if thorough else "cut in {1,far}, 2 blocks, 2 ticks, beacon only, no dust"),
        constants=c2, name="mch_nh2", workers=MC_WORKERS, timeout=3000)
    if thorough:
        ck.model_check(SPEC, "ChainActionsHistMC", "ChainActionsHistMC.cfg", "histories, 2 HTLCs with dust (cut in {1,far}, 2 blocks, "
                       "2 ticks, beacon only)", name="mch_nh2_dust", workers=MC_WORKERS, timeout=3000,
                       constants={"NH": 2, "Cuts": "CutsOne", "Srcs": "SrcBeacon", "Invoices": "FALSE", "MaxH": 2, "MaxClock": 2})
        ck.model_check(SPEC, "ChainActionsHistMC", "ChainActionsHistMC.cfg", "histories, 3 HTLCs (own payments and received, cut in "
                       "{1,far}, 1 block, 2 ticks, beacon only, no dust)", name="mch_nh3", workers=MC_WORKERS, timeout=3000,
                       constants={"NH": 3, "Cuts": "CutsOne", "Dusts": "DustNo", "Srcs": "SrcBeacon", "Invoices": "FALSE",
                                  "Fwds": "FwdNo", "MaxH": 1, "MaxClock": 2})
    # non-vacuity: the two classes of history-dependent defects must break the property in the model
    ctl = []
    for q in ("StaleLookups", "SignalRestartsGrace"):
        w = ck.model_check(SPEC, "ChainActionsHistMC", "ChainActionsHistMC.cfg", "control: %s must break GoesOnChainInTimeH" % q,
                           must_hold=False, constants={q: "TRUE"}, name="mch_ctl_" + q, workers=2, timeout=900)
        if w.violation != "invariant GoesOnChainInTimeH":
            raise Inconclusive("history model with %s = TRUE does not violate GoesOnChainInTimeH (%s): the invariant is vacuous"
                               % (q, w.violation))
        ctl.append(q)
    ck.cov["hist_model_controls"] = ctl


def hist_cells(rng, n, nh):
    """A seeded sample of universes from the domain of ChainActionsHist!Init."""
    cells = []
    while len(cells) < n:
        hp = rng.random() < 0.6
        attr, onl, onr, onp, known = [], [], [], [], []
        for i in range(nh):
            x = rng.random()
            if x < (0.0 if i == 0 else 0.3):
                attr.append({"dir": "none", "fwd": 0, "cut": 50, "dl": 0, "dr": 0})
                pat, kn = (0, 0, 0), "no"
            elif x < 0.65:
                attr.append({"dir": "out", "fwd": int(rng.random() < 0.45), "cut": rng.choice((0, 1, 1, 2, 2, 3, 3, 4, 5, 50)),
                             "dl": int(rng.random() < 0.2), "dr": int(rng.random() < 0.2)})
                pat = (0, 0, 0) if rng.random() < 0.12 else rng.choice(HOUT if hp else HOUT0)
                kn = "beacon" if rng.random() < 0.12 else "no"
            else:
                attr.append({"dir": "in", "fwd": 0, "cut": rng.choice((0, 1, 1, 2, 2, 3, 3, 4, 5, 50)),
                             "dl": int(rng.random() < 0.2), "dr": int(rng.random() < 0.2)})
                pat = (0, 0, 0) if rng.random() < 0.12 else rng.choice(HIN if hp else HIN0)
                kn = rng.choice(("no", "no", "no", "no", "invoice", "beacon", "registry"))
            onl.append(pat[0]), onr.append(pat[1]), onp.append(pat[2]), known.append(kn)
        c = {"dout": rng.randint(1, 12), "din": rng.randint(1, 12), "grace": HIST_GRACE, "attr": attr, "onL": onl,
             "onR": onr, "onP": onp, "hasP": int(hp), "known": known}
        # HtlcIndex: offered and received HTLCs are numbered by independent counters
        for d in ("out", "in"):
            hs = [a for a in attr if a["dir"] == d]
            ids = list(range(len(hs)))
            rng.shuffle(ids)
            for a, i in zip(hs, ids):
                a["idx"] = i
        for a in attr:
            a.setdefault("idx", 0)
        c["id"] = len(cells) + 1
        cells.append(c)
    return cells


def hist_cells_tla(cells):
    def b(x):
        return "TRUE" if x else "FALSE"

    def sset(v):
        return "{" + ", ".join(str(i + 1) for i, x in enumerate(v) if x) + "}"
    recs = []
    for c in cells:
        attr = ", ".join('[dir |-> "%s", fwd |-> %s, cut |-> %d, dustL |-> %s, dustR |-> %s]' % (
            a["dir"], b(a["fwd"]), a["cut"], b(a["dl"]), b(a["dr"])) for a in c["attr"])
        recs.append('[id |-> %d, hasP |-> %s, onL |-> %s, onR |-> %s, onP |-> %s, attr |-> <<%s>>, known |-> <<%s>>]' % (
            c["id"], b(c["hasP"]), sset(c["onL"]), sset(c["onR"]), sset(c["onP"]), attr,
            ", ".join('"%s"' % k for k in c["known"])))
    return ("------------------------ MODULE ChainActionsHistCells ------------------------\n"
            "(* generated by vlib/props/c12.py: a seeded sample of universes *)\n"
            "Cells == {\n  " + ",\n  ".join(recs) + " }\n"
            "=============================================================================\n")


def hist_generate(ck, rng):
    thorough = ck.tier == "thorough"
    nh = 3
    cells = hist_cells(rng, 400 if thorough else 120, nh)
    d = ck.scratch("hist_cells")
    cp = os.path.join(d, "ChainActionsHistCells.tla")
    open(cp, "w").write(hist_cells_tla(cells))
    num = 8000 if thorough else 1600
    r = ck.tlc(SPEC, "ChainActionsHistGen", "ChainActionsHistGen.cfg", name="genh", mode="sim", workers=1, sim_num=num,
               sim_depth=60, constants={"NH": nh, "Grace": HIST_GRACE}, files={"ChainActionsHistCells.tla": cp}, timeout=1800)
    import glob
    files = glob.glob(os.path.join(r.dir, "b_*.ndjson"))
    if r.error or r.violation or not files:
        raise Inconclusive("history generation failed: %s\n%s" % (r.error or r.violation or "no behaviours", r.out[-2000:]))
    by_id = {c["id"]: c for c in cells}
    seen, hist = set(), []
    for f in sorted(files, key=lambda f: int(re.sub(r"\D", "", os.path.basename(f)) or 0)):
        for b in core.read_ndjson(f):
            c = by_id[b["id"]]
            k = core.sha(json.dumps([c["attr"], c["onL"], c["onR"], c["onP"], c["hasP"], c["known"], b["ev"]], sort_keys=True))
            if k in seen or not any(e["a"] == "Block" for e in b["ev"]):
                continue
            seen.add(k)
            h = {k2: c[k2] for k2 in ("dout", "din", "grace", "attr", "onL", "onR", "onP", "hasP", "known")}
            h.update({"id": len(hist) + 1, "cell": c["id"], "ev": b["ev"]})
            hist.append(h)
        os.remove(f)
    core.log("  [gen] histories: %d behaviours simulated from %d universes, %d distinct with at least one block, %.0fs" % (
        len(files), len(cells), len(hist), r.wall))
    ck.cov["model_runs"].append(dict(what="generate histories (simulate)", behaviours=len(files), universes=len(cells),
                                     distinct=len(hist), wall_s=round(r.wall, 1)))
    if len(hist) < num // 4:
        raise Inconclusive("too few distinct histories generated (%d)" % len(hist))
    return hist


def hist_text(one):
    r0 = one[0]
    hs = []
    for i, a in enumerate(r0["attr"]):
        if a["dir"] == "none":
            continue
        hs.append("#%d %s%s cutoff=%d L%dR%dP%d%s%s known=%s" % (
            i + 1, a["dir"], ("/fwd" if a["fwd"] else "/own") if a["dir"] == "out" else "", 100 + a["cut"],
            r0["onL"][i], r0["onR"][i], r0["onP"][i], " dustL" if a["dl"] else "", " dustR" if a["dr"] else "", r0["known"][i]))
    evs = []
    for r in one[1:]:
        x = r["a"]
        if x == "HtlcUpdate":
            x += "(%s=%s)" % (r["k"], "".join(str(v) for v in r["set"]))
        elif x in ("LearnPreimage", "AddInvoice"):
            x += "(#%d%s)" % (r["s"], "," + r["src"] if r["src"] else "")
        elif x == "Block":
            x += "(%d)" % r["height"]
        evs.append("%s->%s" % (x, r["st"][:7]) if r["a"] in ("Start", "Block") else x)
    return "[%s] hasP=%s grace=%s ticks; %s" % ("; ".join(hs), r0["hasP"], r0["grace"], " ".join(evs))


def hist_store(ck, recs, line, tag):
    a, b = core.slice_trace(recs, line or 1, hist_is_reset)
    one = recs[a:b]
    d = ck.scratch("fail_" + tag)
    tp = os.path.join(d, "trace_hist.ndjson")
    core.write_ndjson(tp, one)
    r0 = one[0]
    sched = {k: r0[k] for k in ("dout", "din", "grace", "attr", "onL", "onR", "onP", "hasP", "known")}
    sched.update({"id": 1, "cell": r0.get("cell", 0),
                  "ev": [{k: r[k] for k in ("a", "k", "set", "s", "src")} for r in one[1:]]})
    sp = os.path.join(d, "sched_hist.ndjson")
    core.write_ndjson(sp, [sched])
    return one, {"trace_hist.ndjson": tp, "sched_hist.ndjson": sp}


def hist_validate(ck, trace, name):
    """Validate the recorded histories in batches; returns (records, accepted traces, rejections)."""
    recs = core.read_ndjson(trace)
    nh = max(len(r["attr"]) for r in recs if hist_is_reset(r))
    batches = core.split_batches(recs, hist_is_reset, max_bytes=12_000_000)
    consts = {"NH": nh, "Grace": HIST_GRACE}

    def one_batch(i, b):
        res, cur = [], b
        for attempt in range(4):
            p = os.path.join(ck.out, "hbatch_%s_%d_%d.ndjson" % (name, i, attempt))
            core.write_ndjson(p, cur)
            v = ck.validate(SPEC, "ChainActionsHistTrace", "ChainActionsHistTrace.cfg", p, constants=consts,
                            name="valh_%s_%d_%d" % (name, i, attempt), timeout=3000)
            os.remove(p)
            res.append((cur, v))
            if v["ok"]:
                break
            a, e = core.slice_trace(cur, v["line"] or 1, hist_is_reset)
            cur = cur[:a] + cur[e:]
            if not cur:
                break
        return res

    with concurrent.futures.ThreadPoolExecutor(max_workers=3) as ex:
        results = [f.result() for f in [ex.submit(one_batch, i, b) for i, b in enumerate(batches)]]
    ok, rejected = 0, []
    for res in results:
        for cur, v in res:
            if not v["ok"]:
                rejected.append((cur, v))
        if res and res[-1][1]["ok"]:
            ok += sum(1 for r in res[-1][0] if hist_is_reset(r))
    return recs, ok, rejected


def hist_report(ck, rejected, replay=False):
    seen = set()
    for cur, v in rejected:
        badl = cur[min(max((v["line"] or 1) - 1, 0), len(cur) - 1)]
        inv = (v["invariant"] or "rejected").replace("invariant ", "")
        key = "C12:Hist:%s:%s" % (inv, "replay" if replay else badl.get("a"))
        if key in seen:
            continue
        seen.add(key)
        one, files = hist_store(ck, cur, v["line"], "hist_rejected")
        a, _ = core.slice_trace(cur, v["line"] or 1, hist_is_reset)
        upto = one[: max(2, (v["line"] or 1) - a)]
        ck.violation(key, "real ChannelArbitrator breaks C12 in a HISTORY (spec/ChainActions/ChainActionsHist, %s at event %d "
                          "of the history): %s || rejected record: %s" % (
                              inv, (v["line"] or 1) - a - 1, hist_text(upto), json.dumps(badl)[:300]),
                     files=files, text=v["cex"])


def hist_negative_controls(ck, recs):
    consts = {"NH": max(len(r["attr"]) for r in recs if hist_is_reset(r)), "Grace": HIST_GRACE}
    resets = [i for i, r in enumerate(recs) if hist_is_reset(r)]
    erased = failed = None
    for a in resets:
        _, b = core.slice_trace(recs, a + 1, hist_is_reset)
        one = copy.deepcopy(recs[a:b])
        dec = [i for i, r in enumerate(one) if i > 0 and r["st"] != "Default"]
        if not dec:
            continue
        if erased is None and one[dec[0]]["a"] == "Block":
            # the arbitrator "did not go": state and calls of the deciding line and of all later ones are reset
            e = copy.deepcopy(one)
            for r in e[dec[0]:]:
                r.update({"st": "Default", "fc": 0, "pub": 0, "fails": [0] * len(r["fails"])})
            erased = e
        if failed is None:
            f = copy.deepcopy(one)
            f[-1]["fails"][0] += 1
            failed = f
        if erased and failed:
            break
    if erased is None or failed is None:
        raise Inconclusive("no recorded history with a decision at a block for the negative controls")
    for tag, bad, what in (("erased", erased, "decision erased (st/fc/pub of the deciding Block line and all later lines reset)"),
                           ("failplus", failed, "fails[0]+1 on the last line")):
        p = os.path.join(ck.out, "hcontrol_%s.ndjson" % tag)
        core.write_ndjson(p, bad)
        v = ck.validate(SPEC, "ChainActionsHistTrace", "ChainActionsHistTrace.cfg", p, constants=consts, name="hcontrol_" + tag)
        if v["ok"]:
            raise Inconclusive("history negative control accepted (%s): trace validation is not binding" % what)
        ck.cov.setdefault("negative_controls", []).append(dict(part="histories", mutation=what, rejected_by=v["invariant"],
                                                               at_line=v["line"]))


def hist_finish(ck, hist, htrace, name="hist", replay=False):
    recs, ok, rejected = hist_validate(ck, htrace, name)
    hist_report(ck, rejected, replay)
    ev = sum(1 for r in recs if not hist_is_reset(r))
    blocks = sum(1 for r in recs if r["a"] in ("Block", "Start"))
    decided = sum(1 for i, r in enumerate(recs) if r["a"] in ("Block", "Start") and r["st"] != "Default"
                  and recs[i - 1].get("st", "Default") == "Default")
    ck.cov["hist_histories"] = len(hist)
    ck.cov["hist_events_recorded"] = ev
    ck.cov["hist_chain_trigger_passes"] = blocks
    ck.cov["hist_decisions_observed"] = decided
    ck.cov["hist_traces_validated"] = ok
    ck.cov["hist_events_by_kind"] = dict(collections.Counter(r["a"] for r in recs if not hist_is_reset(r)))
    if not rejected and not replay:
        hist_negative_controls(ck, recs)
    if recs:
        e0 = core.slice_trace(recs, 1, hist_is_reset)[1]
        ck.cov["samples"].append({"history": hist_text(recs[:e0])})
    return recs, ok, rejected


# ---------------------------------------------------------------------------------------------- part C: confirmation layer
CONF_NH = 3
CONF_EVENTS = ("AAdd", "BAdd", "ARemove", "BRemove", "AFee", "ASign", "BRevoke", "BSign", "Spend", "Close", "Restart", "Expire",
               "Claim", "TimeoutSpend")


def conf_is_reset(r):
    return r.get("a") == "Reset"


def conf_model_checking(ck):
    what = ("confirmation layer, 2 slots: every universe x every state of the three commitments x every spender x every "
            "order of 2 restarts / expiry / claims / timeouts")
    if ck.tier == "thorough":
        ck.model_check(SPEC, "ChainActionsConfMC", "ChainActionsConfMC.cfg", what + ", with fee updates", name="mcc_nh2",
                       workers=MC_WORKERS, timeout=2400)
        ck.model_check(SPEC, "ChainActionsConfMC", "ChainActionsConfMC.cfg", "confirmation layer, 3 offered HTLCs with an "
                       "output everywhere, 1 restart, no fee updates (output indexes shift between the commitments)",
                       constants={"NH": 3, "Dirs": "DirsOut", "Sizes": "SizesBig", "LowLs": "LowYes", "Fees": "FALSE",
                                  "MaxRestarts": 1}, name="mcc_nh3", workers=MC_WORKERS, timeout=2400)
    else:
        ck.model_check(SPEC, "ChainActionsConfMC", "ChainActionsConfMC.cfg", what.replace("2 restarts", "1 restart")
                       + ", no fee updates", constants={"Fees": "FALSE", "Sizes": "SizesAll", "MaxRestarts": 1},
                       name="mcc_nh2", workers=MC_WORKERS, timeout=1800)
        ck.model_check(SPEC, "ChainActionsConfMC", "ChainActionsConfMC.cfg", "confirmation layer, 2 offered HTLCs of the "
                       "sizes that react to a fee update, with fee updates, 1 restart",
                       constants={"Dirs": "DirsOut", "Sizes": "SizesEdge", "LowLs": "LowYes", "MaxRestarts": 1},
                       name="mcc_nh2_fee", workers=MC_WORKERS, timeout=1800)
    ctl = []
    for q in ("WatcherConfusesPending", "RelaunchUsesAllSets"):
        w = ck.model_check(SPEC, "ChainActionsConfMC", "ChainActionsConfCtl.cfg", "control: %s must break the property" % q,
                           must_hold=False, constants={q: "TRUE"}, name="mcc_ctl_" + q, workers=2, timeout=900)
        if not (w.violation or "").startswith("invariant"):
            raise Inconclusive("confirmation-layer model with %s = TRUE violates nothing (%s): the property is vacuous"
                               % (q, w.violation))
        ctl.append("%s -> %s" % (q, w.violation.replace("invariant ", "")))
    ck.cov["conf_model_controls"] = ctl


def conf_generate(ck):
    thorough = ck.tier == "thorough"
    import glob
    seen, scheds = set(), []
    total = 0
    for minlink in (3, 6, 9):
        num = 2500 if thorough else 400
        r = ck.tlc(SPEC, "ChainActionsConfGen", "ChainActionsConfGen.cfg", name="genc_%d" % minlink, mode="sim", workers=1,
                   sim_num=num, sim_depth=40, constants={"NH": CONF_NH, "MinLink": minlink, "MaxLink": minlink + 6},
                   timeout=1800)
        files = glob.glob(os.path.join(r.dir, "b_*.ndjson"))
        if r.error or r.violation or not files:
            raise Inconclusive("confirmation-layer generation failed: %s\n%s" % (r.error or r.violation or "no behaviours",
                                                                               r.out[-2000:]))
        total += len(files)
        for f in sorted(files, key=lambda f: int(re.sub(r"\D", "", os.path.basename(f)) or 0)):
            for b in core.read_ndjson(f):
                k = core.sha(json.dumps([b["attr"], b["ev"]], sort_keys=True))
                if k in seen or not any(e["a"] == "Close" for e in b["ev"]):
                    continue
                seen.add(k)
                b["id"] = len(scheds) + 1
                scheds.append(b)
            os.remove(f)
    core.log("  [gen] confirmation layer: %d behaviours simulated, %d distinct schedules" % (total, len(scheds)))
    ck.cov["model_runs"].append(dict(what="generate confirmation-layer schedules (simulate)", behaviours=total,
                                     distinct=len(scheds)))
    if len(scheds) < total // 4:
        raise Inconclusive("too few distinct confirmation-layer schedules (%d)" % len(scheds))
    return scheds


def conf_text(one):
    r0 = one[0]
    hs = ["#%d %s/%s" % (i + 1, a["dir"], a["size"]) for i, a in enumerate(r0["attr"]) if a["dir"] != "none"]
    evs = []
    for r in one[1:]:
        x = r["a"]
        if x in ("AAdd", "BAdd", "ARemove"):
            x += "(#%d)" % r["s"]
        elif x == "BRemove":
            x += "(#%d,%s)" % (r["s"], r["how"])
        elif x == "Spend":
            x += "(%s)->key=%s L%s R%s P%s res=%s/%s" % (r["c"], r["wkey"], r["wl"], r["wr"], r["wp"], r["wout"], r["win"])
        elif x in ("Claim", "TimeoutSpend"):
            x += "(%d)" % r["i"]
        if r["a"] in ("Close", "Restart", "Expire", "Claim", "TimeoutSpend"):
            x += "{fails=%s settles=%s closed=%s rk=%s rf=%s rst=%s}" % (r["fails"], r["settles"], r["closed"], r["rk"],
                                                                         r["rf"], r["rst"])
        evs.append(x)
    return "[%s] %s" % ("; ".join(hs), " ".join(evs))


def conf_store(ck, recs, line, tag):
    a, b = core.slice_trace(recs, line or 1, conf_is_reset)
    one = recs[a:b]
    d = ck.scratch("fail_" + tag)
    tp = os.path.join(d, "trace_conf.ndjson")
    core.write_ndjson(tp, one)
    sched = {"id": 1, "attr": one[0]["attr"], "lowL": one[0]["lowL"],
             "ev": [{k: r[k] for k in ("a", "s", "how", "c", "i")} for r in one[1:]]}
    sp = os.path.join(d, "sched_conf.ndjson")
    core.write_ndjson(sp, [sched])
    return one, {"trace_conf.ndjson": tp, "sched_conf.ndjson": sp}


def conf_validate(ck, trace, name):
    recs = core.read_ndjson(trace)
    batches = core.split_batches(recs, conf_is_reset, max_bytes=6_000_000)
    consts = {"NH": CONF_NH}

    def one_batch(i, b):
        res, cur = [], b
        for attempt in range(4):
            p = os.path.join(ck.out, "cbatch_%s_%d_%d.ndjson" % (name, i, attempt))
            core.write_ndjson(p, cur)
            v = ck.validate(SPEC, "ChainActionsConfTrace", "ChainActionsConfTrace.cfg", p, constants=consts,
                            name="valc_%s_%d_%d" % (name, i, attempt), timeout=3000)
            os.remove(p)
            res.append((cur, v))
            if v["ok"]:
                break
            a, e = core.slice_trace(cur, v["line"] or 1, conf_is_reset)
            cur = cur[:a] + cur[e:]
            if not cur:
                break
        return res

    with concurrent.futures.ThreadPoolExecutor(max_workers=3) as ex:
        results = [f.result() for f in [ex.submit(one_batch, i, b) for i, b in enumerate(batches)]]
    ok, rejected = 0, []
    for res in results:
        for cur, v in res:
            if not v["ok"]:
                rejected.append((cur, v))
        if res and res[-1][1]["ok"]:
            ok += sum(1 for r in res[-1][0] if conf_is_reset(r))
    return recs, ok, rejected


def conf_report(ck, rejected, replay=False):
    seen = set()
    for cur, v in rejected:
        badl = cur[min(max((v["line"] or 1) - 1, 0), len(cur) - 1)]
        inv = (v["invariant"] or "rejected").replace("invariant ", "")
        key = "C12:Conf:%s:%s" % (inv, "replay" if replay else badl.get("a"))
        if key in seen:
            continue
        seen.add(key)
        one, files = conf_store(ck, cur, v["line"], "conf_rejected")
        a, _ = core.slice_trace(cur, v["line"] or 1, conf_is_reset)
        upto = one[: max(2, (v["line"] or 1) - a + 1)]
        ck.violation(key, "real chain watcher / ChannelArbitrator / resolvers break C12 around the confirmation of a commitment "
                          "(spec/ChainActions/ChainActionsConf, %s at event %d of the run): %s" % (
                              inv, (v["line"] or 1) - a - 1, conf_text(upto)[:3000]),
                     files=files, text=v["cex"])


def conf_negative_controls(ck, recs):
    consts = {"NH": CONF_NH}
    resets = [i for i, r in enumerate(recs) if conf_is_reset(r)]
    failed = renamed = swapped = None
    for a in resets:
        _, b = core.slice_trace(recs, a + 1, conf_is_reset)
        one = recs[a:b]
        if failed is None and one[-1]["a"] in ("Close", "Restart", "Expire", "Claim", "TimeoutSpend"):
            failed = copy.deepcopy(one)
            failed[-1]["fails"][0] += 1
        if renamed is None:
            for j, r in enumerate(one):
                if r["a"] == "Spend" and r["c"] == "P" and r["wkey"] == "P" and r["wr"] != r["wp"]:
                    renamed = copy.deepcopy(one[: j + 1])
                    renamed[j]["wkey"] = "R"
                    break
        if swapped is None:
            for j, r in enumerate(one):
                live = [i for i, s in enumerate(r.get("rst", [])) if s in ("watch", "timeout")]
                slots = [i + 1 for i, x in enumerate(one[0]["attr"]) if x["dir"] != "none"]
                if r["a"] == "Restart" and live and len(slots) > 1:
                    swapped = copy.deepcopy(one[: j + 1])
                    i = live[0]
                    swapped[j]["rf"][i] = [s for s in slots if s != r["rf"][i]][0]
                    break
        if failed and renamed and swapped:
            break
    if failed is None or renamed is None or swapped is None:
        raise Inconclusive("confirmation layer: no recorded run for the negative controls (close %s, pending spend %s, "
                           "restart %s)" % (failed is not None, renamed is not None, swapped is not None))
    for tag, bad, what in (("failplus", failed, "fails[0]+1 on the last line"),
                           ("key", renamed, "ConfCommitKey of a recorded pending-commitment spend renamed to the current one"),
                           ("identity", swapped, "the HTLC carried by a relaunched resolver exchanged for another slot")):
        p = os.path.join(ck.out, "ccontrol_%s.ndjson" % tag)
        core.write_ndjson(p, bad)
        v = ck.validate(SPEC, "ChainActionsConfTrace", "ChainActionsConfTrace.cfg", p, constants=consts, name="ccontrol_" + tag)
        if v["ok"]:
            raise Inconclusive("confirmation-layer negative control accepted (%s): trace validation is not binding" % what)
        ck.cov.setdefault("negative_controls", []).append(dict(part="confirmation layer", mutation=what,
                                                               rejected_by=v["invariant"], at_line=v["line"]))


def conf_finish(ck, scheds, ctrace, name="conf", replay=False):
    recs, ok, rejected = conf_validate(ck, ctrace, name)
    conf_report(ck, rejected, replay)
    evs = [r for r in recs if not conf_is_reset(r)]
    ck.cov["conf_schedules"] = len(scheds)
    ck.cov["conf_events_recorded"] = len(evs)
    ck.cov["conf_events_by_kind"] = dict(collections.Counter(r["a"] for r in evs))
    ck.cov["conf_spends_by_commitment"] = dict(collections.Counter(r["c"] for r in evs if r["a"] == "Spend"))
    ck.cov["conf_pending_spends_with_differing_sets"] = sum(1 for r in evs if r["a"] == "Spend" and r["c"] == "P"
                                                            and r["wr"] != r["wp"])
    ck.cov["conf_restarts_with_live_resolvers"] = sum(1 for r in evs if r["a"] == "Restart"
                                                      and any(s in ("watch", "timeout") for s in r["rst"]))
    ck.cov["conf_steps_refused_or_stalled"] = sum(1 for r in evs if r["err"] or r["stall"])
    ck.cov["conf_traces_validated"] = ok
    if not rejected and not replay:
        conf_negative_controls(ck, recs)
    if recs:
        e0 = core.slice_trace(recs, 1, conf_is_reset)[1]
        ck.cov["samples"].append({"confirmation_run": conf_text(recs[:e0])[:1500]})
    return recs, ok, rejected


def conf_cov_text(ck):
    ck.cov["rule"] += ("; confirmation layer: TLC -simulate of ChainActionsConf (3 slots, link phases of three lengths), every "
                       "distinct schedule that reaches the Close replayed on a real channel pair / chain watcher / arbitrator "
                       "with resolvers (distinct = distinct (universe, event sequence) hashes)")
    ck.cov["trusted_base"] += ["confirmation layer: lnwallet.CreateTestChannels (alice's dust limit 200 sat, bob's 1300 sat, "
                               "tweakless non-anchor), outpoint-faithful chain notifier stand-in (spends also reach later "
                               "registrations, a new epoch subscriber gets the current height, outputs of our second-level "
                               "transactions are swept at once), sweeper that never reports, quiescence judged from chain facts"]
    ck.assumptions += ["confirmation layer: ours is the commitment with the lower dust limit; every HTLC expires at the same "
                       "far height; the close event is handled in StateDefault (the named classes F3a/F3b need an earlier "
                       "broadcast and are judged by part (a)-(f)); no breach / cooperative close; the commit output's "
                       "resolver makes no progress; each protocol message is delivered at once"]


def dev_known(ck):
    globs = [g for g in os.environ.get("C12_KNOWN_GLOBS", "").split(",") if g]
    for g in globs:
        ck.findings.append({"property": "C12", "kind": "finding", "key": g,
                            "what": "development listing of %s (C12_KNOWN_GLOBS)" % g})
    if globs:
        ck.notes.append("C12_KNOWN_GLOBS in effect (development): " + ",".join(globs))


def run(ck):
    dev_known(ck)
    thorough = ck.tier == "thorough"
    rng = random.Random(ck.seed)
    reps = 8 if thorough else 3
    if getattr(ck, "replay", None):
        return replay(ck, reps)

    if os.environ.get("C12_ONLY_HIST"):
        # development: part H alone
        ck.notes.append("C12_ONLY_HIST: only the history part was run (development)")
        if not os.environ.get("C12_SKIP_MC"):
            hist_model_checking(ck)
        hist = hist_generate(ck, random.Random(ck.seed * 7919 + 12))
        _, htrace = execute(ck, [], "hist", reps, hist=hist)
        _, hok, _ = hist_finish(ck, hist, htrace)
        ck.cov["evaluations"] = len(hist)
        ck.cov["distinct_nontrivial"] = len(hist)
        ck.cov["traces_validated_against_impl"] = hok
        ck.cov["states"] = max(1, ck.cov["states"])
        ck.cov["transitions"] = max(1, ck.cov["transitions"])
        ck.cov["rule"] = "part H only (development)"
        return

    if os.environ.get("C12_ONLY_CONF"):
        # development: part C alone
        ck.notes.append("C12_ONLY_CONF: only the confirmation-layer part was run (development)")
        if not os.environ.get("C12_SKIP_MC"):
            conf_model_checking(ck)
        conf = conf_generate(ck)
        execute(ck, [], "conf", reps, conf=conf)
        _, cok, _ = conf_finish(ck, conf, STATE["ctrace"])
        ck.cov["evaluations"] = len(conf)
        ck.cov["distinct_nontrivial"] = len(conf)
        ck.cov["traces_validated_against_impl"] = cok
        ck.cov["states"] = max(1, ck.cov["states"])
        ck.cov["transitions"] = max(1, ck.cov["transitions"])
        ck.cov["rule"] = "part C only (development)"
        return

    if os.environ.get("C12_SKIP_MC"):
        predicted = None
        ck.notes.append("C12_SKIP_MC: model checking skipped (control run)")
    else:
        predicted = model_checking(ck)
        if not SKIP_HIST:
            hist_model_checking(ck)
        if not SKIP_CONF:
            conf_model_checking(ck)
        ck.cov["exhaustive"] = True

    # ---- schedules
    all1 = gen_exhaustive(ck)
    s1 = all1 if thorough else stratified(all1, rng, 2, 800)
    g2 = {"Rels": "RelsFull", "Fwds": "FwdBoth", "DataLoss": "DLBoth", "MaxBlocks": 2, "DeltaPairs": "Deltas2"}
    s2 = gen_simulate(ck, 2, 6000 if thorough else 700, g2, "gen_nh2")
    s3 = gen_random(rng, 3000 if thorough else 400)
    allm = gen_mixed(ck)
    sm = allm if thorough else rng.sample(allm, min(2500, len(allm)))
    nh = 5
    seen, scheds = set(), []
    for s in s1 + sm + s2 + s3:
        k = sched_key(s)
        if k in seen:
            continue
        seen.add(k)
        s = assign_idx(copy.deepcopy(s), rng)
        s["id"] = len(scheds) + 1
        scheds.append(s)
    ck.cov["distinct_nontrivial"] = len(scheds)
    ck.cov["schedules_with_shared_htlc_index"] = sum(
        1 for s in scheds if {h["idx"] for h in s["htlc"] if h["dir"] == "out"} & {h["idx"] for h in s["htlc"] if h["dir"] == "in"})
    core.log("  schedules: %d with one HTLC (%s of %d), %d with one offered + one received (%s of %d), %d with two "
             "(TLC -simulate), %d with 3-5 (seeded random driver); %d distinct, %d with an index shared across directions" % (
                 len(s1), "all" if thorough else "stratified sample", len(all1), len(sm), "all" if thorough else "sample",
                 len(allm), len(s2), len(s3), len(scheds), ck.cov["schedules_with_shared_htlc_index"]))

    # ---- part H: histories (own random stream: the cell schedules above do not depend on it)
    hist = None if SKIP_HIST else hist_generate(ck, random.Random(ck.seed * 7919 + 12))

    # ---- part C: the confirmation layer (TLC's own seed; independent of the streams above)
    conf = None if SKIP_CONF else conf_generate(ck)

    # ---- execute on the real arbitrator, validate
    if hist is None:
        trace, htrace = execute(ck, scheds, "all", reps, conf=conf), None
    else:
        trace, htrace = execute(ck, scheds, "all", reps, hist=hist, conf=conf)
    quirks, rejected = {}, []
    recs, ntraces = validate_batches(ck, trace, nh, "all", quirks, rejected)
    ck.cov["evaluations"] = len(scheds) * reps
    ck.cov["events_recorded"] = len(recs)
    ck.cov["traces_validated_against_impl"] = ntraces
    nondet = sum(1 for r in recs if r["a"] == "Reps" and r["distinct"] > 1 and r["variant"] == 1)
    ck.cov["schedules_with_diverging_repetitions"] = nondet

    seen_keys = set()
    for cur, v in rejected:
        badl = cur[min(max((v["line"] or 1) - 1, 0), len(cur) - 1)]
        inv = (v["invariant"] or "rejected").replace("invariant ", "")
        key = "C12:%s:%s%s" % (inv, badl.get("a"), ":" + badl["k"] if badl.get("k") else "")
        if key in seen_keys:
            continue
        seen_keys.add(key)
        one, files = store_trace(ck, cur, v["line"], "rejected")
        ck.violation(key, "real ChannelArbitrator deviates from spec/ChainActions beyond the named classes (%s at line %s): "
                          "cell %s, path %s, record %s" % (inv, v["line"], cell_text(one[0]), path_text(one),
                                                           json.dumps(badl)[:400]),
                     files=files, text=v["cex"])

    fams = report_quirks(ck, quirks, predicted, None)
    if "merge" in STATE:
        ck.notes.append("the recorded runs are behaviours of the model only with F3cRepaired = %s (not the configured value): "
                        "the merge of the two remote HTLC sets in this tree is %s" % (
                            STATE["merge"], "deterministic" if STATE["merge"] == "TRUE" else "order-dependent (F3c)"))

    # ---- model prediction vs observation (one-HTLC classes are enumerated exhaustively by the model)
    obs1 = set()
    for key, (cur, line) in quirks.items():
        a, b = core.slice_trace(cur, line, is_reset)
        if sum(1 for h in cur[a]["htlc"] if h["dir"] != "none") == 1:
            obs1.add(key)
    unpredicted = sorted(k for k in obs1 if predicted is not None and k not in predicted)
    if unpredicted and not REPAIRED_AB and "merge" not in STATE:
        raise Inconclusive("deviation classes observed on the real code that the model does not predict: %s" % unpredicted)
    if thorough and predicted is not None and not rejected and not REPAIRED_AB and "merge" not in STATE \
            and not os.environ.get("VERIF_MUTATION") and not overlay():
        det = [k for k in predicted if k.split(":")[0] in ("F3a", "F3b", "F3d")]
        missing = sorted(k for k in det if k not in obs1)
        if missing:
            raise Inconclusive("predicted deterministic classes not reproduced on the real code: %s" % missing[:10])
        ck.cov["predicted_deterministic_classes_reproduced"] = len(det)
    ck.cov["observed_classes_one_htlc"] = len(obs1)

    if not rejected:
        negative_controls(ck, recs, nh, quirks)

    # ---- part H: the recorded histories, judged by ChainActionsHistTrace
    if hist is not None:
        hreps = 2 if thorough else 1
        _, hok, _ = hist_finish(ck, hist, htrace)
        ck.cov["evaluations"] += len(hist) * hreps
        ck.cov["distinct_nontrivial"] += len(hist)
        ck.cov["traces_validated_against_impl"] += hok

    # ---- part C: the recorded confirmation-layer runs, judged by ChainActionsConfTrace
    if conf is not None:
        _, cok, _ = conf_finish(ck, conf, STATE["ctrace"])
        ck.cov["evaluations"] += len(conf)
        ck.cov["distinct_nontrivial"] += len(conf)
        ck.cov["traces_validated_against_impl"] += cok

    ck.cov["rule"] = ("one HTLC: every (cell, path) TLC enumerates (thorough) or a seeded sample covering every (direction, "
                      "presence pattern, path) twice (quick); two HTLCs: TLC -simulate from the seed; 3-5 HTLCs with arbitrary "
                      "deltas / more blocks / refused force-close requests: seeded random driver; every schedule "
                      "run %dx on a real ChannelArbitrator; distinct = distinct (cell, path) hashes" % reps)
    if hist is not None:
        ck.cov["rule"] += ("; histories: TLC -simulate of ChainActionsHist from a seeded sample of universes (1-3 HTLCs), "
                           "every distinct history with at least one block replayed on a real, running ChannelArbitrator "
                           "(distinct = distinct (universe, event sequence) hashes)")
    for k in sorted(quirks)[:3]:
        cur, line = quirks[k]
        a, b = core.slice_trace(cur, line, is_reset)
        ck.cov["samples"].append({"class": k, "cell": cell_text(cur[a]), "path": path_text(cur[a:b]),
                                  "final": {x: cur[b - 2].get(x) for x in ("st", "fails", "rn", "rk")}})
    e0 = core.slice_trace(recs, 1, is_reset)[1]
    ck.cov["samples"].append({"first_trace": cell_text(recs[0]), "path": path_text(recs[:e0]),
                              "final": {x: recs[e0 - 2].get(x) for x in ("st", "fails", "rn", "rk")}})
    ck.cov["trusted_base"] = ["TLC 1.8.0", "CommunityModules Json", "fixture createTestChannelArbitrator (mock channel, notifier, "
                              "sweeper that never reports a result, witness beacon)", "executor projection: ResolutionMsg / "
                              "PutFinalHtlcOutcome / first InsertUnresolvedContracts / CommitState taps",
                              "histories: test clock (1 tick = 1 minute), goroutine-safe witness beacon / invoice registry "
                              "stand-ins, notifyContractUpdate / UpdateContractSignals / ProcessBlock called directly"]
    if conf is not None:
        conf_cov_text(ck)
    ck.assumptions += ["resolvers make no progress on their own (no spend / epoch notifications are delivered): what is judged "
                       "is the arbitrator's own disposition at close time, not the resolvers' later behaviour (C13)",
                       "RefundTimeout >= broadcast delta (the uint32 underflow corner is outside the domain)",
                       "two/three-HTLC cells take the presence patterns per HTLC independently (given the pending commitment exists)",
                       "histories: the link reports one commitment's set at a time and every HTLC stays in a presence pattern "
                       "the protocol allows; dust status is the same on the remote and the remote-pending commitment; the "
                       "arbitrator is not restarted within a history; ForceCloseChan succeeds"]


def replay(ck, reps):
    d = ck.replay
    sp = os.path.join(d, "sched.ndjson")
    hp = os.path.join(d, "sched_hist.ndjson")
    cp = os.path.join(d, "sched_conf.ndjson")
    if os.path.exists(cp):
        conf = core.read_ndjson(cp)
        execute(ck, [], "replay", reps, conf=conf)
        recs, ok, _ = conf_finish(ck, conf, STATE["ctrace"], name="replay", replay=True)
        ck.cov["evaluations"] = len(conf)
        ck.cov["traces_validated_against_impl"] = ok
        ck.cov["states"] = ck.cov["transitions"] = max(1, len(recs))
        ck.cov["rule"] = "replay of a stored confirmation-layer schedule"
        return
    if os.path.exists(hp):
        hist = core.read_ndjson(hp)
        _, htrace = execute(ck, [], "replay", reps, hist=hist)
        recs, ok, _ = hist_finish(ck, hist, htrace, name="replay", replay=True)
        ck.cov["evaluations"] = len(hist)
        ck.cov["traces_validated_against_impl"] = ok
        ck.cov["states"] = ck.cov["transitions"] = max(1, len(recs))
        ck.cov["rule"] = "replay of a stored history"
        return
    if not os.path.exists(sp):
        raise Inconclusive("replay dir has no sched.ndjson")
    scheds = core.read_ndjson(sp)
    nh = max(len(s["htlc"]) for s in scheds)
    scheds = [pad(s, nh) for s in scheds]
    for s in scheds:
        if any("idx" not in h for h in s["htlc"]):
            assign_idx(s, None)
    trace = execute(ck, scheds, "replay", max(reps, 8))
    quirks, rejected = {}, []
    recs, ntraces = validate_batches(ck, trace, nh, "replay", quirks, rejected)
    ck.cov["evaluations"] = len(scheds) * max(reps, 8)
    ck.cov["traces_validated_against_impl"] = ntraces
    ck.cov["states"] = ck.cov["transitions"] = max(1, len(recs))
    for cur, v in rejected:
        one, files = store_trace(ck, cur, v["line"], "rejected")
        ck.violation("C12:%s:replay" % (v["invariant"] or "rejected").replace("invariant ", ""),
                     "replayed schedule rejected: %s" % cell_text(one[0]), files=files, text=v["cex"])
    report_quirks(ck, quirks, [], None)
    ck.cov["rule"] = "replay of a stored schedule"
    ck.cov["samples"].append({"replayed": cell_text(recs[0])})
