"""C12 The node goes on chain before HTLC deadlines and disposes of every HTLC once.

spec/ChainActions - a small state machine shaped like contractcourt.ChannelArbitrator (cell = HTLCs with their
presence absent/dust/output on the local / remote / remote-pending commitment, preimage, expiry, forwarded/own;
actions Start, BlockEpoch, UserForceClose, CloseEvent(L|R|P|breach|coop) and one action per stateStep case).
  (a) exhaustive TLC over every cell x every path (one HTLC: everything; two and three HTLCs: bounded domains):
      the go-on-chain invariants, resolver / closed-out dispositions hold; the fail-back disposition deviates only in
      the named classes F3a/F3b/F3c/F3d (OnlyKnownClasses); one witness run per class (TLC's counterexample = cell + path);
      TLC prints the set of deviating cell classes the model predicts;
  (b) ChainActionsGen: every (cell, path) with one HTLC (BFS), seeded -simulate for two and three HTLCs;
  (c) harness/contractcourt/c12_test.go drives a real, started ChannelArbitrator (real bolt log) through every
      schedule, 3x (quick) / 8x (thorough) - the classification ranges over Go maps;
  (d) ChainActionsTrace validates every distinct recorded run: Conform* (what the arbitrator did = the model's history),
      the property's invariants on that history; deviations of the named classes are announced (<<"QUIRK", key, line>>)
      and reported through ck.violation(key) - keys "F3a:<on[L]>,<on[R]>,<on[P]>,<conf>,<prior>", "F3b:...", "F3c:...",
      "F3d:..."; anything else is rejected (deadlock / invariant) and reported with key "C12:<invariant>:...";
  (e) observed keys must be among the predicted ones; thorough: every predicted deterministic class is reproduced;
  (f) negative controls: a corrupted fail-back count must be rejected; a F3 trace must be rejected in strict mode.

Environment (development / controls): C12_OVERLAY='contractcourt/channel_arbitrator.go=/path/patched.go' (or VERIF_MUTATION),
C12_F3C_REPAIRED=0 (model and validation with the order-dependent merge of the code before fix 1eb7c38; default 1),
C12_F3AB_REPAIRED=1 (validate against the model with the candidate policy EarlyOK - use with mutations/C12/repairs/F3ab_*.diff),
C12_KNOWN_GLOBS='F3a:*,F3b:*' (treat these keys as listed in known_findings.json, development only),
C12_MC_WORKERS (default 4), C12_SKIP_MC2=1 (skip the 2/3-HTLC model checking), C12_SKIP_MC=1 (skip all model checking; control runs).
"""
import collections
import concurrent.futures
import copy
import json
import os
import random
import re

from .. import core
from ..core import Inconclusive

SPEC = os.path.join(core.VERIF, "spec", "ChainActions")
LEVEL = "model_checking"
PKG = "./contractcourt/"
HARNESS = ["contractcourt/c12_test.go"]
MC_WORKERS = int(os.environ.get("C12_MC_WORKERS", "4"))
# the tree merges the two remote HTLC sets deterministically since fix 1eb7c38 (F3c); C12_F3C_REPAIRED=0 = the older code
REPAIRED = os.environ.get("C12_F3C_REPAIRED", "1") not in ("", "0")
REPAIRED_AB = os.environ.get("C12_F3AB_REPAIRED", "") not in ("", "0")

WHAT = {
    "F3a": "offered HTLC that is dust on the confirmed commitment (or dangling dust) is NEVER failed back upstream when the "
           "close event arrives after we decided to broadcast: stateStep(StateContractClosed) drops the recomputed "
           "HtlcFailDustAction set, the StateDefault pass saw only local dust / near-expiry dangling HTLCs",
    "F3b": "offered HTLC is failed back upstream when we decide to broadcast (dust on our commitment, or dangling dust near "
           "expiry) and then a commitment on which it has a real OUTPUT confirms: fail-back although an output confirms, a "
           "resolver is launched as well",
    "F3c": "offered HTLC absent from our commitment with DIFFERENT dust status on the remote and the remote-pending "
           "commitment: checkRemoteDanglingActions merges both remote sets while ranging over a Go map, the classification "
           "(HtlcFailDustAction vs HtlcFailDanglingAction) depends on map order: 0, 1 or 2 fail-backs for the same input",
    "F3d": "breach close: stateStep(StateContractClosed) fails back EVERY offered HTLC on the remote commitments, including "
           "the dust ones that the StateDefault pass has already failed back: two ResolutionMsgs for one HTLC",
}


STATE = {}


def is_reset(r):
    return r.get("a") == "Reset"


def overlay():
    ov = {}
    for kv in filter(None, os.environ.get("C12_OVERLAY", "").split(",")):
        k, v = kv.split("=", 1)
        if not os.path.exists(v):
            raise Inconclusive("C12_OVERLAY: %s does not exist" % v)
        ov[k] = v
    return ov


def tconsts(nh, known=True):
    return {"NH": nh, "F3cRepaired": "TRUE" if REPAIRED else "FALSE", "F3abRepaired": "TRUE" if REPAIRED_AB else "FALSE",
            "F3Known": "TRUE" if known else "FALSE"}


# ---------------------------------------------------------------------------------------------- model checking
def parse_keys(out, tag):
    return sorted(set(re.findall(r'<<"%s", "([^"]+)"' % tag, out)))


def model_checking(ck):
    thorough = ck.tier == "thorough"
    merge = "TRUE" if REPAIRED else "FALSE"
    base = {"WitClass": '"none"', "F3cRepaired": merge}
    r = ck.model_check(SPEC, "ChainActionsMC", "ChainActionsMC.cfg", "1 HTLC: every cell x every path",
                       constants=dict(base, DeltaPairs="Deltas2" if thorough else "Deltas46"),
                       name="mc_nh1", workers=MC_WORKERS, timeout=1800)
    predicted = parse_keys(r.out, "F3KEY")
    if not predicted:
        raise Inconclusive("the model predicts no deviation class at all (Announce printed nothing)")
    ck.cov["predicted_classes_nh1"] = len(predicted)
    # one witness per class: TLC's counterexample is a cell + path of that class
    wit = {}
    for cls in ("F3a", "F3b", "F3c", "F3d"):
        # F3c is a class of the order-dependent merge (the code before fix 1eb7c38): its witness documents what the fix removed
        w = ck.model_check(SPEC, "ChainActionsMC", "ChainActionsWit.cfg",
                           "witness " + cls + (" (order-dependent merge, before the fix)" if cls == "F3c" else ""),
                           must_hold=False,
                           constants={"WitClass": '"%s"' % cls, "F3cRepaired": "FALSE" if cls == "F3c" else merge},
                           name="wit_" + cls, workers=2, timeout=900)
        if w.violation != "invariant WitnessInv":
            raise Inconclusive("class %s is not reachable in the model (vacuous class): %s" % (cls, w.violation))
        st = core.last_state(w.cex or "")
        m = re.search(r"htlc = (<<.*?>>)\n/\\", st, re.S)
        wit[cls] = re.sub(r"\s+", " ", m.group(1))[:300] if m else "?"
    ck.cov["class_witnesses"] = wit
    # with the merge repaired the class F3c is gone (and only it)
    w = ck.model_check(SPEC, "ChainActionsMC", "ChainActionsWit.cfg", "merge repaired: no F3c", must_hold=True,
                       constants={"WitClass": '"F3c"', "F3cRepaired": "TRUE"}, name="mc_f3c_repaired", workers=MC_WORKERS,
                       timeout=1800)
    # the candidate policy for F3a/F3b/F3d (EarlyOK): no deviation class at all, with the merge as it is
    w = ck.model_check(SPEC, "ChainActionsMC", "ChainActionsMC.cfg", "candidate policy F3ab: property holds in every cell",
                       constants=dict(base, F3abRepaired="TRUE"), name="mc_f3ab_candidate", workers=MC_WORKERS, timeout=1800)
    left = parse_keys(w.out, "F3KEY")
    if left:
        raise Inconclusive("the candidate policy still deviates in the model: %s" % left[:5])
    if os.environ.get("C12_SKIP_MC2"):
        ck.notes.append("C12_SKIP_MC2: the 2/3-HTLC model checking runs were skipped (development)")
        return predicted
    # two HTLCs
    c2 = dict(base, NH=2, Rels="RelsSmall", MaxBlocks=1, DataLoss="DLNo", Fwds="FwdBoth" if thorough else "FwdYes")
    ck.model_check(SPEC, "ChainActionsMC", "ChainActionsMC.cfg", "2 HTLCs (rel in {0, far}, 1 block%s)" % (
        "" if thorough else ", forwarded only"), constants=c2, name="mc_nh2", workers=MC_WORKERS, timeout=3000)
    if thorough:
        c3 = dict(base, NH=3, Rels="RelsFar", Dirs="DirsOut", Fwds="FwdYes", MaxBlocks=0, DataLoss="DLNo")
        ck.model_check(SPEC, "ChainActionsMC", "ChainActionsMC.cfg", "3 offered HTLCs (far from expiry)", constants=c3,
                       name="mc_nh3", workers=MC_WORKERS, timeout=3000)
    return predicted


# ---------------------------------------------------------------------------------------------- schedules
def parse_scheds(out):
    res = []
    for m in re.finditer(r'<<"SCHED", "(.*)">>', out):
        res.append(json.loads(m.group(1).replace('\\"', '"').replace("\\\\", "\\")))
    return res


def sched_key(s):
    return core.sha(json.dumps({k: s[k] for k in ("hasP", "grace", "dl", "dout", "din", "htlc", "ev")}, sort_keys=True))


def gen_exhaustive(ck):
    r = ck.tlc(SPEC, "ChainActionsGen", "ChainActionsGen.cfg", name="gen_nh1", mode="mc", workers=2, timeout=1800)
    if r.error or r.violation:
        raise Inconclusive("ChainActionsGen (1 HTLC) failed: %s\n%s" % (r.error or r.violation, r.out[-2000:]))
    s = parse_scheds(r.out)
    core.log("  [gen] 1 HTLC, exhaustive: %d (cell, path) schedules, %.0fs" % (len(s), r.wall))
    ck.cov["model_runs"].append(dict(what="generate 1 HTLC exhaustive", schedules=len(s), states=r.distinct,
                                     wall_s=round(r.wall, 1)))
    if not s:
        raise Inconclusive("no schedules generated")
    return s


def gen_simulate(ck, nh, num, consts, name):
    c = dict(consts, NH=nh)
    r = ck.tlc(SPEC, "ChainActionsGen", "ChainActionsGen.cfg", name=name, mode="sim", workers=1, sim_num=num,
               sim_depth=40, constants=c, timeout=1800)
    if r.error or r.violation:
        raise Inconclusive("ChainActionsGen (%d HTLCs) failed: %s\n%s" % (nh, r.error or r.violation, r.out[-2000:]))
    s = parse_scheds(r.out)
    core.log("  [gen] %d HTLCs, simulate: %d schedules, %.0fs" % (nh, len(s), r.wall))
    ck.cov["model_runs"].append(dict(what="generate %d HTLCs simulate" % nh, schedules=len(s), wall_s=round(r.wall, 1)))
    return s


def stratified(scheds, rng, per_group, extra):
    """Every (direction, presence pattern, pending exists, path) gets per_group schedules, the rest is random."""
    groups = collections.defaultdict(list)
    for i, s in enumerate(scheds):
        h = s["htlc"][0]
        path = tuple((e["a"], e["k"]) for e in s["ev"])
        groups[(h["dir"], h["onL"], h["onR"], h["onP"], s["hasP"], path)].append(i)
    pick = set()
    for k in sorted(groups):
        g = groups[k]
        for i in rng.sample(g, min(per_group, len(g))):
            pick.add(i)
    rest = [i for i in range(len(scheds)) if i not in pick]
    for i in rng.sample(rest, min(extra, len(rest))):
        pick.add(i)
    return [scheds[i] for i in sorted(pick)]


PV = ("dust", "output")


def out_patterns(hp):
    if not hp:
        return [("absent", r, "absent") for r in PV] + [(l, r, "absent") for l in PV for r in PV]
    return ([("absent", "absent", p) for p in PV] + [("absent", r, p) for r in PV for p in PV]
            + [(l, r, p) for l in PV for r in PV for p in PV] + [("absent", r, "absent") for r in PV])


def in_patterns(hp):
    if not hp:
        return [(l, "absent", "absent") for l in PV] + [(l, r, "absent") for l in PV for r in PV]
    return ([(l, "absent", "absent") for l in PV] + [(l, "absent", p) for l in PV for p in PV]
            + [(l, r, "absent") for l in PV for r in PV] + [(l, r, p) for l in PV for r in PV for p in PV])


def gen_random(rng, num):
    """Free-running seeded driver: inputs the model checker never enumerates - 3 to 5 HTLCs, arbitrary broadcast
    deltas, expiries up to 3 blocks around the cut-off, up to 4 blocks, force-close requests in any state."""
    res = []
    for _ in range(num):
        hp = rng.random() < 0.7
        nh = rng.choice((3, 3, 4, 5))
        hs = []
        for _ in range(nh):
            if rng.random() < 0.6:
                pat = rng.choice(out_patterns(hp))
                hs.append({"dir": "out", "fwd": int(rng.random() < 0.7), "pre": int(rng.random() < 0.3),
                           "rel": rng.choice((-3, -2, -1, 0, 1, 2, -50, -50)), "onL": pat[0], "onR": pat[1], "onP": pat[2]})
            else:
                pat = rng.choice(in_patterns(hp))
                hs.append({"dir": "in", "fwd": 0, "pre": int(rng.random() < 0.5),
                           "rel": rng.choice((-3, -2, -1, 0, 1, 2, -50, -50)), "onL": pat[0], "onR": pat[1], "onP": pat[2]})
        ev = [{"a": "Start", "k": ""}]
        for _ in range(rng.randint(0, 5)):
            ev.append({"a": rng.choice(("BlockEpoch", "BlockEpoch", "UserForceClose")), "k": ""})
        ev.append({"a": "CloseEvent", "k": rng.choice(["L", "R", "breach"] + (["P"] if hp else []))})
        res.append({"hasP": int(hp), "grace": int(rng.random() < 0.6), "dl": int(rng.random() < 0.25),
                    "dout": rng.randint(1, 12), "din": rng.randint(1, 12), "htlc": hs, "ev": ev})
    return res


def assign_idx(s, rng):
    """HtlcIndex per HTLC: offered and received HTLCs are numbered by independent counters. Mostly as in a real channel
    (both counters from 0, so the first offered and the first received HTLC share index 0), sometimes arbitrary distinct
    numbers per direction (shared or not)."""
    for d in ("out", "in"):
        hs = [h for h in s["htlc"] if h["dir"] == d]
        if rng is None or rng.random() < 0.7:
            ids = list(range(len(hs)))
            if rng is not None:
                rng.shuffle(ids)
        else:
            ids = rng.sample(range(0, max(4, len(hs) + 1)), len(hs))
        for h, i in zip(hs, ids):
            h["idx"] = i
    for h in s["htlc"]:
        h.setdefault("idx", 0)
    return s


def gen_mixed(ck):
    """Every (cell, path) with one offered and one received HTLC far from expiry (BFS): the cells in which the two
    directions' index spaces meet."""
    c = {"NH": 2, "Rels": "RelsFar", "Fwds": "FwdYes", "DataLoss": "DLNo", "MaxBlocks": 0}
    r = ck.tlc(SPEC, "ChainActionsGen", "ChainActionsGen.cfg", name="gen_mixed", mode="mc", workers=2, timeout=1800,
               constants=c)
    if r.error or r.violation:
        raise Inconclusive("ChainActionsGen (mixed directions) failed: %s\n%s" % (r.error or r.violation, r.out[-2000:]))
    s = [x for x in parse_scheds(r.out) if sorted(h["dir"] for h in x["htlc"]) == ["in", "out"]]
    core.log("  [gen] one offered + one received HTLC, exhaustive: %d (cell, path) schedules, %.0fs" % (len(s), r.wall))
    ck.cov["model_runs"].append(dict(what="generate offered+received exhaustive", schedules=len(s), states=r.distinct,
                                     wall_s=round(r.wall, 1)))
    if not s:
        raise Inconclusive("no mixed-direction schedules generated")
    return s


def pad(s, nh):
    s = copy.deepcopy(s)
    empty = {"dir": "none", "fwd": 0, "pre": 0, "rel": -50, "onL": "absent", "onR": "absent", "onP": "absent"}
    while len(s["htlc"]) < nh:
        s["htlc"].append(dict(empty))
    return s


# ---------------------------------------------------------------------------------------------- execute + validate
def execute(ck, scheds, name, reps):
    d = ck.scratch("sched_" + name)
    sp = os.path.join(d, "sched.ndjson")
    core.write_ndjson(sp, scheds)
    res = ck.go_test(PKG, "^TestVerifC12ChainActions$", HARNESS, name="exec_" + name, timeout=2400,
                     env={"VERIF_SCHED": sp, "C12_REPS": reps, "C12_WORKERS": 3, "TMPDIR": "/dev/shm"},
                     extra_overlay=overlay())
    trace = os.path.join(res["dir"], "trace.ndjson")
    if res["rc"] != 0 or not os.path.exists(trace):
        raise Inconclusive("executor failed (%s):\n%s" % (name, res["out"][-3000:]))
    return trace


def cell_text(reset):
    hs = ["%s%s%s rel=%s L=%s R=%s P=%s" % (h["dir"], "/fwd" if h["fwd"] else "/own" if h["dir"] == "out" else "",
                                          "/pre" if h["pre"] else "", h["rel"], h["onL"], h["onR"],
                                          h["onP"] if reset["hasP"] else "none")
          for h in reset["htlc"] if h["dir"] != "none"]
    return "[%s] grace=%s dl=%s deltas=%s/%s" % ("; ".join(hs), reset["grace"], reset["dl"], reset["dout"], reset["din"])


def path_text(one):
    return " ".join(r["a"] + ("(%s)" % r["k"] if r.get("k") else "") for r in one
                    if r["a"] in ("Start", "BlockEpoch", "UserForceClose", "CloseEvent"))


def store_trace(ck, recs, line, tag):
    a, b = core.slice_trace(recs, line or 1, is_reset)
    one = recs[a:b]
    d = ck.scratch("fail_" + tag)
    tp = os.path.join(d, "trace.ndjson")
    core.write_ndjson(tp, one)
    r0 = one[0]
    sched = {"id": 1, "hasP": r0["hasP"], "grace": r0["grace"], "dl": r0["dl"], "dout": r0["dout"], "din": r0["din"],
             "htlc": r0["htlc"],
             "ev": [{"a": r["a"], "k": r.get("k", "")} for r in one
                    if r["a"] in ("Start", "BlockEpoch", "UserForceClose", "CloseEvent")]}
    sp = os.path.join(d, "sched.ndjson")
    core.write_ndjson(sp, [sched])
    return one, {"trace.ndjson": tp, "sched.ndjson": sp}


def validate_batches(ck, trace, nh, name, quirks, rejected):
    """Validate a recorded trace file in batches; collect announced keys and rejections."""
    recs = core.read_ndjson(trace)
    batches = core.split_batches(recs, is_reset, max_bytes=40_000_000)

    def one_batch(i, b):
        res = []
        cur = b
        for attempt in range(3):
            p = os.path.join(ck.out, "batch_%s_%d_%d.ndjson" % (name, i, attempt))
            core.write_ndjson(p, cur)
            c = tconsts(nh)
            if "merge" in STATE:
                c["F3cRepaired"] = STATE["merge"]
            v = ck.validate(SPEC, "ChainActionsTrace", "ChainActionsTrace.cfg", p, constants=c,
                            name="val_%s_%d_%d" % (name, i, attempt), timeout=3000)
            if not v["ok"] and "merge" not in STATE and "C12_F3C_REPAIRED" not in os.environ:
                # a tree with the other merge (order-dependent before fix 1eb7c38, deterministic after) is a behaviour of
                # the model with the other value of F3cRepaired only; adopt it if that explains the rejection
                c["F3cRepaired"] = "FALSE" if c["F3cRepaired"] == "TRUE" else "TRUE"
                v2 = ck.validate(SPEC, "ChainActionsTrace", "ChainActionsTrace.cfg", p, constants=c,
                                 name="val_%s_%d_%d_other_merge" % (name, i, attempt), timeout=3000)
                if v2["ok"]:
                    STATE["merge"] = c["F3cRepaired"]
                    v = v2
            res.append((cur, v))
            os.remove(p)
            if v["ok"]:
                break
            # drop the rejected single trace and go on with the rest of the batch
            a, e = core.slice_trace(cur, v["line"] or 1, is_reset)
            cur = cur[:a] + cur[e:]
            if not cur:
                break
        return res

    with concurrent.futures.ThreadPoolExecutor(max_workers=3) as ex:
        futs = [ex.submit(one_batch, i, b) for i, b in enumerate(batches)]
        results = [f.result() for f in futs]
    ntraces = 0
    for res in results:
        for cur, v in res:
            out = v["res"].out
            for m in re.finditer(r'<<"QUIRK", "([^"]+)", (\d+)>>', out):
                k, l = m.group(1), int(m.group(2))
                if k not in quirks:
                    quirks[k] = (cur, l)
            if not v["ok"]:
                rejected.append((cur, v))
        ntraces += sum(1 for r in res[-1][0] if is_reset(r)) if res and res[-1][1]["ok"] else 0
    return recs, ntraces


def report_quirks(ck, quirks, predicted, nh1_only):
    fams = collections.Counter()
    for key in sorted(quirks):
        cur, line = quirks[key]
        fam = key.split(":")[0]
        fams[fam] += 1
        one, files = store_trace(ck, cur, line, key.replace(":", "_").replace(",", "-"))
        what = "real ChannelArbitrator violates C12 in cell class %s: %s. Example: cell %s, path %s, final record %s" % (
            key, WHAT.get(fam, fam), cell_text(one[0]), path_text(one),
            json.dumps({k: one[-2].get(k) for k in ("st", "fails", "closed", "rn", "rk")}))
        ck.violation(key, what, files=files)
    ck.cov["deviation_classes_observed"] = dict(fams)
    return fams


def negative_controls(ck, recs, nh, quirks):
    # (1) corrupt one cumulative fail-back count of a conforming trace
    bad = None
    resets = [i for i, r in enumerate(recs) if is_reset(r)]
    for a in resets[: 400]:
        _, b = core.slice_trace(recs, a + 1, is_reset)
        one = copy.deepcopy(recs[a:b])
        ends = [i for i, r in enumerate(one) if r["a"] == "End"]
        if len(ends) >= 2:
            j = ends[-1]
            one[j]["fails"][0] += 1
            bad = one
            break
    if bad is None:
        raise Inconclusive("no trace for the negative control")
    p = os.path.join(ck.out, "control_fail.ndjson")
    core.write_ndjson(p, bad)
    v = ck.validate(SPEC, "ChainActionsTrace", "ChainActionsTrace.cfg", p, constants=tconsts(nh), name="control_fail")
    if v["ok"]:
        raise Inconclusive("negative control accepted (fail-back count + 1): trace validation is not binding")
    ck.cov.setdefault("negative_controls", []).append(
        dict(mutation="fails[0]+1 on the last End line", rejected_by=v["invariant"], at_line=v["line"]))
    # (2) a recorded run of a named class must be rejected in strict mode (the classes are not silently permitted)
    pick = [k for k in sorted(quirks) if k.split(":")[0] in ("F3a", "F3b", "F3d")]
    if pick:
        cur, line = quirks[pick[0]]
        a, b = core.slice_trace(cur, line, is_reset)
        p = os.path.join(ck.out, "control_strict.ndjson")
        core.write_ndjson(p, cur[a:b])
        v = ck.validate(SPEC, "ChainActionsTrace", "ChainActionsTrace.cfg", p, constants=tconsts(nh, known=False),
                        name="control_strict")
        if v["ok"]:
            raise Inconclusive("strict validation accepted a run of class %s" % pick[0])
        ck.cov["negative_controls"].append(dict(mutation="strict mode (F3Known = FALSE) on a run of class " + pick[0],
                                                rejected_by=v["invariant"], at_line=v["line"]))


def dev_known(ck):
    globs = [g for g in os.environ.get("C12_KNOWN_GLOBS", "").split(",") if g]
    for g in globs:
        ck.findings.append({"property": "C12", "kind": "finding", "key": g,
                            "what": "development listing of %s (C12_KNOWN_GLOBS)" % g})
    if globs:
        ck.notes.append("C12_KNOWN_GLOBS in effect (development): " + ",".join(globs))


def run(ck):
    dev_known(ck)
    thorough = ck.tier == "thorough"
    rng = random.Random(ck.seed)
    reps = 8 if thorough else 3
    if getattr(ck, "replay", None):
        return replay(ck, reps)

    if os.environ.get("C12_SKIP_MC"):
        predicted = None
        ck.notes.append("C12_SKIP_MC: model checking skipped (control run)")
    else:
        predicted = model_checking(ck)
        ck.cov["exhaustive"] = True

    # ---- schedules
    all1 = gen_exhaustive(ck)
    s1 = all1 if thorough else stratified(all1, rng, 2, 800)
    g2 = {"Rels": "RelsFull", "Fwds": "FwdBoth", "DataLoss": "DLBoth", "MaxBlocks": 2, "DeltaPairs": "Deltas2"}
    s2 = gen_simulate(ck, 2, 6000 if thorough else 700, g2, "gen_nh2")
    s3 = gen_random(rng, 3000 if thorough else 400)
    allm = gen_mixed(ck)
    sm = allm if thorough else rng.sample(allm, min(2500, len(allm)))
    nh = 5
    seen, scheds = set(), []
    for s in s1 + sm + s2 + s3:
        k = sched_key(s)
        if k in seen:
            continue
        seen.add(k)
        s = assign_idx(copy.deepcopy(s), rng)
        s["id"] = len(scheds) + 1
        scheds.append(s)
    ck.cov["distinct_nontrivial"] = len(scheds)
    ck.cov["schedules_with_shared_htlc_index"] = sum(
        1 for s in scheds if {h["idx"] for h in s["htlc"] if h["dir"] == "out"} & {h["idx"] for h in s["htlc"] if h["dir"] == "in"})
    core.log("  schedules: %d with one HTLC (%s of %d), %d with one offered + one received (%s of %d), %d with two "
             "(TLC -simulate), %d with 3-5 (seeded random driver); %d distinct, %d with an index shared across directions" % (
                 len(s1), "all" if thorough else "stratified sample", len(all1), len(sm), "all" if thorough else "sample",
                 len(allm), len(s2), len(s3), len(scheds), ck.cov["schedules_with_shared_htlc_index"]))

    # ---- execute on the real arbitrator, validate
    trace = execute(ck, scheds, "all", reps)
    quirks, rejected = {}, []
    recs, ntraces = validate_batches(ck, trace, nh, "all", quirks, rejected)
    ck.cov["evaluations"] = len(scheds) * reps
    ck.cov["events_recorded"] = len(recs)
    ck.cov["traces_validated_against_impl"] = ntraces
    nondet = sum(1 for r in recs if r["a"] == "Reps" and r["distinct"] > 1 and r["variant"] == 1)
    ck.cov["schedules_with_diverging_repetitions"] = nondet

    seen_keys = set()
    for cur, v in rejected:
        badl = cur[min(max((v["line"] or 1) - 1, 0), len(cur) - 1)]
        inv = (v["invariant"] or "rejected").replace("invariant ", "")
        key = "C12:%s:%s%s" % (inv, badl.get("a"), ":" + badl["k"] if badl.get("k") else "")
        if key in seen_keys:
            continue
        seen_keys.add(key)
        one, files = store_trace(ck, cur, v["line"], "rejected")
        ck.violation(key, "real ChannelArbitrator deviates from spec/ChainActions beyond the named classes (%s at line %s): "
                          "cell %s, path %s, record %s" % (inv, v["line"], cell_text(one[0]), path_text(one),
                                                           json.dumps(badl)[:400]),
                     files=files, text=v["cex"])

    fams = report_quirks(ck, quirks, predicted, None)
    if "merge" in STATE:
        ck.notes.append("the recorded runs are behaviours of the model only with F3cRepaired = %s (not the configured value): "
                        "the merge of the two remote HTLC sets in this tree is %s" % (
                            STATE["merge"], "deterministic" if STATE["merge"] == "TRUE" else "order-dependent (F3c)"))

    # ---- model prediction vs observation (one-HTLC classes are enumerated exhaustively by the model)
    obs1 = set()
    for key, (cur, line) in quirks.items():
        a, b = core.slice_trace(cur, line, is_reset)
        if sum(1 for h in cur[a]["htlc"] if h["dir"] != "none") == 1:
            obs1.add(key)
    unpredicted = sorted(k for k in obs1 if predicted is not None and k not in predicted)
    if unpredicted and not REPAIRED_AB and "merge" not in STATE:
        raise Inconclusive("deviation classes observed on the real code that the model does not predict: %s" % unpredicted)
    if thorough and predicted is not None and not rejected and not REPAIRED_AB and "merge" not in STATE \
            and not os.environ.get("VERIF_MUTATION") and not overlay():
        det = [k for k in predicted if k.split(":")[0] in ("F3a", "F3b", "F3d")]
        missing = sorted(k for k in det if k not in obs1)
        if missing:
            raise Inconclusive("predicted deterministic classes not reproduced on the real code: %s" % missing[:10])
        ck.cov["predicted_deterministic_classes_reproduced"] = len(det)
    ck.cov["observed_classes_one_htlc"] = len(obs1)

    if not rejected:
        negative_controls(ck, recs, nh, quirks)

    ck.cov["rule"] = ("one HTLC: every (cell, path) TLC enumerates (thorough) or a seeded sample covering every (direction, "
                      "presence pattern, path) twice (quick); two HTLCs: TLC -simulate from the seed; 3-5 HTLCs with arbitrary "
                      "deltas / more blocks / refused force-close requests: seeded random driver; every schedule "
                      "run %dx on a real ChannelArbitrator; distinct = distinct (cell, path) hashes" % reps)
    for k in sorted(quirks)[:3]:
        cur, line = quirks[k]
        a, b = core.slice_trace(cur, line, is_reset)
        ck.cov["samples"].append({"class": k, "cell": cell_text(cur[a]), "path": path_text(cur[a:b]),
                                  "final": {x: cur[b - 2].get(x) for x in ("st", "fails", "rn", "rk")}})
    e0 = core.slice_trace(recs, 1, is_reset)[1]
    ck.cov["samples"].append({"first_trace": cell_text(recs[0]), "path": path_text(recs[:e0]),
                              "final": {x: recs[e0 - 2].get(x) for x in ("st", "fails", "rn", "rk")}})
    ck.cov["trusted_base"] = ["TLC 1.8.0", "CommunityModules Json", "fixture createTestChannelArbitrator (mock channel, notifier, "
                              "sweeper that never reports a result, witness beacon)", "executor projection: ResolutionMsg / "
                              "PutFinalHtlcOutcome / first InsertUnresolvedContracts / CommitState taps"]
    ck.assumptions += ["resolvers make no progress on their own (no spend / epoch notifications are delivered): what is judged "
                       "is the arbitrator's own disposition at close time, not the resolvers' later behaviour (C13)",
                       "RefundTimeout >= broadcast delta (the uint32 underflow corner is outside the domain)",
                       "two/three-HTLC cells take the presence patterns per HTLC independently (given the pending commitment exists)"]


def replay(ck, reps):
    d = ck.replay
    sp = os.path.join(d, "sched.ndjson")
    if not os.path.exists(sp):
        raise Inconclusive("replay dir has no sched.ndjson")
    scheds = core.read_ndjson(sp)
    nh = max(len(s["htlc"]) for s in scheds)
    scheds = [pad(s, nh) for s in scheds]
    for s in scheds:
        if any("idx" not in h for h in s["htlc"]):
            assign_idx(s, None)
    trace = execute(ck, scheds, "replay", max(reps, 8))
    quirks, rejected = {}, []
    recs, ntraces = validate_batches(ck, trace, nh, "replay", quirks, rejected)
    ck.cov["evaluations"] = len(scheds) * max(reps, 8)
    ck.cov["traces_validated_against_impl"] = ntraces
    ck.cov["states"] = ck.cov["transitions"] = max(1, len(recs))
    for cur, v in rejected:
        one, files = store_trace(ck, cur, v["line"], "rejected")
        ck.violation("C12:%s:replay" % (v["invariant"] or "rejected").replace("invariant ", ""),
                     "replayed schedule rejected: %s" % cell_text(one[0]), files=files, text=v["cex"])
    report_quirks(ck, quirks, [], None)
    ck.cov["rule"] = "replay of a stored schedule"
    ck.cov["samples"].append({"replayed": cell_text(recs[0])})
