"""C14 Confirmation and spend notifications follow the active chain through any reorg.

spec/TxNotifier: exhaustive TLC on small universes (any number of reorgs within the safety limit:
block ids are canonical), TLC-generated behaviours replayed on the real chainntnfs.TxNotifier +
channeldb.HeightHintCache (bolt), a free-running seeded driver with a larger safety limit / more
clients / longer histories, all traces validated by TxNotifierTrace.

Finding F10 (orphaned rescan details): a directed part replays two fixed schedules
(spec/TxNotifier/directed) and decides which model the code follows:
  Repaired=TRUE  accepted -> the tree is repaired; every part then also allows orphan rescans
  Repaired=FALSE accepted -> the defect is present: ck.violation(orphan-rescan-stale-details:<kind>)
                             and the generated parts assume OrphanRescan=FALSE
"""
import copy
import os
from .. import core
from ..core import Inconclusive

SPEC = os.path.join(core.VERIF, "spec", "TxNotifier")
DIRECTED = os.path.join(SPEC, "directed")
LEVEL = "model_checking"
HARNESS = ["chainntnfs/c14_test.go"]

# None: decided by the directed replay (which model the code conforms to);
# True / False: force the spec variant (Repaired constant of TxNotifier.tla).
REPAIRED = None

TLA = lambda b: "TRUE" if b else "FALSE"


def is_reset(r):
    return r.get("a") == "Reset"


def split_traces(recs):
    out, cur = [], []
    for r in recs:
        if is_reset(r):
            if cur:
                out.append(cur)
            cur = [r]
        else:
            cur.append(r)
    if cur:
        out.append(cur)
    return out


def run_exec(ck, test, env, name, timeout=1500):
    res = ck.go_test("./chainntnfs/", "^%s$" % test, HARNESS, env=env, name=name, timeout=timeout)
    trace = os.path.join(res["dir"], "trace.ndjson")
    if res["rc"] != 0 or not os.path.exists(trace):
        raise Inconclusive("executor %s failed:\n%s" % (test, res["out"][-3000:]))
    recs = core.read_ndjson(trace)
    if any(r.get("hang") for r in recs):
        ck.notes.append("%s: a call of the real code did not return (recorded as hang)" % name)
    return trace, recs


def report(ck, v, recs, what, keyprefix="txnotifier"):
    a, b = core.slice_trace(recs, v["line"] or 1, is_reset)
    one = os.path.join(ck.out, "failing_trace.ndjson")
    core.write_ndjson(one, recs[a:b])
    bad = recs[min((v["line"] or 1) - 1, len(recs) - 1)]
    inv = (v["invariant"] or "").replace("invariant ", "").replace("property ", "")
    brief = {k: bad.get(k) for k in ("a", "i", "t", "n", "hint", "inc", "ev", "chint", "shint", "hd", "err", "panic")}
    ck.violation("%s:%s:%s" % (keyprefix, inv or "rejected", bad.get("a")),
                 "real TxNotifier deviates from spec/TxNotifier in %s (%s) at line %s of %s: %s" % (
                     what, v["invariant"], v["line"], recs[a].get("file"), str(brief)[:600]),
                 files={"trace.ndjson": one}, text=v["cex"])


def directed(ck):
    """Replay the directed schedules; the F10 (orphan) ones decide which model (Repaired TRUE/FALSE) the code follows."""
    trace, recs = run_exec(ck, "TestVerifC14Replay",
                           {"VERIF_SCHED": DIRECTED, "VERIF_NOUTS": 2, "VERIF_MAXREGS": 4, "VERIF_SAFETY": 3},
                           "exec_directed")
    ck.cov["evaluations"] += len(recs)
    repaired = True
    for tr in split_traces(recs):
        name = tr[0]["file"].replace("b_", "").replace(".ndjson", "")
        kind = "spend" if "spend" in name else "conf"
        p = os.path.join(ck.out, "directed_%s.ndjson" % name)
        core.write_ndjson(p, tr)
        v = ck.validate(SPEC, "TxNotifierTrace", "TxNotifierTrace.cfg", p,
                        constants={"OrphanRescan": "TRUE", "Repaired": "TRUE"}, name="val_dir_%s_repaired" % name)
        ck.cov["traces_validated_against_impl"] += 1
        if v["ok"]:
            continue
        if "orphan" not in name:
            # other directed schedules (backend-ahead answers ...): any rejection is a deviation
            report(ck, v, tr, "directed schedule " + name, keyprefix="txnotifier-directed")
            continue
        repaired = False
        # is it exactly the modelled defect?  (conformance to the as-built model, no property invariants)
        w = ck.validate(SPEC, "TxNotifierTrace", "TxNotifierTraceConform.cfg", p,
                        constants={"OrphanRescan": "TRUE", "Repaired": "FALSE"}, name="val_dir_%s_asbuilt" % name)
        bad = tr[min((v["line"] or 1) - 1, len(tr) - 1)]
        if w["ok"]:
            seen = []
            for r in tr[1:]:
                for i, e in enumerate(r["ev"]):
                    if e[0] != -1:
                        seen.append("%s: client %d told Confirmed(height %d, block id %d)" % (r["a"], i + 1, e[0], e[1]))
                    if e[4] != -1:
                        seen.append("%s: client %d told Spend(height %d, spender %d)" % (r["a"], i + 1, e[4], e[5]))
            ck.violation("orphan-rescan-stale-details:%s" % kind,
                         "F10: %s details found by a historical rescan after the last subscriber cancelled are not "
                         "tracked for reorgs (txnotifier.go Update%sDetails); after the including block is disconnected "
                         "they stay cached and the height hint stays high. Schedule %s; first rejected by %s at line %s: "
                         "hints conf=%s spend=%s; notifications seen: %s" % (
                             kind, "Conf" if kind == "conf" else "Spend", tr[0]["file"], v["invariant"], v["line"],
                             bad.get("chint"), bad.get("shint"), "; ".join(seen) or "none"),
                         files={"trace.ndjson": p, "schedule.ndjson": os.path.join(DIRECTED, tr[0]["file"])},
                         text=v["cex"])
        else:
            report(ck, v, tr, "directed schedule " + name, keyprefix="txnotifier-directed")
    return repaired


def corrupt_control(ck, recs, consts, tag):
    """Negative controls: corrupt one recorded field of a valid trace; validation must reject each."""
    traces = split_traces(recs)

    def pick(pred):
        for tr in traces:
            for k, r in enumerate(tr):
                if not is_reset(r) and pred(r):
                    return tr, k
        return None, None

    muts = []
    tr, k = pick(lambda r: any(e[0] != -1 for e in r["ev"]))
    if tr:
        def drop_conf(t, k=k):
            for e in t[k]["ev"]:
                if e[0] != -1:
                    e[0], e[1] = -1, -1
                    return
        muts.append(("Confirmed dropped", tr, drop_conf))
    tr, k = pick(lambda r: any(e[0] != -1 for e in r["ev"]))
    if tr:
        def wrong_block(t, k=k):
            for e in t[k]["ev"]:
                if e[0] != -1:
                    e[1] = e[1] + 1
                    return
        muts.append(("Confirmed with another block", tr, wrong_block))
    tr, k = pick(lambda r: any(h > 0 for h in r["chint"] + r["shint"]))
    if tr:
        def hint_up(t, k=k):
            for key in ("chint", "shint"):
                for j, h in enumerate(t[k][key]):
                    if h > 0:
                        t[k][key][j] = h + 1
                        return
        muts.append(("hint+1", tr, hint_up))
    tr, k = pick(lambda r: any(e[2] != 0 or e[6] != 0 for e in r["ev"]))
    if tr:
        def drop_reorg(t, k=k):
            for e in t[k]["ev"]:
                if e[2] != 0 or e[6] != 0:
                    e[2], e[6] = 0, 0
                    return
        muts.append(("reorg notice dropped", tr, drop_reorg))
    if len(muts) < 2:
        raise Inconclusive("no suitable events for the negative controls in " + tag)
    for n, (what, tr, f) in enumerate(muts):
        bad = copy.deepcopy(tr)
        f(bad)
        p = os.path.join(ck.out, "control_%s_%d.ndjson" % (tag, n))
        core.write_ndjson(p, bad)
        v = ck.validate(SPEC, "TxNotifierTrace", "TxNotifierTrace.cfg", p, constants=consts,
                        name="control_%s_%d" % (tag, n))
        if v["ok"]:
            raise Inconclusive("negative control accepted (%s): trace validation is not binding" % what)
        ck.cov.setdefault("negative_controls", []).append(
            dict(mutation=what, rejected_by=v["invariant"], at_line=v["line"]))


def account(ck, recs):
    distinct = set()
    ntf = dict(confirmed=0, negconf=0, done=0, spend=0, reorg=0, historical=0)
    for tr in split_traces(recs):
        nontrivial = False
        for r in tr[1:]:
            for e in r["ev"]:
                ntf["confirmed"] += e[0] != -1
                ntf["negconf"] += e[2] != 0
                ntf["done"] += e[3]
                ntf["spend"] += e[4] != -1
                ntf["reorg"] += e[6] != 0
                nontrivial = nontrivial or e[0] != -1 or e[2] != 0 or e[4] != -1 or e[6] != 0
            ntf["historical"] += r["hd"][0]
        if nontrivial:
            distinct.add(core.sha(str([(r["a"], r["i"], r["t"], r["n"], r["hint"], tuple(r["inc"])) for r in tr[1:]])))
    ck.cov["distinct_nontrivial"] += len(distinct)
    tot = ck.cov.setdefault("notifications_observed", {})
    for k, x in ntf.items():
        tot[k] = tot.get(k, 0) + int(x)
    ck.cov["traces_validated_against_impl"] += len(split_traces(recs))
    ck.cov["evaluations"] += len(recs)


def validate_batches(ck, recs, consts, what, name):
    ok = True
    for bi, batch in enumerate(core.split_batches(recs, is_reset, max_bytes=12_000_000)):
        p = os.path.join(ck.out, "%s_batch%d.ndjson" % (name, bi))
        core.write_ndjson(p, batch)
        v = ck.validate(SPEC, "TxNotifierTrace", "TxNotifierTrace.cfg", p, constants=consts,
                        name="%s_%d" % (name, bi), timeout=2400)
        if not v["ok"]:
            report(ck, v, batch, what)
            ok = False
            break
    return ok


def run(ck):
    thorough = ck.tier == "thorough"

    # ---- (0) directed part: F10 schedules; decides the spec variant
    repaired = directed(ck)
    if REPAIRED is not None:
        repaired = REPAIRED
    R = {"Repaired": TLA(repaired), "OrphanRescan": TLA(repaired)}
    ck.notes.append("spec variant: Repaired=%s OrphanRescan=%s (%s)" % (
        R["Repaired"], R["OrphanRescan"],
        "tree conforms to the repaired model" if repaired else "as-built model; orphan rescans excluded from the generated parts"))

    # ---- (a) model checking
    def mc(what, name, **c):
        consts = dict(R)
        consts.update(c)
        return ck.model_check(SPEC, "TxNotifierMC", "TxNotifierMC.cfg", what, constants=consts, name=name,
                              workers=8, timeout=3600)

    conf2 = dict(NOuts=1, Incl="Incl1", ConfTargets="{1, 2}", SpendTargets="{}")
    spend1 = dict(NOuts=1, Incl="Incl1", ConfTargets="{}", SpendTargets="{1}")
    mixed = dict(NOuts=1, Incl="Incl1", ConfTargets="{1}", SpendTargets="{1}")
    if os.environ.get("VERIF_C14_NOMC"):
        # development / mutation-control runs: the model checking part does not depend on the Go code
        ck.notes.append("VERIF_C14_NOMC set: only the small spend model was checked in this run")
        mc("spends, two conflicting spenders, chain<=4, 2 clients, every hint", "mc_spend4",
           MaxLen=4, MaxRegs=2, AllHints="TRUE", **spend1)
    elif thorough:
        mc("confirmations, conflicting pair, chain<=4, 2 clients, every hint", "mc_conf4",
           MaxLen=4, MaxRegs=2, AllHints="TRUE", **conf2)
        mc("confirmations, conflicting pair, chain<=5, 2 clients, depths 1-2", "mc_conf5",
           MaxLen=5, MaxRegs=2, AllHints="FALSE", MaxConfs=2, **conf2)
        mc("confirmations, 2 independent txs, chain<=3, 2 clients, depths 1-3", "mc_conf_indep",
           MaxLen=3, MaxRegs=2, AllHints="FALSE", NOuts=2, Incl="Incl4", ConfTargets="{1, 3}", SpendTargets="{}")
        mc("spends, two conflicting spenders, chain<=5, 3 clients, every hint", "mc_spend5",
           MaxLen=5, MaxRegs=3, AllHints="TRUE", **spend1)
        mc("spends, 2 outpoints x 2 spenders, chain<=4, 2 clients", "mc_spend2o",
           MaxLen=4, MaxRegs=2, AllHints="FALSE", NOuts=2, Incl="Incl2", ConfTargets="{}", SpendTargets="{1, 2}")
        mc("confirmation + spend of the same outpoint, chain<=4, 2 clients, every hint", "mc_mixed4",
           MaxLen=4, MaxRegs=2, AllHints="TRUE", **mixed)
    else:
        mc("confirmations, conflicting pair, chain<=3, 2 clients, depths 1-2", "mc_conf3",
           MaxLen=3, MaxRegs=2, AllHints="FALSE", MaxConfs=2, **conf2)
        mc("spends, two conflicting spenders, chain<=4, 2 clients, every hint", "mc_spend4",
           MaxLen=4, MaxRegs=2, AllHints="TRUE", **spend1)
        mc("confirmation + spend of the same outpoint, chain<=3, 2 clients", "mc_mixed3",
           MaxLen=3, MaxRegs=2, AllHints="FALSE", **mixed)
    ck.cov["exhaustive"] = True

    # the defect at model level: as-built model + orphan rescans must violate, repaired model must not
    r = ck.model_check(SPEC, "TxNotifierMC", "TxNotifierMC.cfg", "F10 model: as built, orphan rescans allowed",
                       must_hold=False, name="mc_f10_asbuilt", workers=8, timeout=1200,
                       constants=dict(Repaired="FALSE", OrphanRescan="TRUE", MaxLen=3, MaxRegs=2, AllHints="FALSE", **conf2))
    ck.cov["f10_model"] = dict(as_built_with_orphan_rescans=r.violation or "no violation")
    if not r.violation:
        raise Inconclusive("the as-built model with orphan rescans no longer violates the property: F10 model is stale")
    if thorough and not repaired:
        for u, nm in ((conf2, "conf"), (spend1, "spend")):
            r = ck.model_check(SPEC, "TxNotifierMC", "TxNotifierMC.cfg", "F10 repair shape (%s): tracked without subscriber" % nm,
                               name="mc_f10_repaired_" + nm, workers=8, timeout=2400,
                               constants=dict(Repaired="TRUE", OrphanRescan="TRUE", MaxLen=3 if nm == "conf" else 4,
                                              MaxRegs=2, AllHints="FALSE", MaxConfs=2, **u))
        ck.cov["f10_model"]["repaired_with_orphan_rescans"] = "holds"

    # ---- (b) generate, (c) replay on the real notifier, (d) validate
    num, maxhist = (500, 24) if thorough else (100, 20)
    files = ck.generate(SPEC, "TxNotifierGen", "TxNotifierGen.cfg", num, maxhist + 4,
                        constants=dict(MaxHist=maxhist, **R), name="gen", timeout=1500)
    sched = os.path.dirname(files[0])
    trace, recs = run_exec(ck, "TestVerifC14Replay",
                           {"VERIF_SCHED": sched, "VERIF_NOUTS": 2, "VERIF_MAXREGS": 4, "VERIF_SAFETY": 3}, "exec_gen")
    account(ck, recs)
    if validate_batches(ck, recs, dict(R), "a TLC-generated behaviour", "val_gen"):
        corrupt_control(ck, recs, dict(R), "gen")
    ck.cov["samples"].append({"generated": [{k: r[k] for k in ("a", "i", "t", "n", "hint", "inc", "ev", "chint", "shint", "hd")}
                                            for r in split_traces(recs)[0][1:7]]})

    # ---- (d'') a second generator configuration: confirmations of two independent transactions only, 3 clients
    # with depths 1-3 (different requests maturing at the same height, partial reorgs of the later block)
    G2 = dict(Incl="Incl4", ConfTargets="{1, 3}", SpendTargets="{}", MaxRegs=3)
    files2 = ck.generate(SPEC, "TxNotifierGen", "TxNotifierGen.cfg", 600 if thorough else 200, 14 + 4,
                         constants=dict(MaxHist=14, **G2, **R), name="gen_indep", timeout=1500)
    trace4, recs4 = run_exec(ck, "TestVerifC14Replay",
                             {"VERIF_SCHED": os.path.dirname(files2[0]), "VERIF_NOUTS": 2, "VERIF_MAXREGS": 3,
                              "VERIF_SAFETY": 3}, "exec_gen_indep")
    account(ck, recs4)
    validate_batches(ck, recs4, dict(G2, **R), "a TLC-generated behaviour (independent txs)", "val_gen_indep")

    # ---- (d') thorough: the same behaviours with script-only registrations (zero txid / zero outpoint)
    if thorough:
        trace3, recs3 = run_exec(ck, "TestVerifC14Replay",
                                 {"VERIF_SCHED": sched, "VERIF_NOUTS": 2, "VERIF_MAXREGS": 4, "VERIF_SAFETY": 3,
                                  "VERIF_SCRIPTONLY": 1}, "exec_gen_scriptonly")
        account(ck, recs3)
        validate_batches(ck, recs3, dict(R), "a TLC-generated behaviour with script-only requests", "val_gen_scriptonly")

    # ---- (e) free-running seeded driver: safety limit 4, 6 clients, 40 calls
    runs = 800 if thorough else 120
    fconsts = dict(Safety=4, MaxRegs=6, **R)
    trace2, recs2 = run_exec(ck, "TestVerifC14Free",
                             {"VERIF_RUNS": runs, "VERIF_STEPS": 40, "VERIF_NOUTS": 2, "VERIF_MAXREGS": 6, "VERIF_SAFETY": 4},
                             "exec_free", timeout=2400)
    account(ck, recs2)
    if validate_batches(ck, recs2, fconsts, "a free-running history (safety 4, 6 clients)", "val_free"):
        corrupt_control(ck, recs2, fconsts, "free")
    ck.cov["samples"].append({"free": [{k: r[k] for k in ("a", "i", "t", "n", "hint", "inc", "ev", "chint", "shint")}
                                       for r in split_traces(recs2)[0][1:5]]})

    ck.cov["rule"] = ("behaviours = TLC -simulate walks of TxNotifierGen (2 outpoints x 2 conflicting spenders = 4 txs, 4 clients, "
                      "safety limit 3) replayed on the real TxNotifier + bolt HeightHintCache, plus seeded free-running histories "
                      "(safety limit 4, 6 clients, 40 calls) and the two directed F10 schedules; evaluations = recorded calls; "
                      "distinct = distinct call sequences in which at least one Confirmed/NegativeConf/Spend/Reorg was delivered")
    ck.cov["trusted_base"] = ["TLC 1.8.0", "CommunityModules Json",
                              "executor: drains every client channel after each call, maps block/tx hashes to model ids, "
                              "answers historical rescans from its own copy of the active chain",
                              "blocks are synthetic btcutil.Blocks (coinbase + P2WSH spenders), not validated by consensus code"]
    ck.assumptions += [
        "clients empty their channels between two notifier calls (slow clients / full channels are not modelled)",
        "reorgs stay within the safety limit: a block is disconnected only while the tip stays < Safety below the highest tip seen",
        "callers pass correct height hints (<= the height at which the event is on the active chain, <= tip+1)",
        "a historical rescan answers with the truth about the active chain in [start,end] at the time it is delivered and arrives "
        "before its request matures (DESIGN 10.7 O1)",
        "Updates (numConfsLeft) channel contents are recorded but not judged; script-only (zero txid/outpoint) requests only in the "
        "thorough tier (same behaviours, requests keyed by script)",
    ]
    if not repaired:
        ck.assumptions.append("generated and free-running parts: the last subscriber of a request does not cancel while its "
                              "historical rescan is pending (OrphanRescan=FALSE); that class is covered by the directed part (F10)")
