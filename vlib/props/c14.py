"""C14 Confirmation and spend notifications follow the active chain through any reorg.

spec/TxNotifier: exhaustive TLC on small universes (any number of reorgs within the safety limit:
block ids are canonical), TLC-generated behaviours replayed on the real chainntnfs.TxNotifier +
channeldb.HeightHintCache (bolt), a free-running seeded driver with a larger safety limit / more
clients / longer histories, all traces validated by TxNotifierTrace.

Parts (every one: model checked, behaviours replayed on the real code, traces validated, negative control):
  txnotifier  TxNotifier.tla, requests of kind 0 ({txid, script} / {outpoint, script})
              (+ the backend's own RelevantTx hand-over, ProcessRelevantSpendTx: actions RelevantSpend / -Ahead)
  kinds       the same module with every kind of request registered at once (script-only conf requests,
              taproot-outpoint and script-only spend requests): one input / output of a block fulfils several
              registered requests, each judged on its own               (keys txnotifier-kinds:...)
  catchup     CatchUp.tla: the layer that feeds the TxNotifier - the dispatcher of btcd/bitcoind and
              HandleMissedBlocks / RewindChain / GetClientMissedBlocks over a backend that keeps reorged
              blocks; outages of any length (below and above chainntnfs.ReorgSafetyLimit) with reorgs
              within the safety limit                                   (keys catchup:...)

Finding F10 (orphaned rescan details): a directed part replays two fixed schedules
(spec/TxNotifier/directed) and decides which model the code follows:
  Repaired=TRUE  accepted -> the tree is repaired; every part then also allows orphan rescans
  Repaired=FALSE accepted -> the defect is present: ck.violation(orphan-rescan-stale-details:<kind>)
                             and the generated parts assume OrphanRescan=FALSE
"""
import copy
import os
import threading
from .. import core
from ..core import Inconclusive

SPEC = os.path.join(core.VERIF, "spec", "TxNotifier")
DIRECTED = os.path.join(SPEC, "directed")
LEVEL = "model_checking"
HARNESS = ["chainntnfs/c14_test.go", "chainntnfs/c14_catchup_test.go", "chainntnfs/c14_export_test.go"]
DIRECTED_CU = os.path.join(SPEC, "directed_catchup")
# every request id of the two-outpoint universe (conf 1..4*NOuts, spend 1..3*NOuts)
ALLKINDS2 = {"ConfTargets": "{1, 2, 3, 4, 5, 6, 7, 8}", "SpendTargets": "{1, 2, 3, 4, 5, 6}"}

# None: decided by the directed replay (which model the code conforms to);
# True / False: force the spec variant (Repaired constant of TxNotifier.tla).
REPAIRED = None

TLA = lambda b: "TRUE" if b else "FALSE"


def is_reset(r):
    return r.get("a") == "Reset"


def split_traces(recs):
    out, cur = [], []
    for r in recs:
        if is_reset(r):
            if cur:
                out.append(cur)
            cur = [r]
        else:
            cur.append(r)
    if cur:
        out.append(cur)
    return out


def run_exec(ck, test, env, name, timeout=1500):
    res = ck.go_test("./chainntnfs/", "^%s$" % test, HARNESS, env=env, name=name, timeout=timeout)
    trace = os.path.join(res["dir"], "trace.ndjson")
    if res["rc"] != 0 or not os.path.exists(trace):
        raise Inconclusive("executor %s failed:\n%s" % (test, res["out"][-3000:]))
    recs = core.read_ndjson(trace)
    if any(r.get("hang") for r in recs):
        ck.notes.append("%s: a call of the real code did not return (recorded as hang)" % name)
    return trace, recs


REPORT_LOCK = threading.Lock()


def report(ck, v, recs, what, keyprefix="txnotifier"):
    with REPORT_LOCK:
        _report(ck, v, recs, what, keyprefix)


def _report(ck, v, recs, what, keyprefix):
    a, b = core.slice_trace(recs, v["line"] or 1, is_reset)
    one = os.path.join(ck.out, "failing_trace.ndjson")
    core.write_ndjson(one, recs[a:b])
    bad = recs[min((v["line"] or 1) - 1, len(recs) - 1)]
    inv = (v["invariant"] or "").replace("invariant ", "").replace("property ", "")
    brief = {k: bad.get(k) for k in ("a", "i", "t", "n", "hint", "inc", "blk", "ev", "chint", "shint", "hd", "err", "panic",
                                     "tip", "ret", "missed", "hmerr") if k in bad}
    ck.violation("%s:%s:%s" % (keyprefix, inv or "rejected", bad.get("a")),
                 "real chainntnfs code deviates from spec/TxNotifier in %s (%s) at line %s of %s: %s" % (
                     what, v["invariant"], v["line"], recs[a].get("file"), str(brief)[:600]),
                 files={"trace.ndjson": one}, text=v["cex"])


def directed(ck):
    """Replay the directed schedules; the F10 (orphan) ones decide which model (Repaired TRUE/FALSE) the code follows."""
    trace, recs = run_exec(ck, "TestVerifC14Replay",
                           {"VERIF_SCHED": DIRECTED, "VERIF_NOUTS": 2, "VERIF_MAXREGS": 4, "VERIF_SAFETY": 3},
                           "exec_directed")
    ck.cov["evaluations"] += len(recs)
    repaired = True
    for tr in split_traces(recs):
        name = tr[0]["file"].replace("b_", "").replace(".ndjson", "")
        kind = "spend" if "spend" in name else "conf"
        p = os.path.join(ck.out, "directed_%s.ndjson" % name)
        core.write_ndjson(p, tr)
        v = ck.validate(SPEC, "TxNotifierTrace", "TxNotifierTrace.cfg", p,
                        constants=dict(ALLKINDS2, OrphanRescan="TRUE", Repaired="TRUE"), name="val_dir_%s_repaired" % name)
        tool_ok(v, "directed " + name)
        ck.cov["traces_validated_against_impl"] += 1
        if v["ok"]:
            continue
        if "orphan" not in name:
            # other directed schedules (backend-ahead answers ...): any rejection is a deviation
            report(ck, v, tr, "directed schedule " + name,
                   keyprefix="txnotifier-kinds-directed" if "kinds" in name else "txnotifier-directed")
            continue
        repaired = False
        # is it exactly the modelled defect?  (conformance to the as-built model, no property invariants)
        w = ck.validate(SPEC, "TxNotifierTrace", "TxNotifierTraceConform.cfg", p,
                        constants=dict(ALLKINDS2, OrphanRescan="TRUE", Repaired="FALSE"), name="val_dir_%s_asbuilt" % name)
        tool_ok(w, "directed " + name)
        bad = tr[min((v["line"] or 1) - 1, len(tr) - 1)]
        if w["ok"]:
            seen = []
            for r in tr[1:]:
                for i, e in enumerate(r["ev"]):
                    if e[0] != -1:
                        seen.append("%s: client %d told Confirmed(height %d, block id %d)" % (r["a"], i + 1, e[0], e[1]))
                    if e[4] != -1:
                        seen.append("%s: client %d told Spend(height %d, spender %d)" % (r["a"], i + 1, e[4], e[5]))
            ck.violation("orphan-rescan-stale-details:%s" % kind,
                         "F10: %s details found by a historical rescan after the last subscriber cancelled are not "
                         "tracked for reorgs (txnotifier.go Update%sDetails); after the including block is disconnected "
                         "they stay cached and the height hint stays high. Schedule %s; first rejected by %s at line %s: "
                         "hints conf=%s spend=%s; notifications seen: %s" % (
                             kind, "Conf" if kind == "conf" else "Spend", tr[0]["file"], v["invariant"], v["line"],
                             bad.get("chint"), bad.get("shint"), "; ".join(seen) or "none"),
                         files={"trace.ndjson": p, "schedule.ndjson": os.path.join(DIRECTED, tr[0]["file"])},
                         text=v["cex"])
        else:
            report(ck, v, tr, "directed schedule " + name, keyprefix="txnotifier-directed")
    return repaired


def corrupt_control(ck, recs, consts, tag, module="TxNotifierTrace", cfg="TxNotifierTrace.cfg", extra=(),
                    only_extra=False, limit=None):
    """Negative controls: corrupt one recorded field of a valid trace; validation must reject each."""
    traces = split_traces(recs)

    def pick(pred):
        for tr in traces:
            for k, r in enumerate(tr):
                if not is_reset(r) and pred(r):
                    return tr, k
        return None, None

    muts = []
    tr, k = pick(lambda r: any(e[0] != -1 for e in r["ev"]))
    if tr:
        def drop_conf(t, k=k):
            for e in t[k]["ev"]:
                if e[0] != -1:
                    e[0], e[1] = -1, -1
                    return
        muts.append(("Confirmed dropped", tr, drop_conf))
    tr, k = pick(lambda r: any(e[0] != -1 for e in r["ev"]))
    if tr:
        def wrong_block(t, k=k):
            for e in t[k]["ev"]:
                if e[0] != -1:
                    e[1] = e[1] + 1
                    return
        muts.append(("Confirmed with another block", tr, wrong_block))
    tr, k = pick(lambda r: any(h > 0 for h in r["chint"] + r["shint"]))
    if tr:
        def hint_up(t, k=k):
            for key in ("chint", "shint"):
                for j, h in enumerate(t[k][key]):
                    if h > 0:
                        t[k][key][j] = h + 1
                        return
        muts.append(("hint+1", tr, hint_up))
    tr, k = pick(lambda r: any(e[2] != 0 or e[6] != 0 for e in r["ev"]))
    if tr:
        def drop_reorg(t, k=k):
            for e in t[k]["ev"]:
                if e[2] != 0 or e[6] != 0:
                    e[2], e[6] = 0, 0
                    return
        muts.append(("reorg notice dropped", tr, drop_reorg))
    if only_extra:
        muts = []
    for what, pred, f in extra:
        tr, k = pick(pred)
        if tr:
            muts.append((what, tr, (lambda t, k=k, f=f: f(t[k]))))
    if len(muts) < 2:
        raise Inconclusive("no suitable events for the negative controls in " + tag)
    muts = muts[:limit] if limit else muts
    for n, (what, tr, f) in enumerate(muts):
        bad = copy.deepcopy(tr)
        f(bad)
        p = os.path.join(ck.out, "control_%s_%d.ndjson" % (tag, n))
        core.write_ndjson(p, bad)
        v = ck.validate(SPEC, module, cfg, p, constants=consts, name="control_%s_%d" % (tag, n))
        if not v["ok"] and not v["invariant"]:
            raise Inconclusive("negative control %s: validator ended without a verdict" % what)
        if v["ok"]:
            raise Inconclusive("negative control accepted (%s): trace validation is not binding" % what)
        ck.cov.setdefault("negative_controls", []).append(
            dict(part=tag, mutation=what, rejected_by=v["invariant"], at_line=v["line"]))


def account(ck, recs):
    distinct = set()
    ntf = dict(confirmed=0, negconf=0, done=0, spend=0, reorg=0, historical=0)
    for tr in split_traces(recs):
        nontrivial = False
        for r in tr[1:]:
            for e in r["ev"]:
                ntf["confirmed"] += e[0] != -1
                ntf["negconf"] += e[2] != 0
                ntf["done"] += e[3]
                ntf["spend"] += e[4] != -1
                ntf["reorg"] += e[6] != 0
                nontrivial = nontrivial or e[0] != -1 or e[2] != 0 or e[4] != -1 or e[6] != 0
            ntf["historical"] += r["hd"][0]
        if nontrivial:
            distinct.add(core.sha(str([(r["a"], r["i"], r["t"], r["n"], r["hint"], tuple(r["inc"]), r.get("blk")) for r in tr[1:]])))
    ck.cov["distinct_nontrivial"] += len(distinct)
    tot = ck.cov.setdefault("notifications_observed", {})
    for k, x in ntf.items():
        tot[k] = tot.get(k, 0) + int(x)
    ck.cov["traces_validated_against_impl"] += len(split_traces(recs))
    ck.cov["evaluations"] += len(recs)


def tool_ok(v, what):
    """A validator that was killed (OOM killer, signal) neither accepted nor rejected anything."""
    if not v["ok"] and not v["invariant"]:
        raise Inconclusive("trace validator ended without a verdict (%s): rc=%s\n%s" % (
            what, v["res"].rc, (v["res"].out or "")[-1500:]))
    if v["ok"] and v["res"].distinct < v["lines"]:
        raise Inconclusive("trace validator accepted but explored %d states for %d lines (%s)" % (
            v["res"].distinct, v["lines"], what))
    return v


def validate_batches(ck, recs, consts, what, name, module="TxNotifierTrace", cfg="TxNotifierTrace.cfg",
                     keyprefix="txnotifier"):
    ok = True
    for bi, batch in enumerate(core.split_batches(recs, is_reset, max_bytes=12_000_000)):
        p = os.path.join(ck.out, "%s_batch%d.ndjson" % (name, bi))
        core.write_ndjson(p, batch)
        v = tool_ok(ck.validate(SPEC, module, cfg, p, constants=consts, name="%s_%d" % (name, bi), timeout=2400), name)
        if not v["ok"]:
            report(ck, v, batch, what, keyprefix=keyprefix)
            ok = False
            break
    return ok


SHOW = ("a", "i", "t", "n", "hint", "inc", "ev", "chint", "shint", "hd")


def model_checks(ck, R, thorough, repaired):
    """(a) every exhaustive run (one thread; nothing here depends on the Go code)."""
    # quick: 4 workers next to the generators; thorough: the exhaustive runs are the long pole (about 11 M distinct
    # states in all), 8 workers
    W = 8 if thorough else 4

    def mc(what, name, module="TxNotifierMC", cfg="TxNotifierMC.cfg", **c):
        consts = dict(R)
        consts.update(c)
        r = ck.model_check(SPEC, module, cfg, what, constants=consts, name=name, workers=W, timeout=3600)
        if not r.ok:
            raise Inconclusive("TLC ended without completing %s (killed?): rc=%s\n%s" % (name, r.rc, (r.out or "")[-1500:]))
        return r

    conf2 = dict(NOuts=1, Incl="Incl1", ConfTargets="{1, 2}", SpendTargets="{}")
    spend1 = dict(NOuts=1, Incl="Incl1", ConfTargets="{}", SpendTargets="{1}")
    mixed = dict(NOuts=1, Incl="Incl1", ConfTargets="{1}", SpendTargets="{1}")
    # request kinds of one outpoint / one transaction, registered side by side
    skinds = dict(NOuts=1, Incl="Incl1", ConfTargets="{}", SpendTargets="{1, 2, 3}")
    ckinds = dict(NOuts=1, Incl="Incl1", ConfTargets="{1, 3}", SpendTargets="{}")
    cu = dict(module="CatchUpMC", cfg="CatchUpMC.cfg")
    if os.environ.get("VERIF_C14_NOMC"):
        # development / mutation-control runs: the model checking part does not depend on the Go code
        ck.notes.append("VERIF_C14_NOMC set: only the small spend model was checked in this run")
        mc("spends, two conflicting spenders, chain<=4, 2 clients, every hint", "mc_spend4",
           MaxLen=4, MaxRegs=2, AllHints="TRUE", **spend1)
    elif thorough:
        mc("confirmations, conflicting pair, chain<=4, 2 clients, every hint", "mc_conf4",
           MaxLen=4, MaxRegs=2, AllHints="TRUE", **conf2)
        mc("confirmations, conflicting pair, chain<=5, 2 clients, depths 1-2", "mc_conf5",
           MaxLen=5, MaxRegs=2, AllHints="FALSE", MaxConfs=2, **conf2)
        mc("confirmations, 2 independent txs, chain<=3, 2 clients, depths 1-3", "mc_conf_indep",
           MaxLen=3, MaxRegs=2, AllHints="FALSE", NOuts=2, Incl="Incl4", ConfTargets="{1, 3}", SpendTargets="{}")
        mc("spends, two conflicting spenders, chain<=5, 3 clients, every hint", "mc_spend5",
           MaxLen=5, MaxRegs=3, AllHints="TRUE", **spend1)
        mc("spends, 2 outpoints x 2 spenders, chain<=4, 2 clients", "mc_spend2o",
           MaxLen=4, MaxRegs=2, AllHints="FALSE", NOuts=2, Incl="Incl2", ConfTargets="{}", SpendTargets="{1, 2}")
        mc("confirmation + spend of the same outpoint, chain<=4, 2 clients, every hint", "mc_mixed4",
           MaxLen=4, MaxRegs=2, AllHints="TRUE", **mixed)
        mc("spend request kinds (outpoint+script, taproot outpoint, script only) of one outpoint, chain<=4, 2 clients",
           "mc_skinds4", MaxLen=4, MaxRegs=2, AllHints="FALSE", **skinds)
        mc("conf request kinds (txid+script, script only) of one tx, chain<=4, 2 clients, depths 1-2", "mc_ckinds4",
           MaxLen=4, MaxRegs=2, AllHints="FALSE", MaxConfs=2, **ckinds)
        mc("catch-up layer: confirmations, 1 client, backend <=3 ahead, chain<=3, 5 blocks, safety 2", "mc_catchup_conf",
           MaxLen=3, MaxBlocks=5, **cu)
        mc("catch-up layer: spends (2 conflicting spenders), 1 client, backend <=3 ahead, chain<=3, 4 blocks, safety 2",
           "mc_catchup_spend", Incl="Incl1", ConfTargets="{}", SpendTargets="{1}", MaxLen=3, MaxBlocks=4, **cu)
    else:
        mc("confirmations, conflicting pair, chain<=3, 2 clients, depths 1-2", "mc_conf3",
           MaxLen=3, MaxRegs=2, AllHints="FALSE", MaxConfs=2, **conf2)
        mc("spends, two conflicting spenders, chain<=4, 2 clients, every hint", "mc_spend4",
           MaxLen=4, MaxRegs=2, AllHints="TRUE", **spend1)
        mc("confirmation + spend of the same outpoint, chain<=3, 2 clients", "mc_mixed3",
           MaxLen=3, MaxRegs=2, AllHints="FALSE", **mixed)
        mc("spend request kinds (outpoint+script, taproot outpoint, script only) of one outpoint, chain<=3, 2 clients",
           "mc_skinds3", MaxLen=3, MaxRegs=2, AllHints="FALSE", **skinds)
        mc("catch-up layer: confirmations, 1 client, backend <=3 ahead, chain<=3, 4 blocks, safety 2", "mc_catchup_conf",
           MaxLen=3, MaxBlocks=4, **cu)
    ck.cov["exhaustive"] = True

    # the defect at model level: as-built model + orphan rescans must violate, repaired model must not
    r = ck.model_check(SPEC, "TxNotifierMC", "TxNotifierMC.cfg", "F10 model: as built, orphan rescans allowed",
                       must_hold=False, name="mc_f10_asbuilt", workers=W, timeout=1200,
                       constants=dict(Repaired="FALSE", OrphanRescan="TRUE", MaxLen=3, MaxRegs=2, AllHints="FALSE", **conf2))
    ck.cov["f10_model"] = dict(as_built_with_orphan_rescans=r.violation or "no violation")
    if not r.violation:
        raise Inconclusive("the as-built model with orphan rescans no longer violates the property: F10 model is stale")
    if thorough and not repaired:
        for u, nm in ((conf2, "conf"), (spend1, "spend")):
            r = ck.model_check(SPEC, "TxNotifierMC", "TxNotifierMC.cfg", "F10 repair shape (%s): tracked without subscriber" % nm,
                               name="mc_f10_repaired_" + nm, workers=W, timeout=2400,
                               constants=dict(Repaired="TRUE", OrphanRescan="TRUE", MaxLen=3 if nm == "conf" else 4,
                                              MaxRegs=2, AllHints="FALSE", MaxConfs=2, **u))
        ck.cov["f10_model"]["repaired_with_orphan_rescans"] = "holds"


CU_TRACE = dict(module="CatchUpTrace", cfg="CatchUpTrace.cfg")


def cu_controls():
    """Negative controls of the catch-up part: (what, line predicate, corruption of that line)."""
    def tip_up(r):
        r["tip"] += 1

    def missed_short(r):
        r["missed"] = r["missed"][:-1]

    def ret_height(r):
        r["ret"][2] += 1

    def cm_short(r):
        r["cm"] = r["cm"][1:]

    def drop_reorg(r):
        for e in r["ev"]:
            if e[2] != 0 or e[6] != 0:
                e[2], e[6] = 0, 0
                return
    return [
        ("RewindStep: recorded height one too high", lambda r: r["a"] == "RewindStep", tip_up),
        ("RewindDone: last missed block dropped", lambda r: r["a"] == "RewindDone" and len(r["missed"]) > 0, missed_short),
        ("RewindDone: returned best height +1", lambda r: r["a"] == "RewindDone" and r["ret"][1] == 0, ret_height),
        ("GetClientMissedBlocks: first block dropped", lambda r: r["a"] == "ClientMissed" and len(r["cm"]) > 0, cm_short),
        ("RewindStep: reorg notice dropped",
         lambda r: r["a"] == "RewindStep" and any(e[2] != 0 or e[6] != 0 for e in r["ev"]), drop_reorg),
    ]


def run(ck):
    from concurrent.futures import ThreadPoolExecutor
    thorough = ck.tier == "thorough"
    only = set(filter(None, os.environ.get("VERIF_C14_PARTS", "").split(",")))   # development: run only these parts
    want = lambda part: not only or part in only
    if only:
        ck.notes.append("VERIF_C14_PARTS=%s: only these parts were run" % ",".join(sorted(only)))

    # ---- (0) directed part: F10 schedules; decides the spec variant
    repaired = directed(ck)
    if REPAIRED is not None:
        repaired = REPAIRED
    R = {"Repaired": TLA(repaired), "OrphanRescan": TLA(repaired)}
    ck.notes.append("spec variant: Repaired=%s OrphanRescan=%s (%s)" % (
        R["Repaired"], R["OrphanRescan"],
        "tree conforms to the repaired model" if repaired else "as-built model; orphan rescans excluded from the generated parts"))

    # ---- (a) model checking (one thread, 4 TLC workers) and (b) generation (1 worker each) run side by side; the
    # main thread (c) replays on the real code, one executor at a time, and hands every recorded trace to the pool
    # for (d) validation and the negative controls (1 TLC worker each)
    pool = ThreadPoolExecutor(max_workers=9)
    fut_mc = pool.submit(model_checks, ck, R, thorough, repaired) if want("mc") else None
    judges = []

    def gen(module, cfg, num, depth, name, **consts):
        def job():
            files = ck.generate(SPEC, module, cfg, num, depth, constants=dict(consts, **R), name=name, timeout=3600)
            if len(files) < num // 2:
                raise Inconclusive("generator %s wrote %d of %d behaviours (killed?)" % (name, len(files), num))
            return files
        return pool.submit(job)

    def judge(fn, *a):
        judges.append(pool.submit(fn, ck, R, *a))

    num, maxhist = (500, 24) if thorough else (100, 20)
    G2 = dict(Incl="Incl4", ConfTargets="{1, 3}", SpendTargets="{}", MaxRegs=3)
    # one outpoint, every kind of request for it and for its two spenders
    G3 = dict(NOuts=1, Incl="Incl1", ConfTargets="{1, 2, 3, 4}", SpendTargets="{1, 2, 3}", MaxRegs=4)
    T, K, C = want("txnotifier"), want("kinds"), want("catchup")
    f_gen = gen("TxNotifierGen", "TxNotifierGen.cfg", num, maxhist + 4, "gen", MaxHist=maxhist) if T else None
    f_gen2 = gen("TxNotifierGen", "TxNotifierGen.cfg", 600 if thorough else 200, 14 + 4, "gen_indep", MaxHist=14, **G2) if T else None
    f_gen3 = gen("TxNotifierGen", "TxNotifierGen.cfg", 600 if thorough else 120, 18 + 4, "gen_kinds", MaxHist=18, **G3) if K else None
    f_gen4 = gen("CatchUpGen", "CatchUpGen.cfg", 300 if thorough else 40, 400, "gen_catchup", MaxHist=30) if C else None

    try:
        if C:
            judge(catchup_directed_judge, catchup_directed_exec(ck))
        if T or K:
            judge(free_judge, free_exec(ck, thorough))
        if C:
            files = f_gen4.result()
            judge(catchup_judge, files, catchup_exec(ck, files))
        if T:
            judge(indep_judge, G2, replay_exec(ck, f_gen2.result(), "exec_gen_indep", 2, 3))
        if K:
            judge(kinds_judge, G3, len(f_gen3.result()), replay_exec(ck, f_gen3.result(), "exec_gen_kinds", 1, 4))
        if T:
            judge(gen_judge, replay_exec(ck, f_gen.result(), "exec_gen", 2, 4))
        for j in judges:
            j.result()
        if fut_mc:
            fut_mc.result()
    finally:
        pool.shutdown(wait=True, cancel_futures=True)

    ck.cov["rule"] = ("behaviours = TLC -simulate walks of TxNotifierGen (2 outpoints x 2 conflicting spenders = 4 txs, 4 clients, "
                      "safety limit 3; one outpoint through every kind of request) and of CatchUpGen (backend + dispatcher + "
                      "HandleMissedBlocks, outages of up to 150 blocks) replayed on the real TxNotifier / interface.go catch-up "
                      "functions + bolt HeightHintCache, plus seeded free-running histories "
                      "(safety limit 4, 6 clients, 40 calls) and the directed schedules; evaluations = recorded calls; "
                      "distinct = distinct call sequences in which at least one Confirmed/NegativeConf/Spend/Reorg was delivered")
    ck.cov["trusted_base"] = ["TLC 1.8.0", "CommunityModules Json",
                              "executor: drains every client channel after each call, maps block/tx hashes to model ids, "
                              "answers historical rescans from its own copy of the active chain",
                              "blocks are synthetic btcutil.Blocks (coinbase + P2WSH spenders), not validated by consensus code",
                              "catch-up executor: scripted ChainConn (headers linked by PrevBlock, reorged blocks kept) that parks "
                              "each call of HandleMissedBlocks so that every DisconnectTip is observed (TxNotifier height "
                              "read through an in-package accessor); dispatching around it re-implements the "
                              "chain.BlockConnected case of bitcoind.go/btcd.go"]
    ck.assumptions += [
        "clients empty their channels between two notifier calls (slow clients / full channels are not modelled)",
        "reorgs stay within the safety limit: a block is disconnected only while the tip stays < Safety below the highest tip seen",
        "callers pass correct height hints (<= the height at which the event is on the active chain, <= tip+1)",
        "a historical rescan answers with the truth about the active chain in [start,end] at the time it is delivered and arrives "
        "before its request matures (DESIGN 10.7 O1)",
        "Updates (numConfsLeft) channel contents are recorded but not judged",
        "catch-up layer: the backend keeps reorged-out headers (btcd/bitcoind; neutrino's backendStoresReorgs=false path is not "
        "modelled), it does not move while one HandleMissedBlocks call runs, historical rescans are answered while the notifier's "
        "view is a prefix of the active chain; block-epoch client queues are covered only through GetClientMissedBlocks",
    ]
    if not repaired:
        ck.assumptions.append("generated and free-running parts: the last subscriber of a request does not cancel while its "
                              "historical rescan is pending (OrphanRescan=FALSE); that class is covered by the directed part (F10)")


def replay_exec(ck, files, name, nouts, maxregs):
    """(c) replay TLC-generated behaviours on the real notifier."""
    trace, recs = run_exec(ck, "TestVerifC14Replay",
                           {"VERIF_SCHED": os.path.dirname(files[0]), "VERIF_NOUTS": nouts, "VERIF_MAXREGS": maxregs,
                            "VERIF_SAFETY": 3}, name)
    account(ck, recs)
    return recs


def gen_judge(ck, R, recs):
    # ---- (d) validate
    if validate_batches(ck, recs, dict(R), "a TLC-generated behaviour", "val_gen"):
        corrupt_control(ck, recs, dict(R), "gen")
    ck.cov["samples"].append({"generated": [{k: r[k] for k in SHOW} for r in split_traces(recs)[0][1:7]]})


def indep_judge(ck, R, G2, recs):
    # ---- a second generator configuration: confirmations of two independent transactions only, 3 clients
    # with depths 1-3 (different requests maturing at the same height, partial reorgs of the later block)
    validate_batches(ck, recs, dict(G2, **R), "a TLC-generated behaviour (independent txs)", "val_gen_indep")


def free_exec(ck, thorough):
    # ---- (e) free-running seeded driver: safety limit 4, 6 clients, 40 calls
    # (a third of the runs: two independent txs with depths 2-3; another third: one outpoint and its first spender
    # through every kind of request; VERIF_KINDS)
    runs = 900 if thorough else 150
    trace2, recs2 = run_exec(ck, "TestVerifC14Free",
                             {"VERIF_RUNS": runs, "VERIF_STEPS": 40, "VERIF_NOUTS": 2, "VERIF_MAXREGS": 6, "VERIF_SAFETY": 4,
                              "VERIF_KINDS": 1}, "exec_free", timeout=2400)
    account(ck, recs2)
    return recs2


def free_judge(ck, R, recs2):
    fconsts = dict(ALLKINDS2, Safety=4, MaxRegs=6, **R)
    if validate_batches(ck, recs2, fconsts, "a free-running history (safety 4, 6 clients)", "val_free"):
        corrupt_control(ck, recs2, fconsts, "free", limit=2)
    ck.cov["samples"].append({"free": [{k: r[k] for k in SHOW if k != "hd"} for r in split_traces(recs2)[0][1:5]]})


def kinds_judge(ck, R, G3, nfiles, recs):
    """Every kind of request for one outpoint and its spenders (TLC-generated)."""
    consts = dict(G3, **R)
    if validate_batches(ck, recs, consts, "a TLC-generated behaviour with every kind of request", "val_gen_kinds",
                        keyprefix="txnotifier-kinds"):
        corrupt_control(ck, recs, consts, "kinds", limit=2)
    ck.cov["samples"].append({"kinds": [{k: r[k] for k in SHOW} for r in split_traces(recs)[0][1:6]]})
    ck.cov.setdefault("parts", {})["kinds"] = dict(generated_behaviours=nfiles, calls=len(recs))


CU_ENV = {"VERIF_NOUTS": 1, "VERIF_MAXREGS": 3, "VERIF_SAFETY": 3}


def catchup_directed_exec(ck):
    """Long outages (below / above chainntnfs.ReorgSafetyLimit) with a depth-2 reorg of the notifier's best blocks."""
    trace, recs = run_exec(ck, "TestVerifC14CatchUp", dict(CU_ENV, VERIF_SCHED=DIRECTED_CU), "exec_catchup_directed")
    account(ck, recs)
    return recs


def catchup_directed_judge(ck, R, recs):
    validate_batches(ck, recs, dict(R), "a directed catch-up schedule", "val_catchup_directed",
                     keyprefix="catchup-directed", **CU_TRACE)


def catchup_exec(ck, files):
    trace, recs = run_exec(ck, "TestVerifC14CatchUp", dict(CU_ENV, VERIF_SCHED=os.path.dirname(files[0])), "exec_catchup")
    account(ck, recs)
    return recs


def catchup_judge(ck, R, files, recs):
    if validate_batches(ck, recs, dict(R), "a TLC-generated catch-up behaviour", "val_catchup", keyprefix="catchup", **CU_TRACE):
        corrupt_control(ck, recs, dict(R), "catchup", extra=cu_controls(), only_extra=True, **CU_TRACE)
    acts = {}
    for r in recs:
        acts[r["a"]] = acts.get(r["a"], 0) + 1
    ck.cov.setdefault("parts", {})["catchup"] = dict(
        generated_behaviours=len(files), calls=len(recs), by_action=acts,
        rewinds=sum(1 for r in recs if r["a"] == "RewindDone"),
        longest_catch_up=max([len(r["missed"]) for r in recs if r["a"] == "RewindDone"] or [0]))
    tr = [t for t in split_traces(recs) if any(r["a"] == "RewindStep" for r in t)]
    if tr:
        ck.cov["samples"].append({"catchup": [{k: r[k] for k in ("a", "n", "blk", "tip", "ret", "missed", "ev", "chint")}
                                              for r in tr[0][1:] if r["a"] in ("Deliver", "RewindStep", "RewindDone")][:5]})
