"""C17 Cooperative close pays each side its exact balance and both sign the same tx.

spec/CoopClose:
  part I  (closing transaction): CoopCloseBalance / CreateCooperativeCloseTx transcribed per party; TLC exhaustive
          over a grid of channels (one side around the dust limits, msat remainders, either opener, +-anchors,
          commit fees, dust limits either way round) x fees around every threshold x either payer; TLC-generated
          behaviours + a seeded free-running driver replayed on real lnwallet channel pairs of 8 channel types
          (MuSig2 for taproot) by harness/lnwallet/c17_test.go; CoopCloseTrace judges.
  RBF-coop lnd<->lnd: TLC-generated multi-round histories between two real protofsm RbfChanCloser machines over real
          channels of 7 types (MuSig2 nonce exchange on the taproot ones), judged as RbfOffer; single rounds through
          the bare transition functions, judged as RbfRound (harness/lnwallet/chancloser/c17_rbf_test.go).
  part III (one real node against an arbitrary honest BOLT-2 peer): the closer's free choices - nLockTime, fee, a new
          delivery script, the signature field its dust rule prescribes, a second closing_complete in flight - and the
          closee's answer are model-driven (PeerOffer / PeerReply); the node's ClosingNegotiation / RemoteCloseStart /
          LocalCloseStart / LocalOfferSent are transcribed (NodeReply / NodeOffer).  TLC exhaustive (PeerSpec), TLC-
          generated histories replayed on ONE real protofsm RbfChanCloser over a real channel with the other
          LightningChannel as the peer's signing device (harness/lnwallet/chancloser/c17_peer_test.go); CoopCloseTrace
          judges (kind "peer": the node counter-signs exactly the described transaction, lock time included).
  part II (legacy fee negotiation): calcCompromiseFee / ratchetFee / feeInAcceptableRange / max-fee abort /
          taproot first-offer rule; TLC exhaustive over all ideal-fee pairs of a range; TLC-sampled and random
          configurations run between two real ChanClosers over real channels by
          harness/lnwallet/chancloser/c17_test.go; CoopCloseTrace judges every proposal.
"""
import copy
import os
from .. import core
from ..core import Inconclusive

SPEC = os.path.join(core.VERIF, "spec", "CoopClose")
LEVEL = "model_checking"

PROFILE = {
    "quick": dict(mc_tx=["CoopCloseMC_tx.cfg"], mc_neg=[("CoopCloseMC_neg.cfg", {})],
                  tx_n=70, tx_free=25, neg_n=260, neg_free=120, rbf_n=40, rbfm_n=120, peer_n=150,
                  mc_peer=[("CoopCloseMC_peer.cfg", {"PeerDepth": 3}, "interleaved histories, depth 3")],
                  wit_peer=[]),
    "thorough": dict(mc_tx=["CoopCloseMC_tx.cfg", "CoopCloseMC_tx_thorough.cfg"],
                     mc_neg=[("CoopCloseMC_neg.cfg", {"Step": 1}),
                             ("CoopCloseMC_neg.cfg", {"Lo": 100, "Hi": 6000, "Step": 23, "MaxRounds": 46})],
                     tx_n=500, tx_free=150, neg_n=1200, neg_free=500, rbf_n=300, rbfm_n=1500, peer_n=1500,
                     mc_peer=[("CoopCloseMC_peer.cfg", {"PeerDepth": 5}, "interleaved histories, depth 5"),
                              ("CoopCloseMC_peer_wide.cfg", {}, "one round over the channel grid")],
                     wit_peer=["NeverNonZeroLockTimeSigned", "NeverLabelRefusal", "NeverCloseeOnlyAccepted",
                               "NeverCloserOnlyAccepted", "NeverTwoInFlight", "NeverPeerAccepts", "NeverPeerRefuses",
                               "NeverStale"]),
}


def is_reset(r):
    return r.get("a") == "Reset"


def witness(ck, cfg, what, expect):
    """Vacuity guard: a 'never' invariant that must be VIOLATED (the outcome class is reachable in the model)."""
    r = ck.tlc(SPEC, "CoopCloseMC", cfg, name="witness", mode="mc", workers=4, timeout=600)
    ck.cov["model_runs"].append(dict(what="witness: " + what, module="CoopCloseMC", cfg=cfg, **r.summary()))
    if r.error or r.violation != "invariant " + expect:
        raise Inconclusive("witness %s: expected %s to be violated, got %s / %s\n%s" % (
            cfg, expect, r.violation, r.error, r.out[-2000:]))
    core.log("  [mc] witness %s: %s reachable" % (cfg, what))


def judge(ck, trace, kind, describe):
    """Validate a Reset-batched trace; report every rejected single trace as a violation, go on with the rest.
    Returns (records, accepted_all)."""
    recs = core.read_ndjson(trace)
    batches = core.split_batches(recs, is_reset, max_bytes=8_000_000)
    ok_all = True
    for bi, b in enumerate(batches):
        todo = b
        while todo:
            bp = os.path.join(ck.out, "batch_%s_%d.ndjson" % (kind, bi))
            core.write_ndjson(bp, todo)
            v = ck.validate(SPEC, "CoopCloseTrace", "CoopCloseTrace.cfg", bp, name="val_%s_%d" % (kind, bi),
                            timeout=2400)
            if v["ok"]:
                break
            ok_all = False
            line = v["line"] or 1
            a, e = core.slice_trace(todo, line, is_reset)
            one = os.path.join(ck.out, "failing_trace_%s.ndjson" % kind)
            core.write_ndjson(one, todo[a:e])
            bad = todo[min(line - 1, len(todo) - 1)]
            inv = (v["invariant"] or "?").replace("invariant ", "")
            key = "C17:%s:%s:%s" % (kind, inv, bad.get("a"))
            ck.violation(key, "real code deviates from spec/CoopClose (%s) at line %d of the trace: %s; %s" % (
                inv, line - a, describe(todo[a], bad), str({k: bad[k] for k in bad if k != "view"})[:600]),
                files={"trace.ndjson": one}, text="trace header: %s\n\nmodel state:\n%s" % (todo[a], v["cex"] or ""))
            todo = todo[e:]
            if len(ck.violations) + len(ck.known_hits) > 6:
                return recs, ok_all
    return recs, ok_all


def control(ck, recs, what, pick, mutate, expect=None):
    """Negative control: corrupt one recorded field of an accepted trace; the validator must reject it."""
    bad = copy.deepcopy(recs[:600])
    while bad and not is_reset(bad[-1]):
        bad.pop()
    bad = bad[:-1]
    cands = [i for i, r in enumerate(bad) if pick(r)]
    if not cands:
        raise Inconclusive("negative control '%s': no suitable line in the first traces" % what)
    i = cands[len(cands) // 2]
    mutate(bad[i])
    p = os.path.join(ck.out, "control.ndjson")
    core.write_ndjson(p, bad)
    v = ck.validate(SPEC, "CoopCloseTrace", "CoopCloseTrace.cfg", p, name="control")
    ck.cov["validations"].pop()      # not a validation of the implementation
    if v["ok"]:
        raise Inconclusive("negative control (%s at line %d) was accepted: validation is not binding" % (what, i + 1))
    ck.cov.setdefault("negative_controls", []).append(
        dict(mutation=what, line=i + 1, rejected_by=v["invariant"], at_line=v["line"]))


def part_tx(ck, prof):
    for cfg in prof["mc_tx"]:
        ck.model_check(SPEC, "CoopCloseMC", cfg, "closing tx grid " + cfg, workers=min(core.NCPU, 8), timeout=1500)
    witness(ck, "CoopCloseMC_wit_noout.cfg", "refusal 'transaction has no outputs'", "NeverRefusedNoOutputs")
    witness(ck, "CoopCloseMC_wit_trim.cfg", "one output trimmed as dust", "NeverTrimmedOne")
    witness(ck, "CoopCloseMC_wit_cantpay.cfg", "RBF closer refusing a fee the opener could afford with its commit-fee credit",
            "NeverCantPayAffordable")
    files = ck.generate(SPEC, "CoopCloseGen", "CoopCloseGen_tx.cfg", prof["tx_n"], 50, name="gen_tx", timeout=1500)
    res = ck.go_test("./lnwallet/", "^TestVerifC17CloseTx$", ["lnwallet/c17_test.go"],
                     env={"VERIF_SCHED": os.path.dirname(files[0]), "VERIF_FREE": prof["tx_free"]},
                     name="exec_tx", timeout=2400)
    trace = os.path.join(res["dir"], "trace.ndjson")
    if res["rc"] != 0 or not os.path.exists(trace) or os.path.getsize(trace) == 0:
        if "panic:" in res["out"]:
            ck.violation("C17:tx:panic", "real lnwallet code panicked while closing a channel",
                         files={"go.out": os.path.join(res["dir"], "go.out")}, text=res["out"][-4000:])
            return
        raise Inconclusive("tx executor failed:\n" + res["out"][-3000:])

    def describe(hdr, bad):
        return "channel type %s, opener %s, dust %s, payer %s fee %s rbf-options %s" % (
            hdr.get("type"), hdr.get("opener"), hdr.get("dust", {}).get("A"), bad.get("p"), bad.get("x"), bad.get("y"))
    recs, ok = judge(ck, trace, "tx", describe)
    closes = [r for r in recs if r["a"] == "Close"]
    ck.cov["evaluations"] += len(closes)
    ck.cov["traces_validated_against_impl"] += sum(1 for r in recs if is_reset(r))
    # distinct close cases: (type, opener, dust, balances, commit fee, payer, fee, options)
    distinct, cur, view = set(), None, None
    classes = {}
    near = 0
    for r in recs:
        if is_reset(r):
            cur, view = r, r["view"]
        elif r["a"] in ("Pay", "Inject"):
            view = r["view"]
        elif r["a"] == "Close":
            distinct.add(core.sha(str((cur["type"], cur["opener"], cur["dust"], view, r["p"], r["x"], r["y"]))))
            k = "%s/%s outputs=%d" % (r["res"]["A"], r["res"]["B"], r["nout"]["A"])
            classes[k] = classes.get(k, 0) + 1
            # how many closes sit within 1 sat of a threshold (dust limit of an output, payer's funds)
            v = view[r["p"]]
            funds = v["our"] // 1000 + ((v["cfee"] + (660 if cur["anchors"] else 0)) if cur["opener"] == r["p"] else 0)
            if min(abs(funds - r["x"]), abs(funds - r["x"] - cur["dust"][r["p"]][r["p"]])) <= 1:
                near += 1
    ck.cov["distinct_nontrivial"] += len(distinct)
    ck.cov["close_outcomes"] = classes
    ck.cov["closes_within_1sat_of_a_payer_threshold"] = near
    per_type = {}
    for r in recs:
        if is_reset(r):
            per_type[r["type"]] = per_type.get(r["type"], 0) + 1
    ck.cov["channel_pairs_per_type"] = per_type
    ck.cov["real_payments"] = sum(1 for r in recs if r["a"] == "Pay")
    ck.cov["real_fee_updates"] = sum(1 for r in recs if r.get("real") == "update_fee")
    if closes:
        s = closes[len(closes) // 3]
        ck.cov["samples"].append({"close": {k: s[k] for k in ("p", "x", "y", "res", "val", "txfee", "txeq", "raweq", "eng", "scripts")}})
    if ok and not ck.violations:
        good = lambda r: r["a"] == "Close" and r["res"]["A"] == "ok" and r["nout"]["A"] == 2
        control(ck, recs, "output value of the non-payer +1 sat in one completed tx", good,
                lambda r: r["val"]["A"].__setitem__("B", r["val"]["A"]["B"] + 1))
        control(ck, recs, "raw-bytes-equal bit cleared", good, lambda r: r.__setitem__("raweq", 0))
        control(ck, recs, "an accepted close recorded as refused", good,
                lambda r: r["res"].__setitem__("B", "unaffordable"))


def part_neg(ck, prof):
    for cfg, consts in prof["mc_neg"]:
        ck.model_check(SPEC, "CoopCloseMC", cfg, "negotiation %s %s" % (cfg, consts or ""), constants=consts or None,
                       workers=min(core.NCPU, 8), timeout=1500)
    witness(ck, "CoopCloseMC_wit_abort.cfg", "opener's max-fee abort", "NeverAbort")
    files = ck.generate(SPEC, "CoopCloseGen", "CoopCloseGen_neg.cfg", prof["neg_n"], 90, name="gen_neg",
                        prefix="n_", timeout=1500)
    res = ck.go_test("./lnwallet/chancloser/", "^TestVerifC17Negotiation$", ["lnwallet/chancloser/c17_test.go"],
                     env={"VERIF_SCHED": os.path.dirname(files[0]), "VERIF_FREE": prof["neg_free"]},
                     name="exec_neg", timeout=2400)
    trace = os.path.join(res["dir"], "trace.ndjson")
    if res["rc"] != 0 or not os.path.exists(trace) or os.path.getsize(trace) == 0:
        if "panic:" in res["out"]:
            ck.violation("C17:neg:panic", "real chancloser code panicked during a negotiation",
                         files={"go.out": os.path.join(res["dir"], "go.out")}, text=res["out"][-4000:])
            return
        raise Inconclusive("negotiation executor failed:\n" + res["out"][-3000:])

    def describe(hdr, bad):
        return "negotiation ideal %s cap %s opener %s taproot %s (%s)" % (
            hdr.get("ideal"), hdr.get("maxfee"), hdr.get("opener"), hdr.get("taproot"), hdr.get("type"))
    recs, ok = judge(ck, trace, "neg", describe)
    steps = [r for r in recs if r["a"] in ("Begin", "Recv")]
    ck.cov["evaluations"] += len(steps)
    ck.cov["traces_validated_against_impl"] += sum(1 for r in recs if is_reset(r))
    distinct = set()
    lens, n, ends = {}, 0, {}
    for r in recs:
        if is_reset(r):
            distinct.add(core.sha(str((r["ideal"], r["maxfee"], r["opener"], r["taproot"]))))
            n = 0
        elif r["a"] == "Recv":
            n += 1
            if r["err"]:
                ends[r["err"][:20]] = ends.get(r["err"][:20], 0) + 1
        elif r["a"] == "NegEnd":
            lens[n] = lens.get(n, 0) + 1
            if r["txeq"] == 1:
                ends["agreed"] = ends.get("agreed", 0) + 1
    ck.cov["distinct_nontrivial"] += len(distinct)
    ck.cov["negotiation_messages_histogram"] = {str(k): lens[k] for k in sorted(lens)}
    ck.cov["negotiation_outcomes"] = ends
    first = [r for r in recs[:40]]
    cut = next((i for i, r in enumerate(first) if r["a"] == "NegEnd"), len(first) - 1)
    ck.cov["samples"].append({"negotiation": [{k: r[k] for k in r if k in ("a", "p", "x", "out", "fin", "err", "ideal", "maxfee", "opener", "type", "txeq", "txfee")} for r in first[:cut + 1]]})
    if ok and not ck.violations:
        control(ck, recs, "one proposed fee +1 sat", lambda r: r["a"] == "Recv" and r["out"] > 0 and r["fin"] == 0,
                lambda r: r.__setitem__("out", r["out"] + 1))
        control(ck, recs, "final transactions recorded as different",
                lambda r: r["a"] == "NegEnd" and r["txeq"] == 1, lambda r: r.__setitem__("txeq", 0))


PEER_ACTS = ("POffer", "NReply", "NOffer", "PReply", "NSig")


def peer_stats(ck, recs):
    """Evidence and vacuity guard of part III from the traces executed on the real node."""
    steps = [r for r in recs if r["a"] in PEER_ACTS]
    ck.cov["evaluations"] += len(steps)
    ck.cov["traces_validated_against_impl"] += sum(1 for r in recs if is_reset(r))
    distinct, cls, cur, view = set(), {}, None, None
    inflight, two = 0, 0
    for r in recs:
        if is_reset(r):
            cur, view, inflight = r, r["view"], 0
        elif r["a"] == "Inject":
            view = r["view"]
        elif r["a"] in PEER_ACTS:
            distinct.add(core.sha(str((cur["type"], cur["opener"], cur["dust"], cur["node"], cur["envh"], view,
                                      r["a"], r["x"], r["k"], r["lt"], r["f"], r["pres"], r["msg"]))))
            k = "%s: %s" % (r["a"], r["pres"])
            cls[k] = cls.get(k, 0) + 1
            if r["a"] == "POffer":
                inflight += 1
                two += inflight >= 2
            elif r["a"] in ("NReply", "NSig"):
                inflight -= 1
            elif r["a"] == "PReply" and r["pres"] == "ok":
                inflight += 1
    ck.cov["distinct_nontrivial"] += len(distinct)
    ck.cov["peer_step_outcomes"] = cls
    nrep = [r for r in recs if r["a"] == "NReply" and r["pres"] == "ok"]
    wit = {
        "node counter-signed a non-zero lock time": sum(1 for r in nrep if r["msg"]["lt"] != 0),
        "node accepted closer_output_only": sum(1 for r in nrep if r["nout"][r["p"]] == 1 and r["msg"]["F"]["closer"] == 1),
        "node accepted a one-output close of its own output (closee_output_only)":
            sum(1 for r in nrep if r["nout"][r["p"]] == 1 and r["msg"]["F"]["closer"] == 0),
        "node refused on its dust label (nosig)": sum(1 for r in recs if r["a"] == "NReply" and r["pres"] == "nosig"),
        "node refused a fee above the peer's settled balance": sum(1 for r in recs if r["a"] == "NReply" and r["pres"] == "cantpay"),
        "two closing_completes in flight": two,
        "node's offer completed by the peer and by the node": sum(1 for r in recs if r["a"] == "NSig" and r["pres"] == "ok"),
        "node's closing_sig overtaken by no later closing_complete (sig queued behind an offer)":
            sum(1 for i, r in enumerate(recs) if r["a"] == "NSig" and i > 0 and recs[i - 1]["a"] == "NReply"),
        "node's offer refused by the peer": sum(1 for r in recs if r["a"] == "PReply" and r["pres"] != "ok"),
        "peer moved to a new delivery script": sum(1 for r in recs if r["a"] == "POffer" and r["k"] != 0),
    }
    ck.cov["peer_witnesses"] = wit
    must = ["node counter-signed a non-zero lock time", "node refused on its dust label (nosig)",
            "two closing_completes in flight", "node's offer completed by the peer and by the node",
            "node's offer refused by the peer"]
    if not ck.violations and not ck.known_hits and any(wit[m] == 0 for m in must):
        raise Inconclusive("part III: a class of steps was never executed: %s" % wit)
    ok = next((i for i, r in enumerate(recs) if r["a"] == "NReply" and r["pres"] == "ok" and r["msg"]["lt"] != 0), None)
    if ok is not None:
        a = max(i for i in range(ok + 1) if is_reset(recs[i]))
        ck.cov["samples"].append({"peer_history": [
            {k: r[k] for k in ("a", "p", "x", "k", "lt", "f", "pres", "res", "msg", "ltx", "txeq", "node", "envh", "type") if k in r}
            for r in recs[a:ok + 1]]})


def part_rbf(ck, prof, only=""):
    """RBF-coop coverage: (a) TLC-generated multi-round histories (either closer, fee bumps/drops, the closer
    moving to another delivery script with its offer) between two real protofsm RbfChanCloser machines over real
    channels, judged as the spec's RbfOffer (+ ConformScripts, TermsAgree); (b) single rounds through the bare
    transition functions (seeded driver), judged as RbfRound."""
    # the chancloser package cannot reach lnwallet's unexported fixture capacity: lower it by source overlay
    src = open(os.path.join(core.REPO, "lnwallet", "test_utils.go")).read()
    if src.count("testChannelCapacity float64 = 10") != 1:
        raise Inconclusive("lnwallet/test_utils.go: fixture capacity declaration not found")
    low = os.path.join(ck.out, "test_utils_lowcap.go")
    with open(low, "w") as fo:
        fo.write(src.replace("testChannelCapacity float64 = 10", "testChannelCapacity float64 = 0.01"))
    ck.model_check(SPEC, "CoopCloseMC", "CoopCloseMC_rbf.cfg", "multi-round RBF histories (either closer, fee grid, 3 scripts)",
                   constants={"RbfDepth": 4 if ck.tier == "quick" else 6}, workers=4, timeout=900)
    files = ck.generate(SPEC, "CoopCloseGen", "CoopCloseGen_rbf.cfg", prof["rbfm_n"], 20, name="gen_rbf",
                        prefix="r_", timeout=900)
    # part III: model-checked, then TLC-generated histories for one real node against the model-driven peer
    for cfg, consts, what in prof["mc_peer"]:
        ck.model_check(SPEC, "CoopCloseMC", cfg, "part III (node vs honest BOLT-2 peer): " + what,
                       constants=consts or None, workers=4, timeout=1500)
    for w in prof["wit_peer"]:
        witness(ck, "CoopCloseMC_wit_peer_%s.cfg" % w, "part III " + w, w)
    pfiles = ck.generate(SPEC, "CoopCloseGen", "CoopCloseGen_peer.cfg", prof["peer_n"], 20, name="gen_peer",
                         prefix="p_", timeout=900)

    def describe(hdr, bad):
        return "RBF round, channel type %s, dust %s, closer %s fee %s script %s, announced %s" % (
            hdr.get("type"), hdr.get("dust", {}).get("A"), bad.get("p"), bad.get("x"), bad.get("k"), bad.get("ann"))
    def describe_peer(hdr, bad):
        return "node %s (Environment.BlockHeight %s) against the model-driven peer, channel type %s, opener %s, dust %s: %s" % (
            hdr.get("node"), hdr.get("envh"), hdr.get("type"), hdr.get("opener"), hdr.get("dust", {}).get("A"),
            {k: bad.get(k) for k in ("a", "p", "x", "k", "lt", "f", "sched", "pres", "errs")})
    both = ["lnwallet/chancloser/c17_test.go", "lnwallet/chancloser/c17_rbf_test.go",
            "lnwallet/chancloser/c17_peer_test.go"]
    # the multi-round and the part III executors run in ONE go test invocation (one test binary build)
    runs = [("rbfm", "^TestVerifC17(RbfMulti|Peer)$" if only != "peer" else "^TestVerifC17Peer$",
             {"VERIF_SCHED": os.path.dirname(files[0]), "VERIF_SCHED_PEER": os.path.dirname(pfiles[0])}, "RbfM"),
            ("rbf", "^TestVerifC17RbfRound$", {"VERIF_RBF": prof["rbf_n"]}, "Rbf")]
    if only == "peer":
        runs = runs[:1]
    outcomes = {}
    for kind, test, env, act in runs:
        res = ck.go_test("./lnwallet/chancloser/", test, both, env=env, name="exec_" + kind, timeout=2400,
                         extra_overlay={"lnwallet/test_utils.go": low})
        trace = os.path.join(res["dir"], "trace.ndjson")
        if kind == "rbfm":
            ptrace = os.path.join(res["dir"], "trace_peer.ndjson")
            if res["rc"] == 0 and (not os.path.exists(ptrace) or os.path.getsize(ptrace) == 0):
                raise Inconclusive("part III executor wrote no trace:\n" + res["out"][-3000:])
            if res["rc"] == 0:
                precs, pok = judge(ck, ptrace, "peer", describe_peer)
                peer_stats(ck, precs)
                if pok and not ck.violations:
                    nz = lambda r: r["a"] == "NReply" and r["pres"] == "ok" and r["msg"]["lt"] != 0
                    control(ck, precs, "part III: lock time of the node's completed transaction recorded as 0", nz,
                            lambda r: r["ltx"].__setitem__(r["p"], 0))
                    if ck.tier != "quick":
                        control(ck, precs, "part III: an accepted closing_complete recorded as refused (bad signature)", nz,
                                lambda r: (r["res"].__setitem__(r["p"], "badsig"), r.__setitem__("pres", "badsig")))
            if only == "peer":
                if res["rc"] != 0:
                    raise Inconclusive("part III executor failed:\n" + res["out"][-3000:])
                return
        if res["rc"] != 0 or not os.path.exists(trace) or os.path.getsize(trace) == 0:
            if "panic:" in res["out"]:
                ck.violation("C17:%s:panic" % kind, "real rbf_coop code panicked",
                             files={"go.out": os.path.join(res["dir"], "go.out")}, text=res["out"][-4000:])
                return
            raise Inconclusive("rbf executor %s failed:\n%s" % (test, res["out"][-3000:]))
        recs, ok = judge(ck, trace, kind, describe)
        rounds = [r for r in recs if r["a"] == act]
        ck.cov["evaluations"] += len(rounds)
        ck.cov["traces_validated_against_impl"] += sum(1 for r in recs if is_reset(r))
        for r in rounds:
            k = "%s: %s/%s outputs=%d" % (act, r["res"]["A"], r["res"]["B"], r["nout"]["A"])
            outcomes[k] = outcomes.get(k, 0) + 1
        ck.cov["distinct_nontrivial"] += len({core.sha(str((r["p"], r["x"], r.get("k"), r["val"], r["res"]))) for r in rounds})
        if kind == "rbfm":
            # rounds that follow a delivery-script change of the OTHER party (the history class of seeded defect c17_3)
            n, cur, changed = 0, {}, None
            for r in recs:
                if is_reset(r):
                    cur, done_local = {"A": 0, "B": 0}, set()
                elif r["a"] == "RbfM" and r["res"]["A"] == "ok":
                    if r["p"] in done_local and any(cur[q] != 0 for q in cur if q != r["p"]):
                        n += 1
                    cur[r["p"]] = r["k"]
                    done_local.add(r["p"])
            ck.cov["rbf_bumps_after_peer_script_change"] = n
            per, cur_t = {}, None
            for r in recs:
                if is_reset(r):
                    cur_t = r["type"]
                elif r["a"] == "RbfM":
                    k = "%s: %s" % (cur_t, r["res"]["A"])
                    per[k] = per.get(k, 0) + 1
            ck.cov["rbfm_rounds_per_type"] = per
            if not ck.violations and not any(k.startswith("taproot") and k.endswith(": ok") for k in per):
                raise Inconclusive("no completed RBF round on a taproot channel: %s" % per)
            ck.cov["samples"].append({"rbf_history": [
                {k: r[k] for k in ("a", "p", "x", "k", "res", "ann", "sidx", "txeq") if k in r} for r in recs[1:6]]})
        if ok and not ck.violations:
            if kind == "rbfm":
                control(ck, recs, "RBF history: closing_complete recorded with a stale closee script",
                        lambda r: r["a"] == "RbfM" and r["res"]["A"] == "ok",
                        lambda r: r["ann"].__setitem__("cc_closee", (r["ann"]["cc_closee"] + 1) % 3))
            else:
                control(ck, recs, "RBF round: closee's transaction recorded with a different output value",
                        lambda r: r["a"] == "Rbf" and r["res"]["A"] == "ok" and r["nout"]["A"] == 2,
                        lambda r: r["val"]["B"].__setitem__("A", r["val"]["B"]["A"] - 1))
    ck.cov["rbf_round_outcomes"] = outcomes


def run(ck):
    prof = PROFILE[ck.tier]
    only = os.environ.get("C17_ONLY", "")
    if only in ("", "tx"):
        part_tx(ck, prof)
    if only in ("", "neg"):
        part_neg(ck, prof)
    if only in ("", "rbf", "peer"):
        part_rbf(ck, prof, only)
    ck.cov["exhaustive"] = True
    ck.cov["rule"] = (
        "evaluations = closes executed by both sides of a real channel pair (CreateCloseProposal + "
        "CompleteCooperativeClose each) + closing_signed messages processed by real ChanClosers; schedules from TLC "
        "-simulate (CoopCloseGen: fees within 1 sat of 0/150/dust limits/payer's funds/funds-dust/capacity, injected "
        "splits within 1 sat of both dust limits with msat remainders 0/1/999, real payments) plus a seeded free-running "
        "driver (random dust limits, fee-rate updates, balances, fees, ideal-fee pairs up to 20x apart); distinct = "
        "distinct (type, opener, dust, balances, commit fee, payer, fee, options) closes + distinct (ideal pair, caps, "
        "opener, taproot) negotiations")
    ck.cov["trusted_base"] = [
        "TLC 1.8.0", "CommunityModules Json",
        "btcd txscript engine (validity of the completed tx against the funding output; implies both signatures verify)",
        "executor projections: outputs attributed to owners by delivery script, error classes by message text",
        "harness copy of peer.MusigChanCloser (adapter between ChanCloser and lnwallet.MusigSession) for taproot negotiations",
        "transcription of lnwallet.CoopCloseBalance/CreateCooperativeCloseTx and chancloser.go into spec/CoopClose",
        "part III: the executor's peer (the other LightningChannel as signing device; every choice comes from the TLC schedule) and the "
        "reading of BOLT 2 option_simple_close written into PeerOffer/PeerReply/HonestFields/Select/Desc"]
    ck.assumptions += [
        "fixture capacity lowered to 1 000 000 sat (part I) so msat values fit TLC's 32-bit integers; negotiations run on the 10 BTC fixture and only fees/equality bits are compared",
        "channel is quiescent (no HTLCs) and both parties' local commitments describe the same state - checked on every recorded state (ConformSynced), produced by real add/settle/update_fee round trips or by writing the split into both channel states",
        "the fixture's initiator (alice) always plays the opener; 'both roles' = opener's dust limit larger/smaller, opener on the small side or not, either party paying (WithCustomPayer), either party asking for the close",
        "no aux/custom-channel extra outputs, no OP_RETURN delivery scripts",
        "RBF-coop flow, coarse: (a) its close options as they reach lnwallet (closer pays via WithCustomPayer, custom sequence, lock time 0) in part I for all 8 channel types; (b) TLC-generated multi-round histories between two real protofsm RbfChanCloser machines (started in ClosingNegotiation, real channels of 7 types - on the 3 taproot types with the MuSig2 sessions peer.Brontide installs and the real nonce exchange: closee nonces as from shutdown, JIT closer nonce with closing_complete, next closee nonce with closing_sig - adapters forwarding closing_complete/closing_sig): rounds by either side, fee bumps and drops, the closer moving to another delivery script with its offer (the harness plays a peer that can change its address by rewriting that machine's own LocalDeliveryScript in the shared close terms); judged as RbfOffer: closer's pre-check, the part I transaction, announced closer/closee scripts and the scripts every output pays = current close terms (ConformScripts, TermsAgree); (c) single rounds through the bare transition functions. Not modelled: shutdown/flush states (incl. the early-offer stash of ChannelFlushing), fee monotonicity, message reordering between rounds; the nonces themselves are not modelled (a wrong nonce shows as a refused round or an invalid transaction); signature-field selection is judged in part III only",
        "negotiation: honest peers, in-order delivery, one message in flight",
        "part III (node vs arbitrary honest peer): non-taproot channel types; the peer fills exactly ONE signature field (the one its "
        "dust rule prescribes; BOLT's additional closer_output_only next to closer_and_closee_outputs is not sent); lock times "
        "0/1/height; the node's own delivery script never changes; Environment.BlockHeight 0 (production) or the current height "
        "(O3: then every offer of the node is refused by an honest closee - named deviation); the node's dust labels by network "
        "dust limit on settled balances vs the builder's channel dust limits on credited balances (O4) are modelled as named "
        "refusals (NamedRefusals), not judged as violations"]
