#!/usr/bin/env python3
"""Regenerates /verif/MANIFEST.json from the table below (single source of truth)."""
import json
import os

VERIF = os.path.dirname(os.path.dirname(os.path.abspath(__file__)))
BASE = json.load(open("/root/.vp/BASELINE.json"))["cmd"] if os.path.exists("/root/.vp/BASELINE.json") else ""

ALL = ["C%02d" % i for i in range(1, 21)]

# id -> dict(category, text, note, technique, design_ref, thorough(bool))
CHECKS = {
    "C06": dict(
        category="model_checking",
        text="spec/Shachain is checked exhaustively by TLC for trees of height 4-5 (thorough: up to 8) incl. corrupted "
             "and out-of-order secrets and the equivalence 'accepted by the bucket check <=> consistent with every "
             "earlier secret'; TLC-generated behaviours (H=5 from the top of the index space, H=48 started at "
             "structural bit patterns through NewRevocationStoreFromBytes) are replayed on the real "
             "RevocationStore/Producer and every recorded answer is validated by TLC against the same spec.",
        note="hash values abstracted to (family,index) - SHA-256 assumed collision free; executor projection "
             "(lenBuckets, index, Encode length, LookUp==producer value) is trusted; part B (release rule) is judged "
             "on channel traces",
        technique="TLA+ spec + TLC exhaustive model checking + TLC trace validation of replayed behaviours on the real store",
        design_ref="DESIGN.md 4.2, 5/C06"),
}

PENDING_REASON = "check under construction in this round (specification and executor not yet registered); see DESIGN.md section 5"


def build():
    checks = []
    for pid in ALL:
        if pid not in CHECKS:
            continue
        c = CHECKS[pid]
        checks.append(dict(
            property_id=pid,
            quick_cmd="./vcheck %s --tier quick" % pid,
            thorough_cmd="./vcheck %s --tier thorough" % pid,
            evidence_file="/verif/evidence/%s.json" % pid,
            replay_cmd_template="./vcheck %s --replay {path}" % pid,
            engine="vcheck",
            level_claimed=dict(category=c["category"], text=c["text"], design_ref=c.get("design_ref", "DESIGN.md 5")),
            level_note=c["note"],
            technique=c["technique"]))
    na = [dict(property_id=p, reason=NA.get(p, PENDING_REASON)) for p in ALL if p not in CHECKS]
    m = dict(
        version=1,
        setup_cmd="./setup.sh",
        hooks=dict(guard="verif",
                   enable="go test -tags verif -overlay <generated> (executors under /verif/harness are injected into "
                          "/repo's working tree by overlay; no file of /repo is modified)",
                   baseline_off_cmd=BASE,
                   source_commits=[],
                   add_only=True),
        engines=[dict(name="vcheck", path="/verif/vcheck", serves_properties=sorted(CHECKS),
                      kind_free_text="orchestrator: TLC/Apalache on /verif/spec, go test -overlay executors from "
                                     "/verif/harness against /repo's working tree, TLC trace validation")],
        checks=checks,
        notes="Model-based verification with explicit TLA+ specifications; see DESIGN.md. Exit 2 = inconclusive "
              "(tool failure), never a violation.",
        not_applicable=na)
    json.dump(m, open(os.path.join(VERIF, "MANIFEST.json"), "w"), indent=1)
    return m


NA = {}

if __name__ == "__main__":
    m = build()
    print("MANIFEST.json: %d checks, %d not_applicable" % (len(m["checks"]), len(m["not_applicable"])))
