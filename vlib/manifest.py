#!/usr/bin/env python3
"""Regenerates /verif/MANIFEST.json from the table below (single source of truth)."""
import json
import os

VERIF = os.path.dirname(os.path.dirname(os.path.abspath(__file__)))
BASE = json.load(open("/root/.vp/BASELINE.json"))["cmd"] if os.path.exists("/root/.vp/BASELINE.json") else ""

ALL = ["C%02d" % i for i in range(1, 21)]

# id -> dict(category, text, note, technique, design_ref, thorough(bool))
CHECKS = {
    "C01": dict(
        category="model_checking",
        text="spec/Channel (update logs, commitment chains, durable state, restore, reestablish; exact msat) is checked "
             "exhaustively by TLC for all interleavings of add/settle/fail/update_fee/sign/revoke with in-order delivery "
             "within small bounds (NoError = every honest signature verifies, Conservation, Mirror); TLC-generated "
             "behaviours (5 adds per side incl. dust-straddling amounts and equal-hash duplicates, fee updates, either "
             "opener) are replayed on two real LightningChannels of all 7 channel types; after every API call the real "
             "counters, commitment chains, balances, HTLC sets, fee rate and both update logs entry by entry must equal "
             "the model's (TLC trace validation), exact-msat conservation and outputs+fee<=capacity are evaluated by TLC on "
             "the recorded numbers, and the signer's and verifier's commitment txids must agree.",
        note="bounded model + sampled long behaviours: not a proof about the Go code; crypto is real in the executor "
             "(signer, sig pool, script engine), abstract in the spec; constraint rejections of AddHTLC are not judged; "
             "second-level HTLC tx byte-equality is covered through HTLC signature verification in ReceiveNewCommitment",
        technique="TLA+ spec + TLC exhaustive model checking + replay of TLC behaviours on real lnwallet channels + TLC trace validation",
        design_ref="DESIGN.md 4.1, 5/C01"),
    "C02": dict(
        category="model_checking",
        text="On the model: RestoreFaithful (reloaded chains exact, restored logs consistent with restored commitments, "
             "counters cover what was signed), NeverBroadcastRevoked and NoError/Mirror after Disconnect at any point, "
             "exhaustively within bounds. On the code: a second channel object is re-created from the database "
             "(FetchOpenChannels+NewLightningChannel) after EVERY API call of every replayed behaviour (so every call "
             "boundary is a crash point, for either side) and its full projection must equal the spec's Restored(disk); "
             "the reload must not fail, the reloaded local commitment must be fully signed (script engine against the "
             "funding output), behaviours continue after real reconnects, and status updates issued through a STALE handle "
             "(what the chain arbitrator/watcher hold) must leave the commitment state on disk untouched. The destination side of the forwarding-package bookkeeping is part of the model (disk.dack / AckDest / DestAcksExact: the answer to a peer add is acked in the package of the outgoing channel it came from exactly when a signature of ours covers it, whatever became of other outgoing channels) and of the traces (ConformDack, SettleFailFilter read back from the database); OpenChannel.Refresh on a live channel (LiveRefresh) is an action of the model.",
        note="bolt kvdb only (etcd/postgres not available offline); each channeldb write is one atomic kvdb transaction "
             "and each API call makes at most one, so call boundaries are the crash points; forwarding packages are "
             "covered by the C08 harness, not here",
        technique="TLA+ spec + TLC model checking + shadow reload after every call validated by TLC against the spec's Restore operator",
        design_ref="DESIGN.md 4.1, 5/C02, 10.6b (F6, F7 fixed)"),
    "C03": dict(
        category="model_checking",
        text="On the model: no resync error, every retransmitted signature verifies, Mirror after resync, for every "
             "disconnect instant incl. repeated disconnects and disconnects during resync (exhaustive within bounds). On "
             "the code: TLC-generated behaviours with up to 5 disconnects are replayed on real channels (both sides "
             "reloaded, ChanSyncMsg/ProcessChanSyncMsg, all 7 types incl. taproot nonces); the list of retransmitted "
             "messages in order, the absence of any error and the complete state after every step must equal the model's. Link level: spec/Channel/LinkResync (two channelLinks over one channel across connection epochs: Add, Tick, Deliver of every message incl. the whole of resumeLink, Shutdown, Flap, Fee, hold invoices with Decide; NoFailure, QuiescentSynced, ExactlyOnce) is model-checked and TLC-generated behaviours are replayed on two real htlcswitch.channelLinks, traces validated by TLC (ConformLink, ConformFee, ConformHeights, ConformOut ...).",
        note="link-faithful schedules (receive-commit+revoke fused as in htlcswitch); the API-level finding F1 "
             "(sign-before-revoke peers, DESIGN 10.2) is outside the registered schedules; data-loss-protect field "
             "stripping variant not yet exercised",
        technique="TLA+ spec + TLC model checking + replay with disconnect/reestablish on real channels + TLC trace validation",
        design_ref="DESIGN.md 4.1, 5/C03"),
    "C11": dict(
        category="model_checking",
        text="spec/Transport models both brontide Machines (three-act handshake with per-act adversary, split, per-direction "
             "cipher state [key epoch, nonce] with rotation at ROT, the buffered header/body ciphertext of a partially flushed "
             "write, a byte-exact pipe, adversary moves corrupt/truncate/drop/swap/replay/reflect on undelivered bytes) and "
             "brontide.Conn on top; TLC checks HsSound/HsComplete/HsWrongKey, KeysAgree, DeliveredPrefix, DeliveredGenuine, "
             "ReadOkIffIntact, PristinePipe (a resumed flush never repeats, skips or re-encrypts a byte), NoNonceReuse for "
             "ROT=3 incl. 5 rotations and every partial-flush pattern; generated schedules (bursts scaled to cross the real "
             "1000-message rotation several times in both directions, sizes 0..65535), fixed tamper scenarios for every act, "
             "a free driver with byte-offset adversary moves and a Conn variant run on the real code; errors, pending-buffer "
             "accounting, pipe bytes, nonces, payload hashes and a learned bijection (key epoch -> real key fingerprint) are "
             "validated by TLC with ROT=1000. A delivered message is a value the caller keeps (held/Recheck/Release, ConformHeld); full-duplex use of one Machine with one action per section of WriteMessage/Flush/ReadHeader/ReadBody (HalvesDisjoint), the real halves parked at call-outs the code makes itself; brontide.Conn as a byte stream (CWrite chunking, CRead(want), ConnAccounting) judged through what Read returns.",
        note="AEAD/HKDF/ECDH assumed perfect; key pairs sampled; holds under the caller contract 'the reader stops at the first "
             "error' (peer.Brontide does) - the Machine does not latch read errors (observation, demonstrated at model level "
             "and on the code); known finding F16 (Conn.Read returns EOF for an empty message) reported as KNOWN-FINDING",
        technique="TLA+ spec + TLC model checking + TLC trace validation of scripted-pipe executions of the real Machine/Conn",
        design_ref="DESIGN.md 4.7, 5/C11"),
    "C15": dict(
        category="model_checking",
        text="spec/InvoiceRegistry transcribes updateLegacy/updateMpp/resolveReplayedHtlc, the UpdateInvoice appliers, AMP "
             "set handling, hodl subscriptions and the auto-release timer; TLC explores the FULL reachable state space per "
             "pair of invoice kinds (regular, no-address, hold, zero-amount, AMP, keysend) with 2-3 HTLC circuits and amounts "
             "around the invoice value, checking SettledIsPaid (address, common total >= value, sum >= total, expiry margin, "
             "preimage), AmtPaidExact, ForwardOnly, ResolutionsAgree, ReplaySameVerdict; TLC-generated histories and a "
             "2-link concurrent free driver are executed on the real InvoiceRegistry over the KV store and over SQLite, every "
             "HtlcResolution (incl. later hodl resolutions) and the LookupInvoice projection after every event are validated "
             "by TLC against the same spec for both stores. The interceptor's answer (CancelSet, AmountPaid) is a parameter of every call incl. replays (ReplaySameVerdict over all answers; Eff(p)); AMP set lifecycles with CancelInvoice/CancelSet/timeouts after a set settled (ampsets).",
        note="spontaneous AMP, KeysendHoldTime, interceptor failure modes and the expiry watcher are not "
             "covered; Postgres unavailable; known finding F15 (keysend replay after a block is failed) is reported as "
             "KNOWN-FINDING; concurrent blocks are accepted iff some interleaving is a behaviour of the spec",
        technique="TLA+ spec + TLC full-closure model checking + TLC trace validation on KV and SQLite stores",
        design_ref="DESIGN.md 4.11, 5/C15"),
    "C16": dict(
        category="model_checking",
        text="spec/PaymentStore (payments, attempts, error classes with the code's precedence, the documented status table) "
             "is checked by TLC over its COMPLETE state space for 2 payments x 3 attempt ids x 12 attempt descriptors "
             "(NoOverpay, StatusTruthful, AdmitOnlyWhenOpen, InitRefused, SucceededAbsorbing, FailedOnlyViaInit, "
             "AttemptStable, OwnHashOnly); TLC-generated and seeded random histories are executed on the real KVStore "
             "(bbolt) and SQLStore (SQLite) in one binary, every call's error class and the read-back state of all "
             "payments are validated by TLC against the same spec for both backends (so a KV/SQL divergence rejects one "
             "of them); 2-4 goroutine runs are accepted iff some linearization consistent with the call start/end stamps "
             "is a behaviour of the spec.",
        note="bbolt and SQLite only (Postgres/etcd unavailable offline); AMP/keysend attempts, routes and timestamps are not "
             "modelled; refusals without sentinel errors are classified by 5 text patterns; known finding F14 (KV accepts "
             "duplicate attempt ids) is reported as KNOWN-FINDING; F2 was repaired (9f47308)",
        technique="TLA+ spec + TLC complete-state-space model checking + TLC trace validation of both backends incl. linearizability search",
        design_ref="DESIGN.md 4.12, 5/C16, 10.3"),
    "C17": dict(
        category="model_checking",
        text="spec/CoopClose: (i) the closing transaction (CoopCloseBalance, CreateCooperativeCloseTx, proposal/complete; "
             "refusals 'unaffordable'/'no outputs' explicit) is checked by TLC over a grid of balances around both dust "
             "limits and msat remainders x commit fee x anchors x opener x payer x fees within +-1 sat of every threshold "
             "(ExactBalance, DustOmitted, Conservation, SameTx); (ii) the legacy fee negotiation (calcCompromiseFee, "
             "feeInAcceptableRange, ratchetFee, max-fee abort, taproot rule) is checked for all ideal-fee pairs in a range "
             "(Bounded, BothSigned, Agree, NoStall). TLC behaviours and a free driver are executed on real channel pairs of 8 "
             "channel types (MuSig2 for taproot) through CreateCloseProposal/CompleteCooperativeClose, on two real "
             "ChanClosers back to back, and on the RBF-coop transitions one round at a time; outputs, fees, every proposed "
             "fee, raw-byte equality of both parties' transactions and script-engine validity are validated by TLC. Part III: one real RBF closer against an arbitrary honest BOLT-2 peer whose fee, lock time, delivery script and signature field are chosen by TLC (PeerOffer/NodeReply/NodeOffer/PeerReply/NodeSig; ExactReply incl. lock time, NamedRefusals); RbfM also on the three taproot types with real MuSig2 sessions.",
        note="negotiation assumes honest peers and in-order delivery; RBF-coop: multi-round lnd<->lnd (RbfM) and one real closer against a TLC-driven honest peer "
             "(part III, non-taproot types), shutdown/flush states not modelled; negotiation runs use the 10 BTC fixture (fees/equality compared, output values compared in part i); "
             "latent RBF lock-time mismatch when Environment.BlockHeight != 0 is recorded as an observation (DESIGN 0b)",
        technique="TLA+ spec + TLC exhaustive grids + replay on real lnwallet/chancloser code + TLC trace validation",
        design_ref="DESIGN.md 4.13, 5/C17"),
    "C18": dict(
        category="model_checking",
        text="spec/SweepFee transcribes LinearFeeFunction (start/end/width/position/delta in msat/kw, exact integer arithmetic "
             "with both neighbours allowed only at exact .5 float ties) and the TxPublisher handlers (MaxFeeRateAllowed, "
             "createAndCheckTx, initial broadcast loop, fee bump, retry) with one action per call; TLC checks FFMonotone, "
             "FFBelowEnd, FFAboveFloor, FFCeilByDeadline, PubFeeLeBudget, PubRateLeMax, PubNoDust, PubCeilByDeadline ... over "
             "start/end/width grids incl. the rounding classes and all conf-target walks; generated behaviours, directed "
             "schedules and a free driver are executed on the real sweep package and every recorded rate, fee, weight, output "
             "and error class is validated by TLC. SweepLife: the UtxoSweeper retry history (LOffer, LRound, LHandle for every bump result, LSpend = third-party spend of a subset, publisher steps in between) on a real UtxoSweeper + BudgetAggregator + TxPublisher (LifeNoDecrease, LifeNotStranded, ConformLife); aux-sweeper extra output/budget (NextEndIsCeilingOfBuiltTx); relay fee above the ceiling and conf targets 1007-2016 (NextStartCappedAtEnd).",
        note="wallet, signer, estimator and mempool are the package's mocks; monitor goroutines are bypassed (handlers called "
             "synchronously); rates capped at 2e6 sat/kw for 32-bit TLC; F12/F13 were repaired (1bf8303, 8b358ae) and their "
             "directed schedules must now pass",
        technique="TLA+ spec + TLC model checking + TLC trace validation of generated, directed and free-running executions",
        design_ref="DESIGN.md 4.14, 5/C18"),
    "C04": dict(
        category="model_checking",
        text="ChannelCloseMC (Channel + history of every commitment a party ever held) checks RevLogMatches (the revocation log "
             "entry for height h mirrors exactly the commitment the peer held at h), RevokedIsLoggedOrCurrent and "
             "EveryBroadcastableIsKnown exhaustively within bounds. On the code: TLC-generated channel histories are driven "
             "through two real channels (all 7 types, lease fixtures with ThawHeight>0); for every revoked height, both "
             "parties as cheater, after reloads, with the breach tx / from stored amounts / without stored amounts: "
             "NewBreachRetribution -> contractcourt's newRetributionInfo -> createJusticeTx variants -> btcd script engine on "
             "every input against the cheater's REAL revoked transaction, and the second-level revoke path; the number and "
             "amounts of inputs, output indexes, state-hint decoding and engine verdicts are validated by TLC against the "
             "model's revoked commitment (ChannelCloseTrace Justice events).",
        note="legacy revocation-log format and watchtower kits not covered; base model kept in sync through error agreement "
             "only (exported API); known finding F11 (lease channel justice tx locktime) reported as KNOWN-FINDING with the "
             "rest of the lease traces re-judged under the named deviation",
        technique="TLA+ spec + TLC model checking + justice transactions built by the real code validated by the script engine and judged by TLC",
        design_ref="DESIGN.md 4.1, 5/C04"),
    "C05": dict(
        category="model_checking",
        text="Same model as C04 (EveryBroadcastableIsKnown: every commitment the peer can broadcast mirrors our durable remote "
             "commitment or pending commit diff). On the code: while replaying TLC-generated histories (mid-dance states with "
             "pending remote commitments, duplicates, dust boundaries, fee changes, reloads) SHADOW copies reloaded from the "
             "database are force-closed and NewUnilateralCloseSummary is run for the peer's current and pending commitment; "
             "own commitment against the funding output (incl. MuSig2), every second-level timeout/success tx, CSV sweeps "
             "(valid at maturity, rejected one block early with the locktime error), to-remote and direct HTLC spends go "
             "through the script engine; TLC validates the number and identity of resolutions, lock times/sequences/CSV "
             "values and the claimable value to the satoshi against the model commitment (CloseCheck events). Part (d): the same close checks on the summary a real chainWatcher (stale handle) dispatches for the transaction that would confirm - the watcher picks the commitment and the commit point (CCWatcher; WatcherClassifies model-checked); CCAnchor: the anchor resolution of every commitment that may confirm (own, remote, pending) exists exactly when due, claims its own output and is accepted by the script interpreter.",
        note="fee sufficiency of sweeps, anchors' CPFP and aux leaves are out of scope; balance-output trimming is specified "
             "but not exercised (reserve keeps balances high); witness-type choice replicated from contractcourt's resolvers",
        technique="TLA+ spec + TLC model checking + script-engine validation of every spend, counts/values judged by TLC trace validation",
        design_ref="DESIGN.md 4.1, 5/C05"),
    "C07": dict(
        category="model_checking",
        text="spec/CircuitMap models the two buckets, the pending/opened/closed maps, every operation as its critical sections "
             "(CommitMem/CommitDisk/Rollback, OpenCheck/OpenDisk/OpenApply, TrimMem/TrimDisk, DeleteMem/DeleteDisk/Restore), "
             "write failure at any transaction, crash at any moment and the three start-up steps; caller assumptions A1-A6 "
             "are named guards. TLC checks AtMostOnceForward, AtMostOneResponse, RestartExact, MemDiskAgree, "
             "OpenedSubsetPending ... for sequential, 2- and 3-thread configurations. Generated behaviours and a seeded "
             "3-thread driver run on the real NewCircuitMap over bolt behind the gated/crashing/failing kvdb wrapper, threads "
             "released phase by phase; returned CircuitFwdActions, errors, memory maps, both buckets and lookups after every "
             "phase and restart are validated by TLC. SwitchResponse: the response path of the real Switch for N HTLCs of one incoming channel (durable: circuits, resolution-message store, outgoing package entries and their acks, channel close status; volatile: closing set, live index, unclaimed queue, mailbox, pendingSettleFails; actions OffChain, OutFwd, Resolve, Handle/Deliver = closeCircuit arbitration, AckTick, Replay, AddLink/RemoveLink, InCommit, CloseChan/FullyClose, Restart = cleanClosedChannels + reforwardResponses + reforwardResolutions; AtMostOneResponse, OneQueued, NotLost) replayed on one real started Switch over bolt.",
        note="kvdb.Batch coalescing disabled by the wrapper; switch-level code (closeCircuit, teardownCircuit) is left to C08; "
             "API-level anomalies outside the switch's call discipline (H9, H10, H11) are explored in the thorough tier and "
             "reported as KNOWN-FINDING",
        technique="TLA+ spec + TLC model checking + deterministic replay of thread interleavings/crashes/write failures on the real circuit map + TLC trace validation",
        design_ref="DESIGN.md 4.3, 5/C07"),
    "C08": dict(
        category="model_checking",
        text="OBSERVED EXECUTIONS. spec/Forwarding: ForwardingRules writes the property over BOLT-2 stages of each payment's HTLC on "
             "the incoming and outgoing channel (SettleOnlyWithDownstreamPreimage, FailOnlyAfterDownstreamGone, OneAnswer, "
             "ForwardOnlyLockedIn, ForwardOnce, NothingDangling, Conservation); Forwarding models the forwarding node's "
             "mechanism (forwarding package filters, circuit commit, mailboxes, pipelined settle, fail from the package, "
             "link/network restarts, message loss) and TLC checks the rules for all orders of 1-2 payments of every kind in "
             "both directions under restarts. On the code: TLC-generated fault plans (2-6 concurrent payments around dust "
             "and policy limits, valid/unknown/hold/underpaid, restarts and disconnects by tap count) and free-running plans "
             "run on the real three-hop network; every wire message of all three servers is tapped with a global sequence "
             "number; ForwardingTrace replays the stamped sequence through the BOLT-2 bookkeeping of all four channel ends, "
             "checks the causal rules per payment and the recorded quiescent state (balances to the msat, active HTLCs, "
             "circuits, payment results, invoice states). SwitchAck carries the outgoing channel's forwarding package as durable state (written LockedIn by the revocation, fwd filter, GC = real channelLink.loadAndRemove, Restart re-forwards the un-acked response of a package in any state; RemovedOnlyWhenDone, NothingStranded); CloseKeys: the circuits a persisted signature closes are recovered after a crash between the signature and DeleteCircuits, for settles and fails (NoCircuitLeftBehind), on a real channel pair, circuit map and channelLink.",
        note="the goroutine interleaving inside a node is the Go runtime's (thorough tier under -race), not enumerated - the "
             "weakest binding in this design; both links of a channel restart together; no fee updates/on-chain resolution/MPP; "
             "defects F17, F21, F22 found by this check were repaired (1abb1ae, ee7b02b, 1a31165) - F17/F21 have directed "
             "regression plans in every batch, F22's window cannot be forced from the three-hop harness (plain Go repro)",
        technique="TLA+ spec + TLC model checking + TLC trace validation of tapped wire traces of the real three-hop network under generated fault plans",
        design_ref="DESIGN.md 4.4, 5/C08"),
    "C09": dict(
        category="model_checking",
        text="spec/ForwardPolicy states every rule of the property as a predicate over ideal integers (Violated = set of violated "
             "rule names) next to a link.go-shaped machine with the code's word widths as parameters; TLC checks "
             "DecisionAgrees/AcceptOnlyIf/NoLoss on a boundary lattice of ~0.55M cases (every comparison's -1/0/+1 "
             "neighbourhood, signed inbound fees with rounding) with ideal and scaled words, Apalache checks the real-width "
             "(2^64/2^32) machine symbolically over the whole realistic box. Every lattice case is executed on a real "
             "channelLink (CheckHtlcForward and CheckHtlcTransit) and judged by TLC; seeded 64-bit cases and out-of-box "
             "witnesses (fixed and Apalache-generated) are judged by Apalache in chunks. (v) ForwardPolicyAux: the link-level decision on a node with an AuxTrafficShaper and HTLCs carrying custom records (CheckCustom, CheckBwAux; AuxDecisionAgrees) - 84 600 TLC-dumped cases through the real CheckHtlcForward/CheckHtlcTransit; (vi) SwitchInbound: the inbound fee used by first and RE-FORWARDED decisions (forwarding packages written by lnwallet, processRemoteAdds -> Switch.ForwardPackets, death between SetFwdFilter and ForwardPackets, Restart, UpdateIn; InboundFeeAsAdvertised); block epochs with decreasing heights (HeightIsCurrent).",
        note="must-agree domain = realistic box (out <= 1e12 msat, rates <= 1e6 ppm, heights < 2^31); no AuxTrafficShaper; "
             "F5 repaired (881cf42, its witnesses now must agree); known finding F5b (uint32 wrap near height 2^32)",
        technique="TLA+ spec + TLC exhaustive lattice + Apalache symbolic check + TLC/Apalache validation of real verdicts",
        design_ref="DESIGN.md 4.5, 5/C09"),
    "C10": dict(
        category="other",
        text="PARTIAL. Decided with the spec: tlv.Stream.Decode/DecodeP2P/DecodeWithParsedTypes(P2P) accept exactly canonical "
             "streams and decode-then-encode reproduces the input - TlvStream's recogniser vs an independently written "
             "Canonical is model checked for all byte strings <= 6 over an 8-byte alphabet and for all token sequences of "
             "<= 2-3 records over 13 symbolic BigSize classes (minimal/non-minimal, complete/cut), and every such input is "
             "executed on the four real entry points and judged by TLC; lnwire framing (dispatch of all 65536 types/failure "
             "codes, 65533 bound). The codec laws (totality incl. allocation bound, bound, fixpoint, round trip, unknown odd "
             "record preserved) are checked by TLC on a TLC-enumerated mutation plan of 2426 cells x repetitions over all 42 "
             "message types and 25 failure codes. NOT decided by a model: the ~60 field layouts themselves. Record-level cells for the TLV extension of every message type (rec-ins x 10 type classes x 6 length classes, rec-drop, rec-len; RecAccept, RecPreserved judged on bytes) and a model of the extension handling (WireExt: Put/Extract/Split/Encode; Lossless, EmptyKept).",
        note="level 'other': the law part is input exploration with a thin specification; tlv code is exercised inside /repo/tlv "
             "(the main module uses the cached tlv v1.4.0); F4 and F18 repaired, known finding F4b (non-P2P DVarBytes "
             "pre-allocation)",
        technique="TLA+ recogniser vs declarative canonicity (TLC exhaustive) + TLC trace validation of real decoders + law monitor over a TLC-enumerated mutation plan",
        design_ref="DESIGN.md 4.6, 5/C10, 6"),
    "C12": dict(
        category="model_checking",
        text="spec/ChainActions: a cell (<= 2-3 HTLCs with direction, forwarded/own, preimage known, height relative to the "
             "deadline, presence absent/dust/output on local/remote/pending, restricted to protocol-allowed patterns) x the "
             "arbitrator's paths (StateDefault pass, broadcast, close event local/remote/pending/breach/coop, "
             "StateContractClosed pass); classification operators mirror the code, the property's dispositions "
             "(GoesOnChainInTime, GoesOnChainOnlyWithReason, ResolverOnce, FailBackOnce, NoFailBackWithOutput, ClosedOutOnce) "
             "are written from the statement over history variables. TLC enumerates every 1-HTLC cell x path (36k "
             "schedules) and bounded 2-3 HTLC universes; its counterexamples are exactly the known classes. All/sampled "
             "schedules run on a started real ChannelArbitrator with the real bolt log, each repeated 3x/8x (Go map order); "
             "action maps, resolvers, fail-backs and state commits are validated by TLC. Part C, the confirmation layer (ChainActionsConf): a real channel pair produces the local/remote/pending-remote commitments, Spend(c) calls the real chainWatcher.handleCommitSpend, Close hands the event to a real started ChannelArbitrator, Restart re-creates it from its log; WatcherNamesConfirmed, ResolverPerOutput, ResolverOwnsOutput, FailBackOnce, SettleOnce judged over the chain's truth.",
        note="resolver behaviour after insertion belongs to C13; HTLC sets static within a run; CommitSets built by the "
             "executor; F3c repaired (1eb7c38); known findings F3a, F3b, F3d reported per cell class as KNOWN-FINDING",
        technique="TLA+ spec + TLC enumeration of all cells and paths + execution of every schedule on the real arbitrator + TLC trace validation",
        design_ref="DESIGN.md 4.8, 5/C12, 10.4"),
    "C13": dict(
        category="model_checking",
        text="spec/Arbitrator models the arbitrator log (state, resolutions, commit set, contracts bucket with per-resolver stage "
             "and a persisted 'resolved' flag separate from presence), the durable effects outside it (channel closed in DB, "
             "broadcast mark, nursery, final outcomes, fully resolved), the attendant's step queue, resolvers as small "
             "programs, chain events, Crash (from the very first step) and Restart (as ChainArbitrator.Start does); TLC "
             "checks ResolvedOnlyWhenEmpty, MarkedOnlyWhenResolved, UpstreamConsistent, NoLoss and - through deadlock "
             "checking - that the only states to stay in for ever are the scenario's reference outcome, for up to 8 crashes. "
             "On the code: for 8 close scenarios a crash-free reference run, then a crash after every durable write "
             "(variant A) / at the attempt of the next write (variant B), crash point 0, double crashes, plans from TLC "
             "behaviours and seeded random plans on the real ChannelArbitrator + real boltArbitratorLog behind the crashing "
             "kvdb wrapper; after every write the raw contracts bucket, state, resolutions and commit set are read back and "
             "validated by TLC together with the terminal verdict of each run. Part B, BreachJustice: the real BreachArbitrator and breachResolver on a real RetributionStore / channeldb / boltArbitratorLog with stops at every durable write of Add, MarkChanFullyClosed, Remove, Checkpoint and restarts of both arbiters (RetKept, ResolvedOnlyAfterJustice, ClosedOnlyAfterJustice); part S, SwitchRes: the last leg of 'failed back the same way' - ProcessContractResolution -> resolution-message store -> forwarder -> incoming link, link flaps, Stop/Start with reforwardResolutions on the real Switch (SameWay, NoContradiction, NoLoss).",
        note="one channel, at most one resolver per kind, legacy (non-anchor) second-level paths; quiescence timing-based; "
             "F8, F19 (FCC), F20 (FRACE) repaired; known findings F9 (dust fail-back before the durable close decision) "
             "and H3 (re-inserted resolvers overwrite checkpointed ones) reported as KNOWN-FINDING; thorough adds a -race run",
        technique="TLA+ spec + TLC model checking with crash/restart + crash enumeration after every durable write on the real arbitrator + TLC trace validation",
        design_ref="DESIGN.md 4.9, 5/C13, 10.6c"),
    "C14": dict(
        category="model_checking",
        text="spec/TxNotifier models the chain (blocks over conflicting txs/spenders), reorg depth below the safety limit, the "
             "three height indexes, per-request rescan status/details, persisted hints and per-client queues with actions "
             "Connect(+NotifyHeight), Disconnect, RegisterConf/Spend (any time, any correct hint), Cancel, historical results "
             "racing with blocks; TLC checks ConfTimely/ConfTruthful/ConfSound (and the spend analogues), "
             "NegOnlyOnDisconnect, DoneOnlyDeep, ConfHintSafe/SpendHintSafe, NoPanic over all histories within bounds. "
             "Generated behaviours, two directed schedules and a free-running driver run on the real TxNotifier with the real "
             "height-hint cache on bolt; every drained notification and both hints after every call are validated by TLC. Part 'catchup' (CatchUp EXTENDS TxNotifier): the dispatcher layer that feeds the notifier - real HandleMissedBlocks / RewindChain / GetClientMissedBlocks over a scripted ChainConn, backend outages of 140 and 150 blocks around ReorgSafetyLimit (CaughtUp, RewindWithinSafety, FollowsActiveConf/Spend/Hints); part 'kinds': every request kind registered side by side; ProcessRelevantSpendTx (RelevantSpend, RelevantSpendAhead).",
        note="clients empty their channels between calls; historical answers are the truth at delivery (O1 excluded); backend "
             "drivers out of scope; F10 repaired (6d8df39): generated behaviours now include orphaned rescans",
        technique="TLA+ spec + TLC model checking + TLC trace validation of generated, directed and free-running executions",
        design_ref="DESIGN.md 4.10, 5/C14"),
    "C19": dict(
        category="model_checking",
        text="SOUNDNESS ONLY. spec/Route writes ValidRoute from the property text as ten clauses (connected, hop bounds, fees paid "
             "incl. inbound fees floored per node, deltas, final hop, fee limit, CLTV limit, restrictions, payload, totals) and "
             "a hop-by-hop payment machine applying the C09 rules; TLC checks Payable (ValidRoute => never refused by any "
             "hop) on the -1/0/+1 lattice around the model route over three graph universes. TLC generates multigraphs "
             "(parallel channels, asymmetric/disabled policies, signed inbound fees, one bound placed exactly at or 1 msat "
             "beyond what the path needs) and 8-10 requests each (limits at/1 below/1 above the cost, outgoing-channel sets, "
             "last hop, ignored nodes/pairs, self-payment, route hints); the real findPath+newRoute answers are validated by "
             "TLC clause by clause. The request names its entry point (findPath+newRoute, FindRoute, RequestRoute, BuildRoute) and a possibly foreign source; the final-hop payload and the onion size are computed in TLA+ from the recorded payload contents (FinalPayload, PayloadFits <= 1300 with sphinx packing as oracle, SizeModelAgrees); RouteGenD generates diamond-with-tail graphs with limits between the candidate paths' needs and payloads filling 1300 bytes +-1.",
        note="a 'no route' answer is never judged (completeness/optimality not claimed); probabilities fixed to 1/0; blinded "
             "tails only as introduction-node-only paths (F28/F29 reported there); small amounts (64-bit arithmetic is C09's subject)",
        technique="TLA+ spec + TLC model checking of payability + TLC as generator and as judge of routes returned by the real pathfinder",
        design_ref="DESIGN.md 4.15, 5/C19"),
    "C20": dict(
        category="model_checking",
        text="spec/Gossip: 2 channels, 3 nodes, timestamps 0..3; a message universe of 1544 messages (valid + every single-defect "
             "variant: each of the 4 signatures, each signed field/key, funding missing/spent/wrong script, wrong-direction "
             "signer, stale/equal/zero timestamp, inconsistent fields); the gossiper's outcomes as named actions incl. stash "
             "and replay of premature updates, zombie/reject caches; the property written declaratively "
             "(OnlyAuthenticFresh, NoRelayWithoutApply, PolicyMonotone, NodeHasChannel, RelayedAuthentic) and checked by TLC "
             "for all sequences <= 4-5 with replays. Really signed then corrupted messages are fed to the real gossiper with "
             "the package's graph source AND with the real graph.Builder + graphdb on bolt: simulated behaviours, a sweep of "
             "the universe after 7 preludes, and single-bit flips of every byte offset; results, graph projection and relayed "
             "messages are validated by TLC. Backend faults are funding classes (each chain query can succeed, answer negatively or fail without an answer); chain events on the real graph.Builder (Connect(S)/Disconnect as real FilteredBlock notifications; ConformChain); part 'proof' (GossipProof: announcement_signatures for own channels on the real WaitingProofStore; ProofAuthentic, RelayedHasProof, StoredProofVerifies).",
        note="gossip v1 only; messages fed one at a time (validation barrier concurrency not explored); rate limiter not in "
             "schedules; SQL graph store not run",
        technique="TLA+ spec + TLC model checking + TLC trace validation of really signed/corrupted messages on the real gossiper and graph builder",
        design_ref="DESIGN.md 4.16, 5/C20"),
    "C06": dict(
        category="model_checking",
        text="spec/Shachain is checked exhaustively by TLC for trees of height 4-5 (thorough: up to 8) incl. corrupted "
             "and out-of-order secrets and the equivalence 'accepted by the bucket check <=> consistent with every "
             "earlier secret'; TLC-generated behaviours (H=5 from the top of the index space, H=48 started at "
             "structural bit patterns through NewRevocationStoreFromBytes) are replayed on the real "
             "RevocationStore/Producer and every recorded answer is validated by TLC against the same spec. A LiveRefresh action (OpenChannel.Refresh on a live channel) is interleaved; after it every received secret must still be reproducible through a stale handle (StaleSecretsRule). Adversarial revocations (RecvBadRev: a revoke_and_ack with a flipped or negated secret delivered before the genuine one) must be refused and leave memory and disk unchanged, and the genuine message must still be accepted afterwards (found and fixed F33).",
        note="hash values abstracted to (family,index) - SHA-256 assumed collision free; executor projection "
             "(lenBuckets, index, Encode length, LookUp==producer value) is trusted; part B (release rule: the "
             "secret in every revoke_and_ack is the one the model releases and the durable local commitment read back "
             "from the database at that moment is newer; NeverBroadcastRevoked, SecretsInOrder) is judged on channel "
             "traces by ChannelTrace_C06",
        technique="TLA+ spec + TLC exhaustive model checking + TLC trace validation of replayed behaviours on the real store",
        design_ref="DESIGN.md 4.2, 5/C06"),
}

PENDING_REASON = "check under construction in this round (specification and executor not yet registered); see DESIGN.md section 5"


def build():
    checks = []
    for pid in ALL:
        if pid not in CHECKS:
            continue
        c = CHECKS[pid]
        checks.append(dict(
            property_id=pid,
            quick_cmd="./vcheck %s --tier quick" % pid,
            thorough_cmd="./vcheck %s --tier thorough" % pid,
            evidence_file="/verif/evidence/%s.json" % pid,
            replay_cmd_template="./vcheck %s --replay {path}" % pid,
            engine="vcheck",
            level_claimed=dict(category=c["category"], text=c["text"], design_ref=c.get("design_ref", "DESIGN.md 5")),
            level_note=c["note"],
            technique=c["technique"]))
    na = [dict(property_id=p, reason=NA.get(p, PENDING_REASON)) for p in ALL if p not in CHECKS]
    m = dict(
        version=1,
        setup_cmd="./setup.sh",
        hooks=dict(guard="verif",
                   enable="go test -tags verif -overlay <generated> (executors under /verif/harness are injected into "
                          "/repo's working tree by overlay; no file of /repo is modified)",
                   baseline_off_cmd=BASE,
                   source_commits=[],
                   add_only=True),
        engines=[dict(name="vcheck", path="/verif/vcheck", serves_properties=sorted(CHECKS),
                      kind_free_text="orchestrator: TLC/Apalache on /verif/spec, go test -overlay executors from "
                                     "/verif/harness against /repo's working tree, TLC trace validation")],
        checks=checks,
        notes="Model-based verification with explicit TLA+ specifications; see DESIGN.md. Exit 2 = inconclusive "
              "(tool failure), never a violation.",
        not_applicable=na)
    json.dump(m, open(os.path.join(VERIF, "MANIFEST.json"), "w"), indent=1)
    return m


NA = {}

if __name__ == "__main__":
    m = build()
    print("MANIFEST.json: %d checks, %d not_applicable" % (len(m["checks"]), len(m["not_applicable"])))
