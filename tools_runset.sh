#!/bin/bash
# usage: runset.sh <tag> "<ID seed>"...
tag=$1; shift
mkdir -p /verif/out/runs
for x in "$@"; do set -- $x; id=$1; seed=$2
  (cd /verif && VERIF_OUT_SUFFIX=_r${tag}s$seed ./vcheck $id --tier quick --seed $seed > /verif/out/runs/${tag}_${id}_s$seed.log 2>&1; echo "RUN $tag $id seed=$seed rc=$? $(grep -E '^(OK|VIOLATION|INCONCLUSIVE|KNOWN)' /verif/out/runs/${tag}_${id}_s$seed.log | head -3 | tr '\n' ' ')" >> /verif/out/runs/summary_$tag.txt; rm -rf /verif/out/${id}_r${tag}s$seed)
done
