SPECIFICATION TPSpec
CONSTANTS
  OwnChans = {1, 2}
  Unknown = {9}
  ASBad = {"none", "nsig", "bsig", "swap", "other"}
INVARIANTS PMsgInUniverse ConformProof StoredProofVerifies ConformPRelay RelayedVerifies ConformPResult ConformStore ProofAuthentic RelayedHasProof
CHECK_DEADLOCK TRUE
