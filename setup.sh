#!/bin/sh
# Offline setup: nothing is downloaded or built ahead of time except Python byte code; every check
# rebuilds its executors from /repo's current working tree.
cd "$(dirname "$0")"
python3 -m compileall -q vlib >/dev/null 2>&1 || true
mkdir -p out evidence
exit 0
