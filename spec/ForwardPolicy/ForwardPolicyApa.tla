---------------------------- MODULE ForwardPolicyApa ----------------------------
(***************************************************************************)
(* The decision machine of ForwardPolicy.tla with the REAL machine words   *)
(* (int64 product in InboundFee.CalcFee, uint32 sums in canSendHtlc),      *)
(* checked symbolically by Apalache over SMT integers: the initial state   *)
(* is ANY case of a domain, the machine runs its <= 9 comparisons.         *)
(*                                                                         *)
(*   domain = the realistic box (InBox):   Agrees is an invariant          *)
(*   domain = all machine-word inputs:     F5Free is an invariant of the   *)
(*            current code (SplitFee), Apalache returns the F5 witness for *)
(*            the code before 881cf42 and F5b witnesses for both, as       *)
(*            counterexamples to F5Free / F5bFree                          *)
(***************************************************************************)
EXTENDS ForwardPolicy

\* the realistic box of the property ("agrees with exact unbounded-integer arithmetic
\* over the whole realistic domain"); outside it the wrap classes F5 / F5b live
\* @type: ($case) => Bool;
InBox(x) ==
  /\ x.in >= 0 /\ x.in < 9007199254740992            \* 2^53
  /\ x.out >= 0 /\ x.out <= 1000000000000            \* 10 BTC, the wumbo maximum
  /\ x.base >= 0 /\ x.base <= 4294967295             \* uint32 on the wire
  /\ x.rate >= 0 /\ x.rate <= Mil                    \* <= 100 %
  /\ x.irate >= -Mil /\ x.irate <= Mil               \* +-100 %
  /\ x.ibase >= -2147483648 /\ x.ibase <= 2147483647
  /\ x.minH >= 0 /\ x.maxH >= 0 /\ x.bw >= 0
  /\ x.height >= 0 /\ x.height < 2147483648
  /\ x.inExp >= 0 /\ x.inExp < 2147483648 /\ x.outExp >= 0 /\ x.outExp < 2147483648
  /\ x.delta >= 0 /\ x.delta < 2147483648 /\ x.rdelta >= 0 /\ x.rdelta < 2147483648
  /\ x.maxCltv >= 0 /\ x.maxCltv < 2147483648

\* everything the Go types admit, as far as the two modelled words are the only ones that wrap
\* (amounts below 2^63, out * rate below 2^64: the other conversions in link.go are exact there)
\* @type: ($case) => Bool;
InWords(x) ==
  /\ x.in >= 0 /\ x.in < 9223372036854775808
  /\ x.out >= 0 /\ x.out <= 18000000000000           \* 180 BTC: out * rate < 2^64, ExpectedFee's uint64 product is exact
  /\ x.base >= 0 /\ x.base <= 4294967295
  /\ x.rate >= 0 /\ x.rate <= Mil
  /\ x.irate >= -2147483648 /\ x.irate <= 2147483647
  /\ x.ibase >= -2147483648 /\ x.ibase <= 2147483647
  /\ x.minH >= 0 /\ x.maxH >= 0 /\ x.bw >= 0
  /\ x.height >= 0 /\ x.height < 4294967296
  /\ x.inExp >= 0 /\ x.inExp < 4294967296 /\ x.outExp >= 0 /\ x.outExp < 4294967296
  /\ x.delta >= 0 /\ x.delta < 4294967296 /\ x.rdelta >= 0 /\ x.rdelta < 4294967296
  /\ x.maxCltv >= 0 /\ x.maxCltv < 4294967296

\* witness search: a channel the executor really has (bandwidth 200 BTC, no min/max) and everyday margins,
\* so that what Apalache returns can be executed on the real link
\* @type: ($case) => Bool;
InWitnessDomain(x) ==
  /\ InWords(x)
  /\ x.bw = 20000000000000 /\ x.minH = 0 /\ x.maxH = 0
  /\ x.rdelta <= 144 /\ x.maxCltv <= 100000 /\ x.delta <= 2016

\* the current code (CalcFee splits the amount) and the code before 881cf42
CInit       == Cases = {} /\ W64 = 18446744073709551616 /\ W32 = 4294967296 /\ SplitFee = TRUE
CInitPreFix == Cases = {} /\ W64 = 18446744073709551616 /\ W32 = 4294967296 /\ SplitFee = FALSE

\* @type: (Int, Int, Int, Int, Int, Int, Int, Int, Int, Int, Int, Int, Int, Int, Int) => $case;
MkCase(a1, a2, a3, a4, a5, a6, a7, a8, a9, a10, a11, a12, a13, a14, a15) ==
  [in |-> a1, out |-> a2, inExp |-> a3, outExp |-> a4, height |-> a5, base |-> a6, rate |-> a7,
   minH |-> a8, maxH |-> a9, delta |-> a10, rdelta |-> a11, maxCltv |-> a12, ibase |-> a13,
   irate |-> a14, bw |-> a15]

AnyCase(Dom(_)) ==
  \E a1 \in Int, a2 \in Int, a3 \in Int, a4 \in Int, a5 \in Int, a6 \in Int, a7 \in Int, a8 \in Int,
     a9 \in Int, a10 \in Int, a11 \in Int, a12 \in Int, a13 \in Int, a14 \in Int, a15 \in Int :
    /\ c = MkCase(a1, a2, a3, a4, a5, a6, a7, a8, a9, a10, a11, a12, a13, a14, a15)
    /\ Dom(c)
    /\ \E k \in {"fwd", "transit"} : kind = k /\ pc = (IF k = "fwd" THEN "fee" ELSE "min")
    /\ verdict = "none"

InitBox   == AnyCase(InBox)
InitWords == AnyCase(InWords)
InitWitness == AnyCase(InWitnessDomain)
ApaNext == Decide \/ (pc = "done" /\ UNCHANGED vars)

\* invariants: Agrees-when-done (box); F5Free / F5bFree from ForwardPolicy.tla (words)
AgreesWhenDone == Done => Agrees
\* vacuity guard: expected to be VIOLATED (an accepting forward is reachable inside the box)
NeverAccepts == ~(Done /\ kind = "fwd" /\ verdict = "ok")
=============================================================================
