SPECIFICATION LatticeSpec
CONSTANTS
  Cases = {}
  W64 = 0
  SplitFee = TRUE
  W32 = 0
  BW = 1000
  Bases = {0, 1, 13}
  Rates = {0, 1, 999, 1000, 1001, 2500, 500000, 999999, 1000000}
  IBaseMags = {0, 1, 7}
  IRateMags = {0, 1, 999, 1000, 500000, 999999, 1000000}
  Heights = {0, 100, 800000}
INVARIANTS BoolFormIsSetForm
CHECK_DEADLOCK FALSE
