SPECIFICATION MCSpec
CONSTANTS
  Cases = {}
  W64 = 0
  SplitFee = TRUE
  W32 = 0
  BW = 1000
  Variant = "ok"
  Slim = TRUE
  Guard = "-"
INVARIANTS AuxTypeOK AuxDecisionAgrees ShaperAloneChangesNothing AcceptOutsideLimitsOnlyIfCustom AcceptAboveBandwidthOnlyIfHandled
CHECK_DEADLOCK FALSE
