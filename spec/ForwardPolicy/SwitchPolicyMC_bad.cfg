SPECIFICATION MCSpec
CONSTANTS
  Chans = {"c1", "c2", "c3", "c4"}
  Pending = {"c4"}
  Carol = {"c1", "c2", "c4"}
  SmallBw = {"c2"}
  PolNames = {"PA", "PB", "PD"}
  HtlcNames = {"H1", "H2", "H3", "H4"}
  MaxSteps = 3
  Variant = "stopAtMissing"
  Guard = "-"
INVARIANTS TypeOK PolicyPropagated HandedOnlyIfAdvertisedAccepts FailedOnlyIfNoLinkAccepts FailureNamesViolatedRule UnknownNextPeerOnlyIf DecisionAsAdvertised
CHECK_DEADLOCK FALSE
