SPECIFICATION MCSpec
CONSTANTS
  Cases = {}
  W64 = 0
  SplitFee = TRUE
  W32 = 0
  BW = 1000
  Bases = {0, 1, 13, 100}
  Rates = {0, 1, 999, 1000, 1001, 2500, 250000, 500000, 750000, 999999, 1000000}
  IBaseMags = {0, 1, 7, 50}
  IRateMags = {0, 1, 999, 1000, 2500, 250000, 500000, 999999, 1000000}
  Heights = {0, 100, 800000, 2147479000}
INVARIANTS TypeOK DecisionAgrees F5Free F5bFree AcceptOnlyIf NoLoss FeeOperatorsExact
CHECK_DEADLOCK FALSE
