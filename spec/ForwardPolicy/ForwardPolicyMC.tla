--------------------------- MODULE ForwardPolicyMC ---------------------------
(***************************************************************************)
(* The exhaustive boundary lattice on small integers.                      *)
(*                                                                         *)
(* Every comparison of the decision gets its three-point neighbourhood     *)
(* (threshold - 1, threshold, threshold + 1) and the neighbourhoods are    *)
(* crossed:                                                                *)
(*  amount side   in  around out + OutFee + InFee (the exact requirement)  *)
(*                    and around out;   out around min_htlc, max_htlc and  *)
(*                    the bandwidth, with min/max/bandwidth themselves      *)
(*                    placed -1/0/+1 around each other;                    *)
(*                fee parameters: real ppm rates (0, 1, around the value   *)
(*                    where out*rate crosses 10^6, 50 %, 100 % -1, 100 %),  *)
(*                    signed inbound base and rate incl. negatives whose    *)
(*                    quotient is not an integer (rounding direction), and  *)
(*                    the +-1000 % clamp with amounts <= 100;              *)
(*  expiry side   outExp around height + rdelta and height + maxCltv with  *)
(*                    maxCltv placed around rdelta; inExp around outExp,   *)
(*                    outExp + delta, outExp + maxCltv with delta placed   *)
(*                    around maxCltv.                                      *)
(* The two sides share no variable, so the lattice is                      *)
(*   (full amount side x a few expiry cases, one per expiry outcome)       *)
(*   u (a few amount cases, one per amount outcome x full expiry side).    *)
(* All products stay below 2^31: out <= 1002, base <= 13, so               *)
(* out + OutFee <= 2017 and |irate| * 2017 < 2^31 for |irate| <= 10^6;     *)
(* the clamp sub-lattice has out + OutFee <= 213.                          *)
(***************************************************************************)
EXTENDS ForwardPolicy, TLC

CONSTANTS Bases, Rates, IBaseMags, IRateMags,   \* fee parameters of the fee sub-lattice (inbound: magnitudes, both signs are used)
          BW,                                \* the bandwidth of the executor's channel
          Heights                            \* current heights

D == {-1, 0, 1}
Signed(S) == S \cup {-x : x \in S}
IBases == Signed(IBaseMags)
IRates == Signed(IRateMags)
Nn(S) == {x \in S : x >= 0}

Need(o, b, r, ib, ir) == o + OutFeeOf(o, b, r) + InFeeOf(o + OutFeeOf(o, b, r), ib, ir)
Ins(o, b, r, ib, ir) == Nn({Need(o, b, r, ib, ir) + d : d \in D} \cup {o + d : d \in D})

Amt(i, o, b, r, ib, ir, mn, mx) ==
  [in |-> i, out |-> o, base |-> b, rate |-> r, ibase |-> ib, irate |-> ir, minH |-> mn, maxH |-> mx, bw |-> BW]
Exp(h, rd, mc, dl, oe, ie) ==
  [height |-> h, rdelta |-> rd, maxCltv |-> mc, delta |-> dl, outExp |-> oe, inExp |-> ie]
Mk(a, e) == [in |-> a.in, out |-> a.out, inExp |-> e.inExp, outExp |-> e.outExp, height |-> e.height,
             base |-> a.base, rate |-> a.rate, minH |-> a.minH, maxH |-> a.maxH, delta |-> e.delta,
             rdelta |-> e.rdelta, maxCltv |-> e.maxCltv, ibase |-> a.ibase, irate |-> a.irate, bw |-> a.bw]

\* one expiry case per expiry-side outcome
ExpiryFew == { Exp(100, 3, 2016, 40, oe, ie) :
               <<oe, ie>> \in { <<200, 240>>, <<103, 143>>, <<2117, 2157>>, <<200, 239>>, <<200, 2217>>, <<103, 102>> } }

\* one amount case per amount-side outcome (ok, fee-1, below min, above max, above bandwidth, several at once)
NeedFew == Need(500, 13, 2500, -7, -5000)
AmountFew == { Amt(i, o, 13, 2500, -7, -5000, mn, mx) :
               <<i, o, mn, mx>> \in { <<NeedFew, 500, 1, 0>>, <<NeedFew - 1, 500, 1, BW>>, <<NeedFew, 500, 501, BW>>,
                                      <<NeedFew, 500, 1, 499>>, <<Need(BW + 1, 13, 2500, -7, -5000), BW + 1, 1, 0>>,
                                      <<0, BW + 1, BW + 2, BW>> } }

FeeOuts    == {1, 7, 500, BW - 1, BW, BW + 1}
ClampRates == {9999999, 10000000, 10000001, 2147483647, -9999999, -10000000, -10000001, -2147483647}
BoundOuts  == {0, 1, BW - 2, BW - 1, BW, BW + 2, BW + 1}
Mins       == {0, 1, BW - 1, BW, BW + 1}
Maxs       == {0, 1, BW - 1, BW, BW + 1, BW + 500}
RDeltas    == {0, 3}
MaxCltvs   == {2, 3, 4, 5, 2016}
Deltas     == {0, 1, 3, 4, 5, 6, 40}
OutExps(h, rd, mc) == Nn({h + rd + d : d \in D} \cup {h + mc + d : d \in D})
InExps(oe, dl, mc) == Nn({oe + d : d \in D} \cup {oe + dl + d : d \in D} \cup {oe + mc + d : d \in D})

(* The lattice is never built as a set (TLC normalises big sets slowly): it is *)
(* the set of successors of the initial state under LatticePick.              *)
\* full amount side x a few expiry cases
PickAmt(P(_), i, o, b, r, ib, ir, mn, mx) == \E e \in ExpiryFew : P(Mk(Amt(i, o, b, r, ib, ir, mn, mx), e))

LatticePick(P(_)) ==
  \* (a) fee lattice: all fee parameters, out below / at / above the bandwidth, min/max wide open
  \/ \E o \in FeeOuts, b \in Bases, r \in Rates, ib \in IBases, ir \in IRates :
       \E i \in Ins(o, b, r, ib, ir) : PickAmt(P, i, o, b, r, ib, ir, 1, BW + 500)
  \* (b) inbound-rate clamp: |irate| around 10^7 and at the int32 limits, small amounts
  \*     (a positive inbound base offsets the 1000 % discount, so that the fee boundary depends on the clamp)
  \/ \E o \in {1, 9, 100}, b \in {0, 13}, r \in {0, 999999, 1000000}, ib \in {-7, 0, 7, 1500}, ir \in ClampRates :
       \E i \in Ins(o, b, r, ib, ir) : PickAmt(P, i, o, b, r, ib, ir, 1, BW + 500)
  \* (c) bounds lattice: min_htlc, max_htlc, bandwidth around each other, out around all three
  \/ \E o \in BoundOuts, mn \in Mins, mx \in Maxs, b \in {0, 13}, r \in {0, 2500}, ib \in {-7, 0}, ir \in {-500000, 0, 999} :
       \E i \in Ins(o, b, r, ib, ir) : PickAmt(P, i, o, b, r, ib, ir, mn, mx)
  \* (d) a few amount cases x full expiry side
  \/ \E a \in AmountFew, h \in Heights, rd \in RDeltas, mc \in MaxCltvs, dl \in Deltas :
       \E oe \in OutExps(h, rd, mc) : \E ie \in InExps(oe, dl, mc) : P(Mk(a, Exp(h, rd, mc, dl, oe, ie)))

\* with machine words only cases whose heights and expiries fit the word are inputs
Fits(x) == W32 # 0 => x.height < W32 /\ x.inExp < W32 /\ x.outExp < W32
PickFwd(x)     == Fits(x) /\ Pick(x, "fwd")
PickTransit(x) == Fits(x) /\ Pick(x, "transit")
\* vacuity guards for the two "few" sides
AmountRules == {"FeeInsufficient", "BelowMin", "AboveMax", "Bandwidth"}
ASSUME \E a \in AmountFew : \A e \in ExpiryFew : Violated(Mk(a, e)) \cap AmountRules = {}
ASSUME \E e \in ExpiryFew : \A a \in AmountFew : Violated(Mk(a, e)) \subseteq AmountRules
ASSUME \E a \in AmountFew, e \in ExpiryFew : Accept(Mk(a, e))
ASSUME \A r \in AmountRules : \E a \in AmountFew : \A e \in ExpiryFew : Violated(Mk(a, e)) \cap AmountRules = {r}
ASSUME \A r \in {"ExpiryTooSoon", "ExpiryTooFar", "IncorrectCltvExpiry", "CltvDeltaTooFar"} :
         \E e \in ExpiryFew : \A a \in AmountFew : Violated(Mk(a, e)) \ AmountRules = {r}

\* the boolean form of the judgement (used by Apalache) is the set form, for every verdict
Verdicts == {"ok", "FeeInsufficient", "AmountBelowMinimum", "HtlcExceedsMax", "InsufficientBalance",
             "ExpiryTooSoon", "ExpiryTooFar", "IncorrectCltvExpiry", "TemporaryChannelFailure", "TemporaryNodeFailure"}
BoolFormIsSetForm == pc # "pick" =>
  LET viol == Violated(c)
      violT == ViolatedTransit(c) IN
  \A v \in Verdicts : /\ AgreeB(c, v) <=> AgreesWith(viol, v)
                      /\ AgreeTransitB(c, v) <=> AgreesWith(violT, v)

MCNext == (pc = "pick" /\ (LatticePick(PickFwd) \/ LatticePick(PickTransit))) \/ Decide
MCSpec == Init /\ [][MCNext]_vars
\* the lattice alone (no decision stages): used for BoolFormIsSetForm, which is costly per state
LatticeSpec == Init /\ [][pc = "pick" /\ LatticePick(PickFwd)]_vars
=============================================================================
