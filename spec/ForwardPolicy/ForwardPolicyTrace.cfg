SPECIFICATION TSpec
CONSTANTS
  Cases = {}
  W64 = 0
  SplitFee = TRUE
  W32 = 0
INVARIANTS WellFormed ForwardAgrees TransitAgrees AcceptedOnlyIf
CHECK_DEADLOCK TRUE
