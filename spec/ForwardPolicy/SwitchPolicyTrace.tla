-------------------------- MODULE SwitchPolicyTrace --------------------------
(* Trace validation of the REAL htlcswitch.Switch with real channelLinks       *)
(* (harness/htlcswitch/c09_switch_test.go).  Every line is one step of a       *)
(* schedule as executed: the action and its arguments, and what the real code  *)
(* showed afterwards -                                                         *)
(*   reg    per channel: "live" (linkIndex) / "pending" (pendingLinkIndex) /   *)
(*          "none"                                                             *)
(*   enf    per channel: cfg.FwrdingPolicy of the registered link (field copy) *)
(*   el     per channel: EligibleToForward() of the registered link (0/1)      *)
(*   bw     per channel: link.Bandwidth() read BEFORE the step                 *)
(*   height Switch.BestHeight() after the step (for an Epoch step: after the    *)
(*          forwarder has taken the epoch of height hn off its epoch stream)    *)
(*   res/to/v  for a Fwd step: "fwd" + the channel on which update_add_htlc    *)
(*          left the node (wire tap at the peer), or "fail" + the failure      *)
(*          handed back to the incoming link, or "none" (neither seen)         *)
(* Each line enables exactly the SwitchPolicy action of that name with the     *)
(* recorded arguments.  The outcome of a Fwd step and the bandwidths are taken *)
(* from the record (the switch's random pick and the channel's balance are     *)
(* inputs of the judgement); everything else is the model's own state.  The    *)
(* judgement is the set of invariants: the property clauses of SwitchPolicy    *)
(* over the recorded outcome and the ADVERTISED policies of the model, and the *)
(* comparison of the recorded link state with the model.  A "Reset" line       *)
(* starts a new behaviour (many behaviours per file).                          *)
EXTENDS SwitchPolicy, Json, TLC, Sequences
VARIABLE l

Trace == ndJsonDeserialize("trace.ndjson")
Last == Trace[l - 1]
R == Trace[l]
Is(a) == l <= Len(Trace) /\ Trace[l].a = a /\ l' = l + 1

RecBw(r)  == [c \in Chans |-> r.bw[c]]
RecReq(r) == [t |-> r.rt, x |-> r.rx]
RecOut(r) == [t |-> r.res, to |-> r.to, v |-> r.v]
RecH(r)   == Htlc(r.h.in, r.h.out, r.h.inExp, r.h.outExp, r.h.ibase, r.h.irate)
RecPol(p) == Pol(p.base, p.rate, p.minH, p.maxH, p.delta)
RecSet(r) == {c \in Chans : r.set[c] = 1}

TInit == /\ adv = [c \in Chans |-> P0] /\ reg = [c \in Chans |-> "none"] /\ enf = adv
         /\ elig = [c \in Chans |-> FALSE] /\ bw = [c \in Chans |-> 0] /\ height = Height0
         /\ last = NoLast /\ out = NoOut /\ l = 1
Reset == /\ Is("Reset")
         /\ adv' = [c \in Chans |-> P0] /\ enf' = adv'
         /\ reg' = [c \in Chans |-> R.init[c]]
         /\ elig' = [c \in Chans |-> R.init[c] = "live"]
         /\ bw' = RecBw(R) /\ height' = Height0 /\ last' = NoLast /\ out' = NoOut
TNext == \/ Reset
         \/ Is("Upd") /\ RecSet(R) # {} /\ UpdatePolicies(RecSet(R), RecPol(R.pol))
         \/ Is("Add") /\ Add(R.c)
         \/ Is("Remove") /\ Remove(R.c)
         \/ Is("Flush") /\ Flush(R.c)
         \/ Is("Unflush") /\ Unflush(R.c)
         \/ Is("Epoch") /\ Epoch(R.hn)
         \/ Is("Fwd") /\ RecReq(R) \in Reqs /\ ForwardWith(RecH(R), RecReq(R), RecBw(R), RecOut(R))
         \/ (l = Len(Trace) + 1 /\ UNCHANGED <<vars, l>>)
TSpec == TInit /\ [][TNext]_<<vars, l>>

Seen == l > 1
Shown(s) == IF s = "gone" THEN "none" ELSE s
\* the fixture is the one the model assumes (link eligibility follows Add/Flush/Unflush)
EnvAsModel == Seen => \A c \in Chans : Live(c) => (Last.el[c] = 1) = elig[c]
\* "the current height": what the real switch takes for the height (the value handlePacketAdd hands to the
\* links) is the height of the last block epoch it received - also when that is lower than an earlier one
HeightIsCurrent == Seen => Last.height = height
\* AddLink / RemoveLink left the link where the model has it
RegAsModel == Seen => \A c \in Chans : Last.reg[c] = Shown(reg[c])
\* "after a policy update every link enforces the advertised policy": the real link's policy, field by field
LinkEnforcesAdvertised == Seen => \A c \in Chans : Live(c) => RecPol(Last.enf[c]) = adv[c]
\* a forward is answered one way or the other
Decided == (Seen /\ Last.a = "Fwd") => out.t \in {"fwd", "fail"}
=============================================================================
