--------------------------- MODULE ForwardPolicyGen ---------------------------
(* Case generator: the successors of the initial state under LatticePick are   *)
(* the boundary lattice; every distinct one is written as one NDJSON line      *)
(* (breadth-first search, one worker: each distinct state is checked once).    *)
EXTENDS ForwardPolicyMC, CSV, Sequences

GNext == pc = "pick" /\ LatticePick(PickFwd)
GSpec == Init /\ [][GNext]_vars

Line == "{\"in\":%1$s,\"out\":%2$s,\"inExp\":%3$s,\"outExp\":%4$s,\"height\":%5$s,\"base\":%6$s,\"rate\":%7$s," \o
        "\"minH\":%8$s,\"maxH\":%9$s,\"delta\":%10$s,\"rdelta\":%11$s,\"maxCltv\":%12$s,\"ibase\":%13$s,\"irate\":%14$s,\"bw\":%15$s}"
Dump == pc # "pick" =>
          CSVWrite(Line, <<c.in, c.out, c.inExp, c.outExp, c.height, c.base, c.rate, c.minH, c.maxH, c.delta,
                           c.rdelta, c.maxCltv, c.ibase, c.irate, c.bw>>, "cases.ndjson")
=============================================================================
