SPECIFICATION MCSpec
CONSTANTS
  Chans = {"c1", "c2", "c3", "c4"}
  Pending = {"c4"}
  Carol = {"c1", "c2", "c4"}
  SmallBw = {"c2"}
  PolNames = {"PA", "PB", "PD"}
  Heights = {100}
  HtlcNames = {"H1", "H2", "H3", "H4"}
  MaxSteps = 3
  Variant = "ok"
  Guard = "-"
INVARIANTS TypeOK PolicyPropagated HandedOnlyIfAdvertisedAccepts FailedOnlyIfNoLinkAccepts FailureNamesViolatedRule UnknownNextPeerOnlyIf DecidedAtCurrentHeight DecisionAsAdvertised
CHECK_DEADLOCK FALSE
