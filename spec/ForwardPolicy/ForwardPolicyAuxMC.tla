------------------------- MODULE ForwardPolicyAuxMC -------------------------
(***************************************************************************)
(* Exhaustive lattice for ForwardPolicyAux: the BOUNDS lattice of          *)
(* ForwardPolicyMC (out around min_htlc, max_htlc and the bandwidth, the   *)
(* three placed -1/0/+1 around each other; in around the exact fee         *)
(* requirement) crossed with every answer of the traffic shaper:           *)
(*   no shaper / shaper configured  x  records none / wire / asset / both  *)
(*   x  channel not handled / handled with an aux bandwidth placed         *)
(*      -1/0/+1/+2 around the link's bandwidth and at 0                    *)
(* and with one expiry case per expiry outcome that matters here (fine,    *)
(* too soon, gap too small).  Both entry points (forward, transit).        *)
(* Variant # "ok" are deliberately wrong machines that TLC must reject     *)
(* (the invariants see the class):                                         *)
(*   recordsExempt   the exemption is granted when a shaper is configured  *)
(*                   and ANY custom record is present                      *)
(*   shaperExempt    ... whenever a shaper is configured                   *)
(*   auxBwUnhandled  the shaper's bandwidth is used for a channel it does  *)
(*                   not handle                                            *)
(* Guard # "-" are vacuity guards TLC must violate (the situations exist). *)
(***************************************************************************)
EXTENDS ForwardPolicyAux, TLC

CONSTANTS BW, Variant, Guard,
          Slim     \* TRUE: a thin slice of the lattice (the control runs: wrong variants, vacuity guards)

D == {-1, 0, 1}
Nn(S) == {x \in S : x >= 0}
Need(o, b, r, ib, ir) == o + OutFeeOf(o, b, r) + InFeeOf(o + OutFeeOf(o, b, r), ib, ir)
Ins(o, b, r, ib, ir) == Nn({Need(o, b, r, ib, ir) + d : d \in D} \cup {o + d : d \in D})

Mk(i, o, mn, mx, e) ==
  [in |-> i, out |-> o, inExp |-> e[2], outExp |-> e[1], height |-> 100, base |-> 13, rate |-> 2500,
   minH |-> mn, maxH |-> mx, delta |-> 40, rdelta |-> 3, maxCltv |-> 2016, ibase |-> -7, irate |-> 999, bw |-> BW]

BoundOuts == {0, 1, BW - 2, BW - 1, BW, BW + 1, BW + 2, BW + 3}
Mins      == IF Slim THEN {BW} ELSE {0, BW - 1, BW, BW + 1}
Maxs      == IF Slim THEN {0, BW} ELSE {0, BW - 1, BW, BW + 1, BW + 500}
Expiries  == IF Slim THEN {<<200, 240>>} ELSE {<<200, 240>>, <<103, 143>>, <<200, 239>>}   \* fine, too soon, gap one short
Auxes     == [shaper : {0, 1}, rec : Recs, handles : {0}, abw : {0}]
             \cup [shaper : {1}, rec : Recs, handles : {1}, abw : {0, BW - 1, BW, BW + 1, BW + 2}]
             \cup [shaper : {0}, rec : {"none", "asset"}, handles : {1}, abw : {BW + 2}]   \* answers nobody asks for

AuxLattice(P(_, _)) ==
  \E o \in BoundOuts, mn \in Mins, mx \in Maxs, e \in Expiries, a \in Auxes :
    \E i \in Ins(o, 13, 2500, -7, 999) : P(Mk(i, o, mn, mx, e), a)

PickFwd(x, a)     == APick(x, a, "fwd")
PickTransit(x, a) == APick(x, a, "transit")

\* wrong variants
BadCustomAsked == CASE Variant = "recordsExempt" -> aux.shaper = 1 /\ aux.rec # "none"
                    [] Variant = "shaperExempt"  -> aux.shaper = 1
                    [] OTHER -> CustomAsked
BadBw == IF Variant = "auxBwUnhandled" THEN (IF aux.shaper = 1 THEN aux.abw ELSE c.bw) ELSE CodeBw
VDecide ==
  IF Variant = "ok" THEN ADecide
  ELSE /\ UNCHANGED aux
       /\ \/ CheckFee
          \/ (pc = "min" /\ BadCustomAsked /\ Pass("soon"))
          \/ (~BadCustomAsked /\ CheckMin)
          \/ CheckMax \/ CheckSoon \/ CheckFar \/ CheckDelta \/ CheckDeltaFar
          \/ (pc = "bw" /\ IF c.out > BadBw THEN Fail("InsufficientBalance")
                           ELSE IF kind = "transit" THEN Fail("ok") ELSE Pass("delta"))

MCNext == (pc = "pick" /\ (AuxLattice(PickFwd) \/ AuxLattice(PickTransit))) \/ VDecide
MCSpec == AInit /\ [][MCNext]_avars

\* vacuity guards (expected: violated)
GuardInv ==
  CASE Guard = "exemptAccept"  -> ~(Done /\ verdict = "ok" /\ c.out < c.minH)
    [] Guard = "wireRejected"  -> ~(Done /\ aux.shaper = 1 /\ aux.rec = "wire" /\ verdict = "AmountBelowMinimum")
    [] Guard = "auxBwAccept"   -> ~(Done /\ verdict = "ok" /\ c.out > c.bw)
    [] Guard = "auxBwReject"   -> ~(Done /\ verdict = "InsufficientBalance" /\ c.out <= c.bw)
    [] OTHER -> TRUE
=============================================================================
