SPECIFICATION GSpec
CONSTANTS
  Chans = {"c1", "c2", "c3", "c4"}
  Pending = {"c4"}
  Carol = {"c1", "c2", "c4"}
  SmallBw = {"c2"}
  PolNames = {"PA"}
  Heights = {100}
  HtlcNames = {"H1"}
  InFeeNames = {"F0", "F1", "F2", "F3", "F4"}
  InHtlcNames = {"I1", "I2", "I3", "I4", "I5", "I6", "I7"}
  MaxPkgs = 4
  MaxLen = 25
INVARIANTS Dump
CHECK_DEADLOCK FALSE
