-------------------------- MODULE ForwardPolicyAux --------------------------
(***************************************************************************)
(* C09, link level - the forwarding decision of ForwardPolicy.tla on a     *)
(* node that has an AUXILIARY TRAFFIC SHAPER configured                    *)
(* (ChannelLinkConfig.AuxTrafficShaper: custom-channel builds) and for     *)
(* HTLCs that carry custom records on the wire.                            *)
(*                                                                         *)
(* What the code does with them (htlcswitch/link.go):                      *)
(*   validateHtlcAmount  first statement: if a shaper is configured AND    *)
(*        the shaper says IsCustomHTLC(records of the outgoing add), the   *)
(*        min_htlc / max_htlc checks are skipped                           *)
(*   canSendHtlc         before the bandwidth comparison: if a shaper is   *)
(*        configured AND it says ShouldHandleTraffic(channel), the         *)
(*        bandwidth is what PaymentBandwidth reports, not link.Bandwidth() *)
(* Both are named deviations from the literal property text ("the amount   *)
(* lies within [min_htlc, max_htlc] and the spendable bandwidth"): an HTLC *)
(* of a custom channel carries its value in asset units, the policy's      *)
(* msat limits do not speak about it, and the spendable bandwidth of such  *)
(* a channel is known to the shaper only.  The deviation is EXACTLY that:  *)
(*   - the exemption needs the shaper's own answer about the records; a    *)
(*     shaper that is merely configured, or records that are merely        *)
(*     present (lnd attaches one itself: the experimental accountability   *)
(*     signal, lnwire.ExperimentalAccountableType), exempt nothing;        *)
(*   - the bandwidth is replaced only for a channel the shaper handles.    *)
(*                                                                         *)
(* The answers of the shaper are environment inputs (variable aux):        *)
(*   shaper   0/1   a shaper is configured                                 *)
(*   rec      which custom records the outgoing add carries:               *)
(*            "none" | "wire" (ordinary records only, the accountability   *)
(*            signal) | "asset" (records the shaper recognises:            *)
(*            IsCustomHTLC = TRUE) | "both"                                *)
(*   handles  0/1   ShouldHandleTraffic for the outgoing channel           *)
(*   abw      PaymentBandwidth's answer (msat)                             *)
(*                                                                         *)
(* The machine below is ForwardPolicy's with the two statements added at   *)
(* the places where the code has them; the judgement (ViolatedAux /        *)
(* AgreeAux) is written from the property statement and the two named      *)
(* deviations and does not fix an order.                                   *)
(***************************************************************************)
EXTENDS ForwardPolicy

VARIABLE aux
avars == <<vars, aux>>

NoAux == [shaper |-> 0, rec |-> "none", handles |-> 0, abw |-> 0]
Recs == {"none", "wire", "asset", "both"}

(* ----- the property with a traffic shaper -------------------------------- *)
\* the shaper's IsCustomHTLC looks at the records only
SaysCustom(a) == a.rec \in {"asset", "both"}
\* exempt from the msat limits of the policy: the configured shaper says the HTLC is a custom one
Exempt(a) == a.shaper = 1 /\ SaysCustom(a)
\* the spendable bandwidth the decision is about
Handled(a) == a.shaper = 1 /\ a.handles = 1
EffCase(x, a) == [x EXCEPT !.bw = IF Handled(a) THEN a.abw ELSE x.bw]

ViolatedAux(x, a) ==
  LET v == Violated(EffCase(x, a)) IN IF Exempt(a) THEN v \ {"BelowMin", "AboveMax"} ELSE v
AgreeAux(x, a, v)        == AgreesWith(ViolatedAux(x, a), v)
AgreeTransitAux(x, a, v) == AgreesWith(ViolatedAux(x, a) \cap TransitRules, v)

(* ----- the machine -------------------------------------------------------- *)
AInit == Init /\ aux = NoAux

APick(x, a, k) == Pick(x, k) /\ aux' = a

\* validateHtlcAmount: fn.MapOptionZ(l.cfg.AuxTrafficShaper, ts.IsCustomHTLC(customRecords)) -> return nil
CustomAsked == aux.shaper = 1 /\ SaysCustom(aux)
CheckCustom == pc = "min" /\ CustomAsked /\ Pass("soon")
\* canSendHtlc: availableBandwidth := l.Bandwidth(); auxBandwidth.IsHandled -> availableBandwidth = bandwidth
CodeBw == IF aux.shaper = 1 /\ aux.handles = 1 THEN aux.abw ELSE c.bw
CheckBwAux == pc = "bw" /\
  IF c.out > CodeBw THEN Fail("InsufficientBalance")
  ELSE IF kind = "transit" THEN Fail("ok") ELSE Pass("delta")

ADecide == /\ UNCHANGED aux
           /\ \/ CheckFee
              \/ CheckCustom
              \/ (~CustomAsked /\ CheckMin)
              \/ CheckMax \/ CheckSoon \/ CheckFar \/ CheckBwAux \/ CheckDelta \/ CheckDeltaFar

-----------------------------------------------------------------------------
AuxTypeOK == /\ aux.shaper \in {0, 1} /\ aux.handles \in {0, 1} /\ aux.rec \in Recs /\ aux.abw \in Int
             /\ TypeOK

\* C09 with the two named deviations: accepted iff no (applicable) rule is violated, a rejection names one
AuxDecisionAgrees == Done => IF kind = "fwd" THEN AgreeAux(c, aux, verdict) ELSE AgreeTransitAux(c, aux, verdict)

\* the deviation is exactly the shaper's: without its answers the decision is the one of ForwardPolicy
ShaperAloneChangesNothing ==
  (Done /\ ~Exempt(aux) /\ ~Handled(aux)) => IF kind = "fwd" THEN Agree(c, verdict) ELSE AgreeTransit(c, verdict)

\* clause by clause: an accepted HTLC outside [min_htlc, max_htlc] is one the configured shaper called custom
AcceptOutsideLimitsOnlyIfCustom ==
  (Done /\ verdict = "ok" /\ (c.out < c.minH \/ (c.maxH # 0 /\ c.out > c.maxH))) => (aux.shaper = 1 /\ SaysCustom(aux))
\* an accepted HTLC above the link's own bandwidth is one on a channel the shaper handles, within ITS bandwidth
AcceptAboveBandwidthOnlyIfHandled ==
  (Done /\ verdict = "ok") => IF Handled(aux) THEN c.out <= aux.abw ELSE c.out <= c.bw
=============================================================================
