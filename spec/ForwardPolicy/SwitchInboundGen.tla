--------------------------- MODULE SwitchInboundGen ---------------------------
(* Schedules for the incoming-side executor: simulated behaviours of           *)
(* SwitchInbound with a history of the controllable part of every step.  One   *)
(* NDJSON file per behaviour; the first line is the link registration.  The    *)
(* steps rotate in cycles of six (see GNext).                                  *)
EXTENDS SwitchInbound, Json, TLC
CONSTANT MaxLen
VARIABLE hist

NoReq == [t |-> "-", x |-> "-"]
Ev(a, k, reach, f, r, h) ==
  [a |-> a, c |-> "-", set |-> [x \in Chans |-> 0], pol |-> P0, rt |-> r.t, rx |-> r.x, h |-> h, hn |-> 0,
   init |-> reg, k |-> k, reach |-> IF reach THEN 1 ELSE 0, fee |-> f]
Rec(e) == hist' = Append(hist, e)

GInit == /\ IInit
         /\ reg = [c \in Chans |-> IF c \in {"c1", "c2", "c3"} THEN "live" ELSE "none"]
         /\ hist = <<Ev("Reset", 0, FALSE, F0, NoReq, NoLast.h)>>
GUpd  == \E f \in InFees : UpdateIn(f) /\ Rec(Ev("UpdIn", 0, FALSE, f, NoReq, NoLast.h))
GLock == \E h \in InHtlcs, r \in InReqs : LockIn(h, r) /\ Rec(Ev("LockIn", 0, FALSE, F0, r, h))
Undone == {k \in 1..Len(pkgs) : k \notin done}
Newest == CHOOSE k \in Undone : \A j \in Undone : k >= j
\* re-processing prefers the packages whose circuit was never committed (they are decided again)
Pref == IF \E k \in Undone : ~pkgs[k].circ THEN {k \in Undone : ~pkgs[k].circ} ELSE Undone
GProcK(k, RS) == \E reach \in RS : Process(k, reach) /\ Rec(Ev("Proc", k, reach, F0, NoReq, NoLast.h))
GProcR(RS) == GProcK(Newest, RS)
GProc == GProcR(BOOLEAN)
GReproc == \E k \in Pref : GProcK(k, BOOLEAN)
GRestart == Restart /\ Rec(Ev("Restart", 0, FALSE, F0, NoReq, NoLast.h))
CanLock == Len(pkgs) < MaxPkgs
\* cycles of six steps: update, add locked in, package processed (every other cycle: the node dies before the
\* switch gets the batch), update or restart, restart, package processed (re-forwarded)
GNext == /\ Len(hist) < MaxLen
         /\ LET p == Len(hist) % 6 IN
            IF p = 1 THEN GUpd
            ELSE IF p = 2 THEN (IF CanLock THEN GLock ELSE GRestart)
            ELSE IF p = 3 THEN (IF Undone = {} THEN GRestart
                                ELSE IF (Len(hist) \div 6) % 2 = 0 THEN GProcR({FALSE}) ELSE GProc)
            ELSE IF p = 4 THEN GRestart \/ GUpd
            ELSE IF p = 5 THEN GRestart
            ELSE (IF Undone # {} THEN GReproc ELSE IF CanLock THEN GLock ELSE GRestart)
GSpec == GInit /\ [][GNext]_<<ivars, hist>>

Dump == Len(hist) = MaxLen =>
          ndJsonSerialize("b_" \o ToString(TLCGet("stats").traces) \o ".ndjson", hist)
=============================================================================
