--------------------------- MODULE SwitchPolicyGen ---------------------------
(* Schedules for the switch-level executor: simulated behaviours of            *)
(* SwitchPolicy with a history of the CONTROLLABLE part of every step (which   *)
(* action, with which arguments).  What the model chose among the accepting    *)
(* links is not part of the schedule - the real switch picks at random.  One   *)
(* NDJSON file per behaviour; its first line is the initial link registration. *)
(* To keep forwards frequent one environment step is followed by two forwards, *)
(* every other time by a forward and a block epoch (any height of the palette: *)
(* up, the same again, or down = reorg).                                       *)
EXTENDS SwitchPolicy, Json, TLC, Sequences
CONSTANT MaxLen
VARIABLE hist

NoReq == [t |-> "-", x |-> "-"]
EvH(a, c, S, q, r, h, hn) ==
  [a |-> a, c |-> c, set |-> [x \in Chans |-> IF x \in S THEN 1 ELSE 0], pol |-> q,
   rt |-> r.t, rx |-> r.x, h |-> h, hn |-> hn, init |-> reg]
Ev(a, c, S, q, r, h) == EvH(a, c, S, q, r, h, 0)
Rec(e) == hist' = Append(hist, e)

\* behaviours start with at least two of the three ordinary channels up (the others may be added later)
GInit == /\ Init /\ Cardinality({c \in Chans : reg[c] = "live"}) >= 2
         /\ hist = <<Ev("Reset", "-", {}, P0, NoReq, NoLast.h)>>
GUpd == \E S \in (SUBSET Chans) \ {{}}, q \in Policies :
            UpdatePolicies(S, q) /\ Rec(Ev("Upd", "-", S, q, NoReq, NoLast.h))
GAdd == \E c \in Chans : \/ Add(c) /\ Rec(Ev("Add", c, {}, P0, NoReq, NoLast.h))
                         \/ Flush(c) /\ Rec(Ev("Flush", c, {}, P0, NoReq, NoLast.h))
                         \/ Unflush(c) /\ Rec(Ev("Unflush", c, {}, P0, NoReq, NoLast.h))
GRemove == \E c \in Chans : Remove(c) /\ Rec(Ev("Remove", c, {}, P0, NoReq, NoLast.h))
\* links come and stop early in a behaviour and go late, so that forwards meet parallel links most of the time
GLink == IF Len(hist) < 10 /\ ENABLED GAdd THEN GAdd ELSE GAdd \/ GRemove
GEpoch == \E m \in Heights : Epoch(m) /\ Rec(EvH("Epoch", "-", {}, P0, NoReq, NoLast.h, m))
GFwdOf(h, r) == Forward(h, r) /\ Rec(Ev("Fwd", "-", {}, P0, r, h))
\* a forward that is decided by the links (not unknown_next_peer), if there is one
Decisive(h, r) == AllowedSet(enf, r, h, bw, height) # {FailWith(UNP)}
GFwd == IF Len(hist) % 3 = 2 /\ \E h \in Htlcs, r \in Reqs : Decisive(h, r)
        THEN \E h \in Htlcs, r \in Reqs : Decisive(h, r) /\ GFwdOf(h, r)
        ELSE \E h \in Htlcs, r \in Reqs : GFwdOf(h, r)
\* step 1, 4, 7, ... is an environment step (policy updates and link changes alternate), step 2, 5, 8, ... a
\* forward, step 3, 9, 15, ... a block epoch and step 6, 12, 18, ... a forward again
GNext == /\ Len(hist) < MaxLen
         /\ IF Len(hist) % 3 = 0 /\ (Len(hist) \div 3) % 2 = 1 THEN GEpoch
            ELSE IF Len(hist) % 3 # 1 THEN GFwd
            ELSE IF (Len(hist) \div 3) % 2 = 0 \/ ~ENABLED GLink THEN GUpd ELSE GLink
GSpec == GInit /\ [][GNext]_<<vars, hist>>

Dump == Len(hist) = MaxLen =>
          ndJsonSerialize("b_" \o ToString(TLCGet("stats").traces) \o ".ndjson", hist)
=============================================================================
