SPECIFICATION GSpec
CONSTANTS
  Cases = {}
  W64 = 0
  SplitFee = TRUE
  W32 = 0
  BW = 1000
  Variant = "ok"
  Slim = FALSE
  Guard = "-"
INVARIANTS Dump
CHECK_DEADLOCK FALSE
