SPECIFICATION MSpec
CONSTANTS
  Chans = {"c1", "c2", "c3", "c4"}
  Pending = {"c4"}
  Carol = {"c1", "c2", "c4"}
  SmallBw = {"c2"}
  PolNames = {"PA"}
  Heights = {100}
  HtlcNames = {"H1"}
  InFeeNames = {"F0", "F1", "F2", "F3", "F4"}
  InHtlcNames = {"I1", "I2", "I3", "I4", "I5", "I6"}
  MaxPkgs = 2
  MaxSteps = 6
  Variant = "ok"
  Guard = "redecided"
INVARIANTS GuardInv
CHECK_DEADLOCK FALSE
