--------------------------- MODULE SwitchPolicyMC ---------------------------
(* Exhaustive bounded configuration of SwitchPolicy: every behaviour of at     *)
(* most MaxSteps steps from every initial link registration, over the palettes *)
(* of the cfg.  The invariants of SwitchPolicy hold after every step (they are *)
(* inductive: the bound limits the explored bandwidth values, not the          *)
(* argument).  The Never* "invariants" are vacuity guards that TLC must        *)
(* VIOLATE (SwitchPolicyMC_reach*.cfg): the interesting situations exist in    *)
(* the model.  StopAtMissing / HonourRequested are two deliberately wrong      *)
(* variants of the switch (a batch update that stops at the first channel      *)
(* without a live link; a hand-over to the requested channel whenever any      *)
(* parallel channel accepted) - TLC must find that they break the property     *)
(* (SwitchPolicyMC_bad*.cfg), i.e. the invariants are able to see that class.  *)
(* A third wrong variant, StaleHeight, decides with the HIGHEST height seen so  *)
(* far instead of the current one (a switch that ignores epochs that go back:   *)
(* after a reorg onto a shorter branch its height is not the chain's).          *)
EXTENDS SwitchPolicy
CONSTANTS MaxSteps, Variant, Guard
VARIABLES n, seen     \* steps taken; the highest height seen (history, used by the StaleHeight variant only)

\* wrong variant 1: the batch is walked in some order and abandoned at the first channel without a live link
BadUpdate(S, q) ==
  \E reached \in SUBSET {c \in S : Live(c)} :
    /\ (\A c \in S : Live(c)) => reached = S
    /\ adv' = [c \in Chans |-> IF c \in S THEN q ELSE adv[c]]
    /\ enf' = [c \in Chans |-> IF c \in reached THEN q ELSE enf[c]]
    /\ out' = NoOut /\ UNCHANGED <<reg, elig, bw, height, last>>
\* wrong variant 2: when some candidate accepted, the requested channel is preferred among ALL candidates
BadForward(h, r) ==
  \E o \in (IF Known(r) /\ r.t = "chan" /\ Dests(enf, r, h, bw, height) # {} THEN {FwdTo(r.x)}
            ELSE AllowedSet(enf, r, h, bw, height)) :
    ForwardWith(h, r, bw, o)
\* wrong variant 3: the decision uses the highest height seen, not the current one
StaleForward(h, r) == \E o \in AllowedSet(enf, r, h, bw, seen) : ForwardWith(h, r, bw, o)

VNext == CASE Variant = "ok" -> Next
           [] Variant = "stopAtMissing" ->
                \/ \E S \in (SUBSET Chans) \ {{}}, q \in Policies : BadUpdate(S, q)
                \/ \E c \in Chans : Add(c) \/ Remove(c) \/ Flush(c) \/ Unflush(c)
                \/ \E m \in Heights : Epoch(m)
                \/ FwdNext
           [] Variant = "honourRequested" -> EnvNext \/ \E h \in Htlcs, r \in Reqs : BadForward(h, r)
           [] Variant = "staleHeight" -> EnvNext \/ \E h \in Htlcs, r \in Reqs : StaleForward(h, r)

MCInit == Init /\ n = 0 /\ seen = Height0
MCNext == n < MaxSteps /\ VNext /\ n' = n + 1 /\ seen' = IF height' > seen THEN height' ELSE seen
MCSpec == MCInit /\ [][MCNext]_<<vars, n, seen>>

\* vacuity guards (expected: violated)
NeverShifted      == (Handed /\ last.req.t = "chan") => out.to = last.req.x
NeverPolicyFail   == Failed => out.v = UNP
NeverStaleChannel == \A c \in Chans : reg[c] \in {"none", "gone", "pending"} => adv[c] = P0
NeverBwFail       == Failed => out.v # "InsufficientBalance"
NeverSkipIneligible == (Handed /\ last.req.t = "chan") => elig[last.req.x]
NeverNodeHop      == Handed => last.req.t = "chan"
\* a forward is decided below the highest height seen (after a reorg), and the two heights decide differently
NeverReorgDecides == out # NoOut =>
  AllowedSet(adv, last.req, last.h, last.bw, last.height) = AllowedSet(adv, last.req, last.h, last.bw, seen)
GuardInv == CASE Guard = "shifted" -> NeverShifted
              [] Guard = "policyFail" -> NeverPolicyFail
              [] Guard = "staleChannel" -> NeverStaleChannel
              [] Guard = "bwFail" -> NeverBwFail
              [] Guard = "skipIneligible" -> NeverSkipIneligible
              [] Guard = "nodeHop" -> NeverNodeHop
              [] Guard = "reorgDecides" -> NeverReorgDecides
=============================================================================
