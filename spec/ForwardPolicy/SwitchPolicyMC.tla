--------------------------- MODULE SwitchPolicyMC ---------------------------
(* Exhaustive bounded configuration of SwitchPolicy: every behaviour of at     *)
(* most MaxSteps steps from every initial link registration, over the palettes *)
(* of the cfg.  The invariants of SwitchPolicy hold after every step (they are *)
(* inductive: the bound limits the explored bandwidth values, not the          *)
(* argument).  The Never* "invariants" are vacuity guards that TLC must        *)
(* VIOLATE (SwitchPolicyMC_reach*.cfg): the interesting situations exist in    *)
(* the model.  StopAtMissing / HonourRequested are two deliberately wrong      *)
(* variants of the switch (a batch update that stops at the first channel      *)
(* without a live link; a hand-over to the requested channel whenever any      *)
(* parallel channel accepted) - TLC must find that they break the property     *)
(* (SwitchPolicyMC_bad*.cfg), i.e. the invariants are able to see that class.  *)
EXTENDS SwitchPolicy
CONSTANTS MaxSteps, Variant, Guard
VARIABLE n

\* wrong variant 1: the batch is walked in some order and abandoned at the first channel without a live link
BadUpdate(S, q) ==
  \E reached \in SUBSET {c \in S : Live(c)} :
    /\ (\A c \in S : Live(c)) => reached = S
    /\ adv' = [c \in Chans |-> IF c \in S THEN q ELSE adv[c]]
    /\ enf' = [c \in Chans |-> IF c \in reached THEN q ELSE enf[c]]
    /\ out' = NoOut /\ UNCHANGED <<reg, elig, bw, last>>
\* wrong variant 2: when some candidate accepted, the requested channel is preferred among ALL candidates
BadForward(h, r) ==
  \E o \in (IF Known(r) /\ r.t = "chan" /\ Dests(enf, r, h, bw) # {} THEN {FwdTo(r.x)} ELSE AllowedSet(enf, r, h, bw)) :
    ForwardWith(h, r, bw, o)

VNext == CASE Variant = "ok" -> Next
           [] Variant = "stopAtMissing" ->
                \/ \E S \in (SUBSET Chans) \ {{}}, q \in Policies : BadUpdate(S, q)
                \/ \E c \in Chans : Add(c) \/ Remove(c) \/ Flush(c) \/ Unflush(c)
                \/ FwdNext
           [] Variant = "honourRequested" -> EnvNext \/ \E h \in Htlcs, r \in Reqs : BadForward(h, r)

MCInit == Init /\ n = 0
MCNext == n < MaxSteps /\ VNext /\ n' = n + 1
MCSpec == MCInit /\ [][MCNext]_<<vars, n>>

\* vacuity guards (expected: violated)
NeverShifted      == (Handed /\ last.req.t = "chan") => out.to = last.req.x
NeverPolicyFail   == Failed => out.v = UNP
NeverStaleChannel == \A c \in Chans : reg[c] \in {"none", "gone", "pending"} => adv[c] = P0
NeverBwFail       == Failed => out.v # "InsufficientBalance"
NeverSkipIneligible == (Handed /\ last.req.t = "chan") => elig[last.req.x]
NeverNodeHop      == Handed => last.req.t = "chan"
GuardInv == CASE Guard = "shifted" -> NeverShifted
              [] Guard = "policyFail" -> NeverPolicyFail
              [] Guard = "staleChannel" -> NeverStaleChannel
              [] Guard = "bwFail" -> NeverBwFail
              [] Guard = "skipIneligible" -> NeverSkipIneligible
              [] Guard = "nodeHop" -> NeverNodeHop
=============================================================================
