---------------------------- MODULE SwitchInbound ----------------------------
(***************************************************************************)
(* C09, incoming side - WHERE the inbound fee of the forwarding decision   *)
(* comes from.  "The difference covers base fee plus proportional fee      *)
(* (adjusted by the inbound fee or discount)": the inbound fee is the one  *)
(* ADVERTISED for the channel the HTLC came in on.  SwitchPolicy takes the *)
(* inbound fee as a property of the HTLC; here it is state of the node,    *)
(* and the HTLC reaches the switch the way it does in lnd:                 *)
(*                                                                         *)
(*   remote add locked in     lnwallet ReceiveRevocation writes a          *)
(*                            forwarding package (state LockedIn)          *)
(*   channelLink.processRemoteAdds(pkg)   decodes the onion, builds the    *)
(*                            htlcPacket - it READS the link's inbound fee *)
(*                            (cfg.FwrdingPolicy.InboundFee) into the      *)
(*                            packet -, persists the forward filter (pkg   *)
(*                            state Processed) and hands the batch to      *)
(*   Switch.ForwardPackets    commits the circuit (a packet whose circuit  *)
(*                            exists already is dropped: duplicate) and    *)
(*                            runs handlePacketAdd = SwitchPolicy!Forward  *)
(*                            with the packet's inbound fee                *)
(*   restart                  a new link is created with the advertised    *)
(*                            policy; resolveFwdPkgs hands EVERY package   *)
(*                            that is not fully acked to processRemoteAdds *)
(*                            again (state Processed: the adds of the      *)
(*                            forward filter are re-forwarded).  If the    *)
(*                            node died after the filter was persisted and *)
(*                            before the circuit was committed, the        *)
(*                            re-forwarded add is DECIDED AGAIN.           *)
(*                                                                         *)
(* State added to SwitchPolicy's:                                          *)
(*   advIn   the inbound fee advertised for the incoming channel           *)
(*   enfIn   the inbound fee the incoming link holds                       *)
(*   pkgs    the forwarding packages of the incoming channel on disk, in   *)
(*           order: [h, req] the add and its onion's next hop, st          *)
(*           "lockedin" | "processed", circ = its circuit is committed     *)
(*   done    the packages the current incarnation of the link has handed   *)
(*           to processRemoteAdds (each package once per incarnation)      *)
(* Actions: UpdateIn(f) (UpdateForwardingPolicy of the incoming link after *)
(* the graph was updated), LockIn(h, r), Process(k, reach) (reach = FALSE: *)
(* the node dies between SetFwdFilter and Switch.ForwardPackets), Restart. *)
(*                                                                         *)
(* Property, on top of SwitchPolicy's clauses (which judge every decision  *)
(* against the ADVERTISED outgoing policy for the inbound fee last.h       *)
(* carries):                                                               *)
(*   InboundFeeAsAdvertised   every decision - first or re-forwarded - is  *)
(*        taken with the inbound fee advertised for the incoming channel   *)
(*   InLinkHoldsAdvertised    the incoming link holds the advertised fee   *)
(***************************************************************************)
EXTENDS SwitchPolicy, Sequences

CONSTANTS InFeeNames,   \* names of the inbound fees that may be advertised (palette below)
          InHtlcNames,  \* names of the HTLC shapes that may come in (palette below)
          MaxPkgs       \* bound on the number of forwarding packages

VARIABLES advIn, enfIn, pkgs, done
ivars == <<vars, advIn, enfIn, pkgs, done>>

IFee(b, r) == [base |-> b, rate |-> r]
InFeeOfName(nm) ==
  CASE nm = "F0" -> IFee(0, 0)         \* none (lnd's default)
    [] nm = "F1" -> IFee(5, 0)         \* surcharge: base
    [] nm = "F2" -> IFee(-5, 0)        \* discount: base
    [] nm = "F3" -> IFee(0, 1000)      \* surcharge: 0.1 % of out + outbound fee (1 msat on 1010)
    [] nm = "F4" -> IFee(0, -5000)     \* discount: 0.5 % (5.05 -> 5 msat on 1010, rounded toward zero)
InFees == {InFeeOfName(nm) : nm \in InFeeNames}
F0 == IFee(0, 0)

\* incoming HTLCs: out = 1000 over a channel advertising PA (fee 10) or PB (fee 20); in on the thresholds the
\* inbound fees above create (1005, 1010, 1011, 1015 for PA)
InHtlcOf(nm) ==
  CASE nm = "I1" -> Htlc(1004, 1000, 150, 140, 0, 0)
    [] nm = "I2" -> Htlc(1005, 1000, 150, 140, 0, 0)
    [] nm = "I3" -> Htlc(1010, 1000, 150, 140, 0, 0)
    [] nm = "I4" -> Htlc(1011, 1000, 150, 140, 0, 0)
    [] nm = "I5" -> Htlc(1014, 1000, 150, 140, 0, 0)
    [] nm = "I6" -> Htlc(1015, 1000, 150, 140, 0, 0)
    [] nm = "I7" -> Htlc(1020, 1000, 150, 140, 0, 0)
InHtlcs == {InHtlcOf(nm) : nm \in InHtlcNames}
\* an incoming add names a channel (legacy / TLV payload with a short channel id)
InReqs == {r \in Reqs : r.t = "chan"}

\* the packet processRemoteAdds builds: the add's amounts and expiries, the onion's forwarding info, and the
\* inbound fee f
WithIn(h, f) == [h EXCEPT !.ibase = f.base, !.irate = f.rate]

IInit ==
  /\ Init
  /\ advIn = F0 /\ enfIn = F0 /\ pkgs = <<>> /\ done = {}

Keep == UNCHANGED <<adv, reg, enf, elig, bw, height, last>>

\* the policy of the incoming channel is updated (graph first, then the link: Switch.UpdateForwardingPolicies ->
\* channelLink.UpdateForwardingPolicy)
UpdateIn(f) ==
  /\ advIn' = f /\ enfIn' = f
  /\ out' = NoOut /\ Keep /\ UNCHANGED <<pkgs, done>>

\* the remote peer's add is fully locked in: ReceiveRevocation persists the forwarding package
LockIn(h, r) ==
  /\ Len(pkgs) < MaxPkgs
  /\ pkgs' = Append(pkgs, [h |-> h, req |-> r, st |-> "lockedin", circ |-> FALSE])
  /\ out' = NoOut /\ Keep /\ UNCHANGED <<advIn, enfIn, done>>

\* channelLink.processRemoteAdds(pkgs[k]) of the current incarnation, followed - unless the node dies in between
\* (reach = FALSE) - by Switch.ForwardPackets: circuit commit and, for a new circuit, handlePacketAdd
\* with the inbound fee f the packet carries
ProcessWith(k, reach, f) ==
  /\ k \in 1..Len(pkgs) /\ k \notin done
  /\ done' = done \cup {k}
  /\ UNCHANGED <<advIn, enfIn>>
  /\ IF reach /\ ~pkgs[k].circ
     THEN /\ pkgs' = [pkgs EXCEPT ![k].st = "processed", ![k].circ = TRUE]
          /\ LET h == WithIn(pkgs[k].h, f) IN
             \E o \in AllowedSet(enf, pkgs[k].req, h, bw, height) : ForwardWith(h, pkgs[k].req, bw, o)
     ELSE /\ pkgs' = [pkgs EXCEPT ![k].st = "processed"]
          /\ out' = NoOut /\ Keep
\* the real link reads its own policy at that moment
Process(k, reach) == ProcessWith(k, reach, enfIn)

\* the node (or the link) restarts: the peer creates a new link from the advertised policy, every package is
\* handed to processRemoteAdds again
Restart ==
  /\ enfIn' = advIn /\ done' = {}
  /\ out' = NoOut /\ Keep /\ UNCHANGED <<advIn, pkgs>>

INext == \/ \E f \in InFees : UpdateIn(f)
         \/ \E h \in InHtlcs, r \in InReqs : LockIn(h, r)
         \/ \E k \in 1..MaxPkgs, reach \in BOOLEAN : Process(k, reach)
         \/ Restart
ISpec == IInit /\ [][INext]_ivars

-----------------------------------------------------------------------------
ITypeOK ==
  /\ TypeOK
  /\ advIn \in [base : Int, rate : Int] /\ enfIn \in [base : Int, rate : Int]
  /\ Len(pkgs) <= MaxPkgs /\ done \subseteq 1..Len(pkgs)
  /\ \A k \in 1..Len(pkgs) : pkgs[k].st \in {"lockedin", "processed"} /\ (pkgs[k].circ => pkgs[k].st = "processed")

\* the incoming link holds the inbound fee advertised for its channel
InLinkHoldsAdvertised == enfIn = advIn

\* C09: the decision is taken with the inbound fee advertised for the incoming channel - every time the
\* add is decided, also when it is re-forwarded after a restart
InboundFeeAsAdvertised == out # NoOut => (last.h.ibase = advIn.base /\ last.h.irate = advIn.rate)
=============================================================================
