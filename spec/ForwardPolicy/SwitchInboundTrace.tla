-------------------------- MODULE SwitchInboundTrace --------------------------
(* Trace validation of the incoming side on the REAL code                       *)
(* (harness/htlcswitch/c09_inbound_test.go): one real Switch with real outgoing  *)
(* channelLinks (the fixture of SwitchPolicyTrace) and a real incoming           *)
(* channelLink object on a real channel whose remote side (the executor) adds    *)
(* HTLCs and runs the commitment dance, so that the forwarding packages are      *)
(* written by lnwallet.  Every line is one step as executed + what the real code *)
(* showed afterwards: the fields of SwitchPolicyTrace and                        *)
(*   enfin    the incoming link's cfg.FwrdingPolicy.InboundFee (field copy)      *)
(*   npkg     number of forwarding packages of the incoming channel on disk      *)
(*   pst      state of package k on disk after a Proc step                       *)
(*   npk/pif  number of packets the link handed to ForwardPackets in this step   *)
(*            and the inbound fee the first one carried (field copy)             *)
(*   circ     the switch's circuit map has a circuit for the add of package k    *)
(*   res/to/v what came of it: update_add_htlc on a channel (wire tap), a        *)
(*            failure handed to the incoming side, or nothing                    *)
(* A Proc step with a recorded decision is judged as SwitchPolicy's forward of   *)
(* the add WITH THE INBOUND FEE ADVERTISED for the incoming channel (the model's *)
(* advIn): the clauses of SwitchPolicy then say whether that outcome is allowed. *)
EXTENDS SwitchInbound, Json, TLC
VARIABLE l

Trace == ndJsonDeserialize("trace.ndjson")
Last == Trace[l - 1]
R == Trace[l]
Is(a) == l <= Len(Trace) /\ Trace[l].a = a /\ l' = l + 1

RecBw(r)  == [c \in Chans |-> r.bw[c]]
RecReq(r) == [t |-> r.rt, x |-> r.rx]
RecOut(r) == [t |-> r.res, to |-> r.to, v |-> r.v]
RecH(r)   == Htlc(r.h.in, r.h.out, r.h.inExp, r.h.outExp, 0, 0)
RecPol(p) == Pol(p.base, p.rate, p.minH, p.maxH, p.delta)
Decision(r) == r.res \in {"fwd", "fail"}

TInit == /\ adv = [c \in Chans |-> P0] /\ reg = [c \in Chans |-> "none"] /\ enf = adv
         /\ elig = [c \in Chans |-> FALSE] /\ bw = [c \in Chans |-> 0] /\ height = Height0
         /\ last = NoLast /\ out = NoOut /\ l = 1
         /\ advIn = F0 /\ enfIn = F0 /\ pkgs = <<>> /\ done = {}
Reset == /\ Is("Reset")
         /\ adv' = [c \in Chans |-> P0] /\ enf' = adv'
         /\ reg' = [c \in Chans |-> R.init[c]]
         /\ elig' = [c \in Chans |-> R.init[c] = "live"]
         /\ bw' = RecBw(R) /\ height' = Height0 /\ last' = NoLast /\ out' = NoOut
         /\ advIn' = F0 /\ enfIn' = F0 /\ pkgs' = <<>> /\ done' = {}
\* processRemoteAdds + ForwardPackets as recorded: whether the batch reached the switch is the schedule's, the
\* outcome and the bandwidths are the record's; the decision is judged with the ADVERTISED inbound fee
TProcess(k, reach) ==
  /\ k \in 1..Len(pkgs) /\ k \notin done
  /\ done' = done \cup {k}
  /\ UNCHANGED <<advIn, enfIn>>
  /\ IF Decision(R)
     THEN /\ pkgs' = [pkgs EXCEPT ![k].st = "processed", ![k].circ = TRUE]
          /\ ForwardWith(WithIn(pkgs[k].h, advIn), pkgs[k].req, RecBw(R), RecOut(R))
     ELSE /\ pkgs' = [pkgs EXCEPT ![k].st = "processed", ![k].circ = @ \/ reach]
          /\ out' = NoOut /\ Keep
TNext == \/ Reset
         \/ Is("UpdIn") /\ UpdateIn(IFee(R.fee.base, R.fee.rate))
         \/ Is("LockIn") /\ RecReq(R) \in InReqs /\ LockIn(RecH(R), RecReq(R))
         \/ Is("Proc") /\ TProcess(R.k, R.reach = 1)
         \/ Is("Restart") /\ Restart
         \/ (l = Len(Trace) + 1 /\ UNCHANGED <<ivars, l>>)
TSpec == TInit /\ [][TNext]_<<ivars, l>>

Seen == l > 1
Shown(s) == IF s = "gone" THEN "none" ELSE s
IsProc == Seen /\ Last.a = "Proc"
\* the fixture is the one the model assumes
EnvAsModel == Seen => /\ \A c \in Chans : Live(c) => (Last.el[c] = 1) = elig[c]
                      /\ Last.height = height
                      /\ \A c \in Chans : Last.reg[c] = Shown(reg[c])
                      /\ \A c \in Chans : Live(c) => RecPol(Last.enf[c]) = adv[c]
                      /\ Last.note = ""
\* lnwallet wrote one forwarding package per locked-in add; processRemoteAdds left it Processed
PackagesAsModel == Seen => /\ Last.npkg = Len(pkgs)
                           /\ IsProc => Last.pst = "processed"
\* the incoming link holds the advertised inbound fee (after an update, after a restart)
InLinkHoldsAdvertisedFee == Seen => IFee(Last.enfin.base, Last.enfin.rate) = advIn
\* a package is decided exactly when the model decides it: it reached the switch and has no circuit yet
\* (so: a re-forwarded add without circuit IS decided again, one with a circuit is dropped)
DecidedWhenModelDecides ==
  IsProc => LET k == Last.k IN
            /\ Decision(Last) => (Last.reach = 1 /\ Last.circb = 0)
            /\ (Last.reach = 1 /\ Last.circb = 0) => Decision(Last)
            /\ (Last.circ = 1) = pkgs[k].circ
\* the packet the link hands to the switch carries the advertised inbound fee (projection of the packet)
PacketCarriesAdvertisedFee == (IsProc /\ Last.npk > 0) => IFee(Last.pif.base, Last.pif.rate) = advIn
=============================================================================
