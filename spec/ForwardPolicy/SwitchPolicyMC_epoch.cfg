SPECIFICATION MCSpec
CONSTANTS
  Chans = {"c1", "c2", "c3", "c4"}
  Pending = {"c4"}
  Carol = {"c1", "c2", "c4"}
  SmallBw = {"c2"}
  PolNames = {"PA", "PF"}
  Heights = {98, 100, 101, 104}
  HtlcNames = {"H5", "H6", "H12", "H13", "H14", "H15"}
  MaxSteps = 3
  Variant = "ok"
  Guard = "-"
INVARIANTS TypeOK PolicyPropagated HandedOnlyIfAdvertisedAccepts FailedOnlyIfNoLinkAccepts FailureNamesViolatedRule UnknownNextPeerOnlyIf DecidedAtCurrentHeight DecisionAsAdvertised
CHECK_DEADLOCK FALSE
