SPECIFICATION GSpec
CONSTANTS
  Chans = {"c1", "c2", "c3", "c4"}
  Pending = {"c4"}
  Carol = {"c1", "c2", "c4"}
  SmallBw = {"c2"}
  PolNames = {"PA", "PB", "PC", "PD", "PE", "PF"}
  Heights = {98, 100, 101, 104}
  HtlcNames = {"H1", "H2", "H3", "H4", "H5", "H6", "H7", "H8", "H9", "H10", "H11"}
  MaxLen = 16
INVARIANTS Dump
CHECK_DEADLOCK FALSE
