--------------------------- MODULE SwitchInboundMC ---------------------------
(* Exhaustive bounded configuration of SwitchInbound: every behaviour of at    *)
(* most MaxSteps steps from one link registration (c1, c2 to the next peer     *)
(* live, c3 live, c4 absent).  Variant # "ok" are deliberately wrong incoming  *)
(* links that TLC must reject:                                                 *)
(*   replayZeroFee   a re-forwarded add (package already Processed) carries    *)
(*                   the zero inbound fee                                      *)
(*   restartDefault  the link created at a restart holds the DEFAULT policy    *)
(*                   (zero inbound fee) instead of the advertised one          *)
(* Guard # "-" are vacuity guards TLC must violate.                            *)
EXTENDS SwitchInbound
CONSTANTS MaxSteps, Variant, Guard
VARIABLES n, redec, dropd   \* steps taken; history: the last step re-decided a Processed package / re-processed a package whose circuit exists

MInit == /\ IInit /\ n = 0 /\ redec = FALSE /\ dropd = FALSE
         /\ reg = [c \in Chans |-> IF c \in {"c1", "c2", "c3"} THEN "live" ELSE "none"]

BadProcess(k, reach) ==
  IF k \in 1..Len(pkgs) /\ pkgs[k].st = "processed" THEN ProcessWith(k, reach, F0) ELSE Process(k, reach)
BadRestart == /\ enfIn' = F0 /\ done' = {} /\ out' = NoOut /\ Keep /\ UNCHANGED <<advIn, pkgs>>

VNext == CASE Variant = "ok" -> INext
           [] Variant = "replayZeroFee" ->
                \/ \E f \in InFees : UpdateIn(f)
                \/ \E h \in InHtlcs, r \in InReqs : LockIn(h, r)
                \/ \E k \in 1..MaxPkgs, reach \in BOOLEAN : BadProcess(k, reach)
                \/ Restart
           [] Variant = "restartDefault" ->
                \/ \E f \in InFees : UpdateIn(f)
                \/ \E h \in InHtlcs, r \in InReqs : LockIn(h, r)
                \/ \E k \in 1..MaxPkgs, reach \in BOOLEAN : Process(k, reach)
                \/ BadRestart

MNext == /\ n < MaxSteps /\ VNext /\ n' = n + 1
         /\ redec' = (out' # NoOut /\ \E k \in 1..Len(pkgs) : k \in done' \ done /\ pkgs[k].st = "processed")
         /\ dropd' = (\E k \in 1..Len(pkgs) : k \in done' \ done /\ pkgs[k].circ)
MSpec == MInit /\ [][MNext]_<<ivars, n, redec, dropd>>

GuardInv ==
  CASE Guard = "redecided"     -> ~redec
    [] Guard = "redecidedFee"  -> ~(redec /\ AllowedSet(adv, last.req, last.h, last.bw, last.height)
                                             # AllowedSet(adv, last.req, WithIn(last.h, F0), last.bw, last.height))
    [] Guard = "dropped"       -> ~dropd
    [] OTHER -> TRUE
=============================================================================
