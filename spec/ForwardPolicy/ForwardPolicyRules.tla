------------------------- MODULE ForwardPolicyRules -------------------------
(***************************************************************************)
(* C09 - the forwarding policy decision, written from the property         *)
(* statement as pure operators over UNBOUNDED integers.  No variables, no  *)
(* constants: the module is the oracle for TLC (small integers) and, with  *)
(* the type annotations, for Apalache (SMT integers, 64-bit scale), and is *)
(* what C19 uses per hop.                                                  *)
(*                                                                         *)
(* A case is everything the decision depends on:                           *)
(*   in, out         incoming / outgoing HTLC amount (msat)                *)
(*   inExp, outExp   incoming / outgoing expiry (absolute heights)         *)
(*   height          current best height                                    *)
(*   base, rate      advertised outbound base fee (msat) / rate (ppm)      *)
(*   minH, maxH      advertised min_htlc / max_htlc (msat; maxH = 0 means  *)
(*                   "no maximum advertised" - see AboveMax)               *)
(*   delta           advertised time_lock_delta                            *)
(*   rdelta          OutgoingCltvRejectDelta   (local safety margin)       *)
(*   maxCltv         MaxOutgoingCltvExpiry     (local safety margin)       *)
(*   ibase, irate    signed inbound fee of the incoming channel            *)
(*   bw              spendable bandwidth of the outgoing channel           *)
(***************************************************************************)
EXTENDS Integers, FiniteSets

(* @typeAlias: case = { in: Int, out: Int, inExp: Int, outExp: Int, height: Int,
     base: Int, rate: Int, minH: Int, maxH: Int, delta: Int, rdelta: Int,
     maxCltv: Int, ibase: Int, irate: Int, bw: Int }; *)
ForwardPolicyRules_aliases == TRUE

Mil       == 1000000          \* fee rates are parts per million
MaxInRate == 10 * Mil         \* inbound rates are capped to +-1000 %

\* integer division truncating toward zero (TLA+'s \div rounds toward -infinity)
\* @type: (Int, Int) => Int;
TruncDiv(a, b) == IF a >= 0 THEN a \div b ELSE -((-a) \div b)

\* @type: (Int) => Int;
Clamp(r) == IF r > MaxInRate THEN MaxInRate ELSE IF r < -MaxInRate THEN -MaxInRate ELSE r

\* outbound fee for forwarding `out`: base + out * rate / 10^6, rounded down
\* @type: (Int, Int, Int) => Int;
OutFeeOf(out, base, rate) == base + (out * rate) \div Mil

\* signed inbound fee, charged on out + outbound fee: positive fees are rounded
\* down, discounts (negative) are rounded up, i.e. truncation toward zero
\* @type: (Int, Int, Int) => Int;
InFeeOf(basis, ibase, irate) == ibase + TruncDiv(Clamp(irate) * basis, Mil)

\* @type: ($case) => Int;
OutFee(c) == OutFeeOf(c.out, c.base, c.rate)
\* @type: ($case) => Int;
InFee(c) == InFeeOf(c.out + OutFee(c), c.ibase, c.irate)
\* what the incoming HTLC must carry on top of the outgoing amount (may be negative)
\* @type: ($case) => Int;
ExpectedFee(c) == OutFee(c) + InFee(c)

(* ----- the rules of the property statement, one predicate per rule ----- *)
\* "the outgoing amount does not exceed the incoming amount, the difference covers
\*  base fee plus proportional fee (adjusted by the inbound fee or discount)"
\* @type: ($case) => Bool;
FeeInsufficient(c) == c.in < c.out \/ c.in - c.out < ExpectedFee(c)
\* "the amount lies within [min_htlc, max_htlc] and the spendable bandwidth"
\* @type: ($case) => Bool;
BelowMin(c) == c.out < c.minH
\* max_htlc = 0 is lnd's encoding of "no max_htlc set" (named deviation from the
\* literal interval: a policy without a maximum forbids nothing)
\* @type: ($case) => Bool;
AboveMax(c) == c.maxH # 0 /\ c.out > c.maxH
\* @type: ($case) => Bool;
Bandwidth(c) == c.out > c.bw
\* "the outgoing expiry is neither too close to nor too far beyond the current height"
\* @type: ($case) => Bool;
ExpiryTooSoon(c) == c.outExp <= c.height + c.rdelta
\* @type: ($case) => Bool;
ExpiryTooFar(c) == c.outExp > c.height + c.maxCltv
\* "the expiry gap is at least the advertised time-lock delta and within the configured maximum"
\* @type: ($case) => Bool;
IncorrectCltvExpiry(c) == c.inExp - c.outExp < c.delta
\* @type: ($case) => Bool;
CltvDeltaTooFar(c) == c.inExp - c.outExp > c.maxCltv

\* @type: (Bool, Str) => Set(Str);
If(b, name) == IF b THEN {name} ELSE {}

\* the set of rules a forward of case c violates
\* @type: ($case) => Set(Str);
Violated(c) ==
  If(FeeInsufficient(c), "FeeInsufficient") \cup If(BelowMin(c), "BelowMin") \cup
  If(AboveMax(c), "AboveMax") \cup If(Bandwidth(c), "Bandwidth") \cup
  If(ExpiryTooSoon(c), "ExpiryTooSoon") \cup If(ExpiryTooFar(c), "ExpiryTooFar") \cup
  If(IncorrectCltvExpiry(c), "IncorrectCltvExpiry") \cup If(CltvDeltaTooFar(c), "CltvDeltaTooFar")

\* a locally initiated payment has no incoming HTLC: only the outgoing-side rules apply
TransitRules == {"BelowMin", "AboveMax", "Bandwidth", "ExpiryTooSoon", "ExpiryTooFar"}
\* @type: ($case) => Set(Str);
ViolatedTransit(c) == Violated(c) \cap TransitRules

\* @type: ($case) => Bool;
Accept(c) == Violated(c) = {}
\* @type: ($case) => Bool;
AcceptTransit(c) == ViolatedTransit(c) = {}

(* ----- verdicts of the implementation and the rule(s) each one names ---- *)
(* "ok" = nil; otherwise the BOLT-4 failure (for temporary_channel_failure  *)
(* lnd's FailureDetail distinguishes the two uses).  expiry_too_far is sent *)
(* for the absolute bound and for the gap bound.  Any other verdict names   *)
(* no rule of this property.                                                *)
\* @type: (Str) => Set(Str);
RulesOf(v) ==
  IF v = "FeeInsufficient" THEN {"FeeInsufficient"}
  ELSE IF v = "AmountBelowMinimum" THEN {"BelowMin"}
  ELSE IF v = "HtlcExceedsMax" THEN {"AboveMax"}
  ELSE IF v = "InsufficientBalance" THEN {"Bandwidth"}
  ELSE IF v = "ExpiryTooSoon" THEN {"ExpiryTooSoon"}
  ELSE IF v = "ExpiryTooFar" THEN {"ExpiryTooFar", "CltvDeltaTooFar"}
  ELSE IF v = "IncorrectCltvExpiry" THEN {"IncorrectCltvExpiry"}
  ELSE {}

\* C09: accepted iff nothing is violated; a rejection names a rule that is violated.
\* The order in which an implementation evaluates the rules is NOT constrained.
\* @type: (Set(Str), Str) => Bool;
AgreesWith(viol, v) == /\ (v = "ok") <=> (viol = {})
                       /\ (v # "ok") => (RulesOf(v) \cap viol # {})
\* @type: ($case, Str) => Bool;
Agree(c, v) == AgreesWith(Violated(c), v)
\* @type: ($case, Str) => Bool;
AgreeTransit(c, v) == AgreesWith(ViolatedTransit(c), v)

(* ----- the same judgement without sets and records (cheap for the SMT encoding) ----- *)
(* Scalar arguments in the order in, out, inExp, outExp, height, base, rate, minH, maxH,   *)
(* delta, rdelta, maxCltv, ibase, irate, bw.  TLC checks on the whole lattice that         *)
(* AgreeB = Agree and AgreeTransitB = AgreeTransit for every verdict (BoolFormIsSetForm).  *)
\* @type: (Int, Int, Int, Int, Int, Int) => Bool;
FeeInsufficientS(in, out, base, rate, ibase, irate) ==
  in < out \/ in - out < OutFeeOf(out, base, rate) + InFeeOf(out + OutFeeOf(out, base, rate), ibase, irate)
\* verdict v names a violated rule; fwd = FALSE restricts to the outgoing-side rules (transit)
\* @type: (Int, Int, Int, Int, Int, Int, Int, Int, Int, Int, Int, Int, Int, Int, Int, Str, Bool) => Bool;
AgreeS(in, out, inExp, outExp, height, base, rate, minH, maxH, delta, rdelta, maxCltv, ibase, irate, bw, v, fwd) ==
  IF v = "ok" THEN
    /\ out >= minH /\ (maxH = 0 \/ out <= maxH) /\ out <= bw
    /\ outExp > height + rdelta /\ outExp <= height + maxCltv
    /\ fwd => /\ ~FeeInsufficientS(in, out, base, rate, ibase, irate)
              /\ inExp - outExp >= delta /\ inExp - outExp <= maxCltv
  ELSE IF v = "FeeInsufficient" THEN fwd /\ FeeInsufficientS(in, out, base, rate, ibase, irate)
  ELSE IF v = "AmountBelowMinimum" THEN out < minH
  ELSE IF v = "HtlcExceedsMax" THEN maxH # 0 /\ out > maxH
  ELSE IF v = "InsufficientBalance" THEN out > bw
  ELSE IF v = "ExpiryTooSoon" THEN outExp <= height + rdelta
  ELSE IF v = "ExpiryTooFar" THEN outExp > height + maxCltv \/ (fwd /\ inExp - outExp > maxCltv)
  ELSE IF v = "IncorrectCltvExpiry" THEN fwd /\ inExp - outExp < delta
  ELSE FALSE
\* @type: ($case, Str) => Bool;
AgreeB(c, v) == AgreeS(c.in, c.out, c.inExp, c.outExp, c.height, c.base, c.rate, c.minH, c.maxH, c.delta,
                       c.rdelta, c.maxCltv, c.ibase, c.irate, c.bw, v, TRUE)
\* @type: ($case, Str) => Bool;
AgreeTransitB(c, v) == AgreeS(c.in, c.out, c.inExp, c.outExp, c.height, c.base, c.rate, c.minH, c.maxH, c.delta,
                              c.rdelta, c.maxCltv, c.ibase, c.irate, c.bw, v, FALSE)

(* ----- division-free characterisation of the two fee terms ------------- *)
(* Used as a check of the operators above (TLC on the lattice, Apalache    *)
(* symbolically): f is the outbound / inbound fee iff it is the unique     *)
(* integer with these bounds.                                              *)
\* @type: (Int, Int, Int, Int) => Bool;
IsOutFee(f, out, base, rate) ==
  (f - base) * Mil <= out * rate /\ out * rate < (f - base + 1) * Mil
\* @type: (Int, Int, Int, Int) => Bool;
IsInFee(f, basis, ibase, irate) ==
  LET p == Clamp(irate) * basis
      q == f - ibase IN
  IF p >= 0 THEN q * Mil <= p /\ p < (q + 1) * Mil
            ELSE (q - 1) * Mil < p /\ p <= q * Mil
=============================================================================
