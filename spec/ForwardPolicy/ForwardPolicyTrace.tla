-------------------------- MODULE ForwardPolicyTrace --------------------------
(* Trace validation (TLC, small integers).  Every line is one case executed on *)
(* the real channelLink: its inputs (the bandwidth is the one the real channel *)
(* reported) and the verdicts of CheckHtlcForward (v) and CheckHtlcTransit     *)
(* (vt).  The decision has no memory, so the trace is not a chain: from the    *)
(* initial state every line i is one successor (Pick of exactly that case,     *)
(* l = i + 1 as if lines 1..i had been consumed), which keeps a counterexample *)
(* two states long.  The judgement is the set of invariants over the consumed  *)
(* line: the recorded verdicts must agree with the rules in exact arithmetic - *)
(* accepted iff nothing is violated, a rejection names a violated rule.  The   *)
(* order of evaluation of the machine in ForwardPolicy.tla is NOT used here.   *)
EXTENDS ForwardPolicy, Json, Sequences
VARIABLE l

Trace == ndJsonDeserialize("trace.ndjson")
Last == Trace[l - 1]

CaseOf(r) == [in |-> r.in, out |-> r.out, inExp |-> r.inExp, outExp |-> r.outExp, height |-> r.height,
              base |-> r.base, rate |-> r.rate, minH |-> r.minH, maxH |-> r.maxH, delta |-> r.delta,
              rdelta |-> r.rdelta, maxCltv |-> r.maxCltv, ibase |-> r.ibase, irate |-> r.irate, bw |-> r.bw]

TInit == Init /\ l = 1
TNext == \/ /\ l = 1 /\ pc = "pick" /\ verdict = "none"
            /\ \E i \in 1..Len(Trace) :
                 /\ l' = i + 1
                 /\ c' = CaseOf(Trace[i]) /\ kind' = "fwd" /\ pc' = "fee" /\ verdict' = "none"
         \/ (pc = "fee" /\ UNCHANGED <<vars, l>>)
TSpec == TInit /\ [][TNext]_<<vars, l>>

Live == pc = "fee"
\* every line is a case record
WellFormed == Live => Last.a = "Case"
\* CheckHtlcForward agrees with the rules of the property
ForwardAgrees == Live => Agree(c, Last.v)
\* CheckHtlcTransit agrees with the outgoing-side rules
TransitAgrees == Live => AgreeTransit(c, Last.vt)
\* the property's first sentence on the recorded accept, clause by clause
AcceptedOnlyIf == (Live /\ Last.v = "ok") =>
  /\ c.out <= c.in /\ c.in - c.out >= OutFee(c) + InFee(c)
  /\ c.inExp - c.outExp >= c.delta /\ c.inExp - c.outExp <= c.maxCltv
  /\ c.outExp > c.height + c.rdelta /\ c.outExp <= c.height + c.maxCltv
  /\ c.out >= c.minH /\ (c.maxH # 0 => c.out <= c.maxH) /\ c.out <= c.bw
  /\ IsOutFee(OutFee(c), c.out, c.base, c.rate) /\ IsInFee(InFee(c), c.out + OutFee(c), c.ibase, c.irate)
=============================================================================
