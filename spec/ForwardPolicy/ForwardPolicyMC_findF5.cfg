SPECIFICATION MCSpec
CONSTANTS
  Cases = {}
  W64 = 16777216
  SplitFee = TRUE
  W32 = 0
  BW = 1000
  Bases = {0}
  Rates = {2500}
  IBaseMags = {0}
  IRateMags = {500000}
  Heights = {100}
INVARIANTS F5Free
CHECK_DEADLOCK FALSE
