SPECIFICATION MCSpec
CONSTANTS
  Cases = {}
  W64 = 16777216
  SplitFee = TRUE
  W32 = 4096
  BW = 1000
  Bases = {0, 1, 13}
  Rates = {0, 1, 999, 1000, 1001, 2500, 500000, 999999, 1000000}
  IBaseMags = {0, 1, 7}
  IRateMags = {0, 1, 999, 1000, 500000, 999999, 1000000}
  Heights = {0, 100, 4090, 4093}
INVARIANTS TypeOK DecisionAgrees AcceptOnlyIf NoLoss FeeOperatorsExact
CHECK_DEADLOCK FALSE
