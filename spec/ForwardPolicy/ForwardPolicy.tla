---------------------------- MODULE ForwardPolicy ----------------------------
(***************************************************************************)
(* C09 - the forwarding decision of an lnd channel link as a state machine *)
(* shaped like the implementation (htlcswitch/link.go):                    *)
(*                                                                         *)
(*   CheckHtlcForward:  fee -> canSendHtlc -> delta -> deltafar            *)
(*   CheckHtlcTransit:         canSendHtlc                                 *)
(*   canSendHtlc:       validateHtlcAmount (min -> max) -> soon -> far -> bw*)
(*                                                                         *)
(* One action per comparison, in the code's order, each one either failing *)
(* with the BOLT-4 failure the code returns or passing on.  The property   *)
(* (ForwardPolicyRules: Violated / Agree) does NOT fix an order; the       *)
(* invariants below say that this particular order satisfies it.           *)
(*                                                                         *)
(* Deliberate deviations of the code, as parameters of the machine:        *)
(*   W64  the signed machine word in which InboundFee.CalcFee multiplies   *)
(*        rate * amount (lnd: 2^64).  0 = ideal integers.           [F5]   *)
(*   SplitFee  TRUE = CalcFee as repaired by 881cf42 (F5): the amount is   *)
(*        split, rate*(amt / 10^6) + rate*(amt % 10^6)/10^6, so that no    *)
(*        product wraps below 9.2*10^17 msat; FALSE = the code before the  *)
(*        repair, rate*amt/10^6, which wraps from 9.2*10^11 msat on.       *)
(*   W32  the unsigned word in which heightNow + delta is added            *)
(*        (lnd: 2^32).  0 = ideal integers.                          [F5b] *)
(* With W64 = W32 = 0 the machine computes in ideal integers.  TLC checks  *)
(* it on the boundary lattice with ideal words and with scaled-down words  *)
(* (2^24 / 2^12): inside the correspondingly scaled box it satisfies the   *)
(* property, outside TLC finds the two wrap classes by itself (10^6 is not *)
(* scaled, so SplitFee makes no difference there).  Apalache does the same *)
(* with the real widths (ForwardPolicyApa): any case of the realistic box  *)
(* agrees; with SplitFee no int64 witness exists up to 180 BTC and any     *)
(* int32 rate, without it Apalache returns the F5 witness; F5b witnesses   *)
(* exist (known finding).                                                  *)
(***************************************************************************)
EXTENDS ForwardPolicyRules

CONSTANTS
  \* @type: Set($case);
  Cases,      \* the cases to decide (MC: the boundary lattice)
  \* @type: Int;
  W64,
  \* @type: Bool;
  SplitFee,
  \* @type: Int;
  W32

VARIABLES
  \* @type: Str;
  kind,       \* "fwd" (CheckHtlcForward) | "transit" (CheckHtlcTransit)
  \* @type: $case;
  c,          \* the case under decision
  \* @type: Str;
  pc,         \* "pick" | "fee" | "min" | "max" | "soon" | "far" | "bw" | "delta" | "deltafar" | "done"
  \* @type: Str;
  verdict     \* "none" while deciding, then "ok" or the failure

vars == <<kind, c, pc, verdict>>

\* @type: $case;
NoCase == [in |-> 0, out |-> 0, inExp |-> 0, outExp |-> 0, height |-> 0, base |-> 0, rate |-> 0,
           minH |-> 0, maxH |-> 0, delta |-> 0, rdelta |-> 0, maxCltv |-> 0, ibase |-> 0,
           irate |-> 0, bw |-> 0]

(* ----- the code's arithmetic ------------------------------------------- *)
\* two's complement reduction of x into a signed word of W64 values
\* @type: (Int) => Int;
WrapS(x) == IF W64 = 0 THEN x ELSE ((x + W64 \div 2) % W64) - W64 \div 2
\* unsigned addition in a word of W32 values
\* @type: (Int, Int) => Int;
Sum32(a, b) == IF W32 = 0 THEN a + b ELSE (a + b) % W32

\* InboundFee.CalcFee(amtToForward + outFee) in int64: base + clamp(rate) * amt / 10^6, the product either
\* of the whole amount (before 881cf42) or of its two parts (since)
\* @type: (Int, Int) => Int;
CodeProp(r, amt) ==
  IF SplitFee THEN WrapS(r * (amt \div Mil)) + TruncDiv(WrapS(r * (amt % Mil)), Mil)
              ELSE TruncDiv(WrapS(r * amt), Mil)
\* @type: ($case) => Int;
CodeInFee(x) == x.ibase + CodeProp(Clamp(x.irate), x.out + OutFee(x))
\* @type: ($case) => Int;
CodeExpectedFee(x) == CodeInFee(x) + OutFee(x)

\* inside this box the machine words do not wrap
\* @type: ($case) => Bool;
NoWrap64(x) == W64 # 0 =>
  LET r == Clamp(x.irate)
      a == x.out + OutFee(x)
      In(p) == p < W64 \div 2 /\ p >= -(W64 \div 2) IN
  IF SplitFee THEN In(r * (a \div Mil)) /\ In(r * (a % Mil)) ELSE In(r * a)
\* @type: ($case) => Bool;
NoWrap32(x) == W32 # 0 => x.height + x.rdelta < W32 /\ x.height + x.maxCltv < W32
\* @type: ($case) => Bool;
NoWrap(x) == NoWrap64(x) /\ NoWrap32(x)

(* ----- the machine ------------------------------------------------------ *)
Init == kind = "fwd" /\ c = NoCase /\ pc = "pick" /\ verdict = "none"

Pick(x, k) == /\ pc = "pick"
              /\ c' = x /\ kind' = k /\ verdict' = "none"
              /\ pc' = IF k = "fwd" THEN "fee" ELSE "min"

Fail(v)  == verdict' = v /\ pc' = "done" /\ UNCHANGED <<kind, c>>
Pass(to) == pc' = to /\ UNCHANGED <<kind, c, verdict>>

\* CheckHtlcForward: actualFee := int64(in) - int64(out); in < out || actualFee < expectedFee
CheckFee == pc = "fee" /\
  IF c.in < c.out \/ c.in - c.out < CodeExpectedFee(c) THEN Fail("FeeInsufficient") ELSE Pass("min")
\* validateHtlcAmount: amt < policy.MinHTLCOut
CheckMin == pc = "min" /\
  IF c.out < c.minH THEN Fail("AmountBelowMinimum") ELSE Pass("max")
\* validateHtlcAmount: policy.MaxHTLC != 0 && amt > policy.MaxHTLC
CheckMax == pc = "max" /\
  IF c.maxH # 0 /\ c.out > c.maxH THEN Fail("HtlcExceedsMax") ELSE Pass("soon")
\* canSendHtlc: timeout <= heightNow + OutgoingCltvRejectDelta
CheckSoon == pc = "soon" /\
  IF c.outExp <= Sum32(c.height, c.rdelta) THEN Fail("ExpiryTooSoon") ELSE Pass("far")
\* canSendHtlc: timeout > MaxOutgoingCltvExpiry + heightNow
CheckFar == pc = "far" /\
  IF c.outExp > Sum32(c.maxCltv, c.height) THEN Fail("ExpiryTooFar") ELSE Pass("bw")
\* canSendHtlc: amt > availableBandwidth; last check of CheckHtlcTransit
CheckBw == pc = "bw" /\
  IF c.out > c.bw THEN Fail("InsufficientBalance")
  ELSE IF kind = "transit" THEN Fail("ok") ELSE Pass("delta")
\* CheckHtlcForward: incomingTimeout < outgoingTimeout || incomingDelta < TimeLockDelta
CheckDelta == pc = "delta" /\
  IF c.inExp < c.outExp \/ c.inExp - c.outExp < c.delta THEN Fail("IncorrectCltvExpiry") ELSE Pass("deltafar")
\* CheckHtlcForward: incomingDelta > MaxOutgoingCltvExpiry, else accept
CheckDeltaFar == pc = "deltafar" /\
  IF c.inExp - c.outExp > c.maxCltv THEN Fail("ExpiryTooFar") ELSE Fail("ok")

Decide == CheckFee \/ CheckMin \/ CheckMax \/ CheckSoon \/ CheckFar \/ CheckBw \/ CheckDelta \/ CheckDeltaFar

Next == \/ \E x \in Cases, k \in {"fwd", "transit"} : Pick(x, k)
        \/ Decide

Spec == Init /\ [][Next]_vars

-----------------------------------------------------------------------------
Done == pc = "done"

TypeOK == /\ kind \in {"fwd", "transit"}
          /\ pc \in {"pick", "fee", "min", "max", "soon", "far", "bw", "delta", "deltafar", "done"}
          /\ verdict \in {"none", "ok", "FeeInsufficient", "AmountBelowMinimum", "HtlcExceedsMax",
                          "InsufficientBalance", "ExpiryTooSoon", "ExpiryTooFar", "IncorrectCltvExpiry"}
          /\ (verdict = "none") <=> ~Done

\* C09: accepted iff no rule is violated in exact arithmetic, and a rejection names a violated rule
DecisionAgrees == (Done /\ NoWrap(c)) =>
                    IF kind = "fwd" THEN Agree(c, verdict) ELSE AgreeTransit(c, verdict)
\* the same outside the box: these hold for ideal words only - with machine words TLC finds
\* F5 (int64 wrap of the inbound-fee product) and F5b (uint32 wrap of height + delta)
Agrees == IF kind = "fwd" THEN Agree(c, verdict) ELSE AgreeTransit(c, verdict)
F5Free  == (Done /\ NoWrap32(c)) => Agrees
F5bFree == (Done /\ NoWrap64(c)) => Agrees

\* C09, first sentence, clause by clause ("accepts an HTLC only if ...")
AcceptOnlyIf == (Done /\ NoWrap(c) /\ verdict = "ok") =>
  /\ c.out >= c.minH /\ (c.maxH # 0 => c.out <= c.maxH) /\ c.out <= c.bw
  /\ c.outExp > c.height + c.rdelta /\ c.outExp <= c.height + c.maxCltv
  /\ kind = "fwd" =>
       /\ c.out <= c.in
       /\ c.in - c.out >= OutFee(c) + InFee(c)
       /\ c.inExp - c.outExp >= c.delta /\ c.inExp - c.outExp <= c.maxCltv

\* "loses no money": what comes in covers what goes out plus the advertised outbound fee
\* whenever no discount is configured
NoLoss == (Done /\ NoWrap(c) /\ verdict = "ok" /\ kind = "fwd") =>
  /\ c.in >= c.out
  /\ (c.ibase >= 0 /\ c.irate >= 0) => c.in - c.out >= OutFee(c)

\* the two fee operators are the integers the division-free characterisation demands
FeeOperatorsExact == pc # "pick" =>
  /\ IsOutFee(OutFee(c), c.out, c.base, c.rate)
  /\ IsInFee(InFee(c), c.out + OutFee(c), c.ibase, c.irate)
=============================================================================
