------------------------- MODULE ForwardPolicyAuxGen -------------------------
(* Case generator for the traffic-shaper part: the successors of the initial   *)
(* state under AuxLattice, every distinct one written as one NDJSON line       *)
(* (breadth-first search, one worker).                                         *)
EXTENDS ForwardPolicyAuxMC, CSV, Sequences

GNext == pc = "pick" /\ AuxLattice(PickFwd)
GSpec == AInit /\ [][GNext]_avars

Line == "{\"in\":%1$s,\"out\":%2$s,\"inExp\":%3$s,\"outExp\":%4$s,\"height\":%5$s,\"base\":%6$s,\"rate\":%7$s," \o
        "\"minH\":%8$s,\"maxH\":%9$s,\"delta\":%10$s,\"rdelta\":%11$s,\"maxCltv\":%12$s,\"ibase\":%13$s,\"irate\":%14$s,\"bw\":%15$s," \o
        "\"shaper\":%16$s,\"rec\":%17$s,\"handles\":%18$s,\"abw\":%19$s}"
Dump == pc # "pick" =>
          CSVWrite(Line, <<c.in, c.out, c.inExp, c.outExp, c.height, c.base, c.rate, c.minH, c.maxH, c.delta,
                           c.rdelta, c.maxCltv, c.ibase, c.irate, c.bw, aux.shaper, aux.rec, aux.handles, aux.abw>>,
                   "cases_aux.ndjson")
=============================================================================
