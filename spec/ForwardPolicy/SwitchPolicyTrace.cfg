SPECIFICATION TSpec
CONSTANTS
  Chans = {"c1", "c2", "c3", "c4"}
  Pending = {"c4"}
  Carol = {"c1", "c2", "c4"}
  SmallBw = {"c2"}
  PolNames = {"PA"}
  Heights = {100}
  HtlcNames = {"H1"}
INVARIANTS EnvAsModel HeightIsCurrent RegAsModel LinkEnforcesAdvertised Decided HandedOnlyIfAdvertisedAccepts FailedOnlyIfNoLinkAccepts FailureNamesViolatedRule UnknownNextPeerOnlyIf DecisionAsAdvertised
CHECK_DEADLOCK TRUE
