SPECIFICATION TSpec
CONSTANTS
  Chans = {"c1", "c2", "c3", "c4"}
  Pending = {"c4"}
  Carol = {"c1", "c2", "c4"}
  SmallBw = {"c2"}
  PolNames = {"PA"}
  Heights = {100}
  HtlcNames = {"H1"}
  InFeeNames = {"F0"}
  InHtlcNames = {"I1"}
  MaxPkgs = 8
INVARIANTS EnvAsModel PackagesAsModel InLinkHoldsAdvertisedFee DecidedWhenModelDecides HandedOnlyIfAdvertisedAccepts FailedOnlyIfNoLinkAccepts FailureNamesViolatedRule UnknownNextPeerOnlyIf DecisionAsAdvertised PacketCarriesAdvertisedFee
CHECK_DEADLOCK TRUE
