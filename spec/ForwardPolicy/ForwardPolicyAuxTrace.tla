------------------------ MODULE ForwardPolicyAuxTrace ------------------------
(* Trace validation of the traffic-shaper part (TLC).  Every line is one case  *)
(* executed on a real channelLink whose cfg.AuxTrafficShaper is absent or an   *)
(* executor-side shaper that gives the recorded answers (IsCustomHTLC by the   *)
(* records, ShouldHandleTraffic = handles, PaymentBandwidth = abw) and whose   *)
(* custom records are the recorded kind: the inputs (bw = what the real        *)
(* channel reported), the verdicts of CheckHtlcForward (v) and                 *)
(* CheckHtlcTransit (vt), and what the shaper was really asked (asked: a       *)
(* string of the calls "c" IsCustomHTLC, "h" ShouldHandleTraffic, "p"          *)
(* PaymentBandwidth - informational, not judged).  As in ForwardPolicyTrace    *)
(* the decision has no memory: every line is one successor of the initial      *)
(* state.  The judgement: the verdicts agree with the rules of the property    *)
(* with the two named deviations of ForwardPolicyAux, in exact arithmetic.     *)
EXTENDS ForwardPolicyAux, Json, Sequences
VARIABLE l

Trace == ndJsonDeserialize("trace.ndjson")
Last == Trace[l - 1]

CaseOf(r) == [in |-> r.in, out |-> r.out, inExp |-> r.inExp, outExp |-> r.outExp, height |-> r.height,
              base |-> r.base, rate |-> r.rate, minH |-> r.minH, maxH |-> r.maxH, delta |-> r.delta,
              rdelta |-> r.rdelta, maxCltv |-> r.maxCltv, ibase |-> r.ibase, irate |-> r.irate, bw |-> r.bw]
AuxOf(r) == [shaper |-> r.shaper, rec |-> r.rec, handles |-> r.handles, abw |-> r.abw]

TInit == AInit /\ l = 1
TNext == \/ /\ l = 1 /\ pc = "pick" /\ verdict = "none"
            /\ \E i \in 1..Len(Trace) :
                 /\ l' = i + 1
                 /\ c' = CaseOf(Trace[i]) /\ aux' = AuxOf(Trace[i])
                 /\ kind' = "fwd" /\ pc' = "fee" /\ verdict' = "none"
         \/ (pc = "fee" /\ UNCHANGED <<avars, l>>)
TSpec == TInit /\ [][TNext]_<<avars, l>>

Live == pc = "fee"
WellFormed == Live => Last.a = "AuxCase" /\ aux.rec \in Recs /\ aux.shaper \in {0, 1} /\ aux.handles \in {0, 1}
\* CheckHtlcForward / CheckHtlcTransit agree with the rules of the property (+ the two named deviations)
ForwardAgreesAux == Live => AgreeAux(c, aux, Last.v)
TransitAgreesAux == Live => AgreeTransitAux(c, aux, Last.vt)
\* clause by clause on the recorded accepts
AcceptedOutsideLimitsOnlyIfCustom ==
  (Live /\ (Last.v = "ok" \/ Last.vt = "ok") /\ (c.out < c.minH \/ (c.maxH # 0 /\ c.out > c.maxH)))
     => (aux.shaper = 1 /\ SaysCustom(aux))
AcceptedAboveBandwidthOnlyIfHandled ==
  (Live /\ (Last.v = "ok" \/ Last.vt = "ok")) => IF Handled(aux) THEN c.out <= aux.abw ELSE c.out <= c.bw
=============================================================================
