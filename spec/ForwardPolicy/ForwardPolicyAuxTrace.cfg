SPECIFICATION TSpec
CONSTANTS
  Cases = {}
  W64 = 0
  SplitFee = TRUE
  W32 = 0
INVARIANTS WellFormed ForwardAgreesAux TransitAgreesAux AcceptedOutsideLimitsOnlyIfCustom AcceptedAboveBandwidthOnlyIfHandled
CHECK_DEADLOCK TRUE
