---------------------------- MODULE SwitchPolicy ----------------------------
(***************************************************************************)
(* C09, switch level - the part of the forwarding decision that is taken   *)
(* by htlcswitch.Switch and not by one channelLink:                        *)
(*                                                                         *)
(*   Switch.handlePacketAdd        which of the (parallel) channels to the *)
(*                                 next peer gets the HTLC, or which       *)
(*                                 failure goes back                       *)
(*   Switch.UpdateForwardingPolicies  how a newly advertised policy        *)
(*                                 reaches the links that enforce it       *)
(*   Switch.AddLink / RemoveLink   which links exist (live, pending, none) *)
(*   Switch.htlcForwarder, block-epoch case   which height the decision    *)
(*                                 is taken at                             *)
(*                                                                         *)
(* The per-link check (channelLink.CheckHtlcForward) is NOT re-modelled:   *)
(* it is the judgement of ForwardPolicyRules (Violated / Accept / Agree)   *)
(* applied to the case made of the HTLC, a policy and the link's spendable *)
(* bandwidth - the same operators that judge the link-level part of C09.   *)
(*                                                                         *)
(* State (what the code keeps):                                            *)
(*   adv[c]   the policy ADVERTISED for channel c (graph / gossip).  It is *)
(*            what the property speaks about.  Changed by UpdatePolicies   *)
(*            only, for every channel of the batch whether or not a link   *)
(*            exists (localchans.Manager persists and announces first).    *)
(*   reg[c]   the link registered in the switch for c:                     *)
(*            "none" never registered | "live" in linkIndex/forwardingIndex*)
(*            /interfaceIndex | "pending" in pendingLinkIndex (no short    *)
(*            channel id yet: never a forwarding candidate, never reached  *)
(*            by a policy update) | "gone" removed (RemoveLink)            *)
(*   enf[c]   the policy the live link of c ENFORCES (cfg.FwrdingPolicy).  *)
(*            A link is created by the peer with the advertised policy.    *)
(*   elig[c]  EligibleToForward of the live link (reestablished and not    *)
(*            flushing its outgoing side)                                  *)
(*   bw[c]    spendable bandwidth of the channel (link.Bandwidth())        *)
(*   height   the CURRENT height of the chain = the height of the block    *)
(*            epoch the switch received last (Switch.bestHeight).  The     *)
(*            chain notifier delivers the tip of the best chain: after a   *)
(*            reorganisation onto a branch that is momentarily shorter the *)
(*            epochs carry LOWER heights than before (106, then 103',      *)
(*            104', ...).  "Current height" in the property is this value, *)
(*            never the maximum of the heights seen.                       *)
(*   last,out the last forwarding request (HTLC, requested next hop,       *)
(*            bandwidths seen) and its outcome                             *)
(*                                                                         *)
(* Actions, one per critical section of the switch:                        *)
(*   UpdatePolicies(S, q)  UpdateForwardingPolicies for ANY non-empty      *)
(*            subset S of channels (indexMtx read section): every live     *)
(*            link of S takes q; channels without a live link are skipped  *)
(*            and do not disturb the others.                               *)
(*   Add(c), Remove(c)     AddLink / RemoveLink (indexMtx write sections)  *)
(*   Flush(c), Unflush(c)  the link stops / resumes being eligible         *)
(*            (DisableAdds/EnableAdds(Outgoing): shutdown, quiescence)     *)
(*   Epoch(n)  the forwarder takes a block epoch of height n off its epoch *)
(*            stream: ANY height of the palette, in any order - higher,    *)
(*            equal (re-delivered tip) or lower (reorg) than the last one  *)
(*   Forward(h, r)  handlePacketAdd for HTLC h whose onion names next hop  *)
(*            r = a channel (short channel id) or a node (blinded route):  *)
(*            candidates = live links to r's peer (non-strict forwarding), *)
(*            each candidate answers (ineligible, or its check with the    *)
(*            policy it enforces), the HTLC is handed to ANY candidate     *)
(*            that accepted (the code picks at random); if none accepted   *)
(*            the failure of the REQUESTED channel goes back (unknown next *)
(*            peer if it is not eligible, or if the next hop is a node: a  *)
(*            named deviation of the code - no channel was requested, and  *)
(*            a per-channel failure would leak private channels).          *)
(*                                                                         *)
(* The property (invariants below; all of them speak about adv, not enf):  *)
(*   PolicyPropagated               every live link enforces the policy    *)
(*                                  advertised for its channel             *)
(*   HandedOnlyIfAdvertisedAccepts  an HTLC is handed to link L only if L  *)
(*                                  is a live, eligible link to the next   *)
(*                                  peer and the check against the policy  *)
(*                                  advertised for L's channel accepts it  *)
(*   FailedOnlyIfNoLinkAccepts      it is failed only if no such link      *)
(*                                  exists (non-strict forwarding)         *)
(*   FailureNamesViolatedRule       the failure names a rule that the HTLC *)
(*                                  violates on the REQUESTED channel      *)
(*   UnknownNextPeerOnlyIf          unknown_next_peer only for the cases   *)
(*                                  named above                            *)
(* Every clause judges the expiry rules ("neither too close to nor too far *)
(* beyond the current height") against `height` as it was when the forward *)
(* was decided (last.height): the height of the last epoch, also when that *)
(* is lower than an earlier one.  SwitchPolicyTrace adds HeightIsCurrent:  *)
(* the real switch's BestHeight() is the model's height after every step.  *)
(* The model is checked by TLC (SwitchPolicyMC), drives the real Switch    *)
(* with real channelLinks (SwitchPolicyGen -> harness/htlcswitch/          *)
(* c09_switch_test.go) and validates what the real code did                *)
(* (SwitchPolicyTrace).                                                    *)
(***************************************************************************)
EXTENDS ForwardPolicyRules

CONSTANTS
  Chans,      \* this node's channels, e.g. {"c1", "c2", "c3", "c4"}
  Pending,    \* channels whose link is a pending link when registered (no short channel id)
  Carol,      \* channels to peer "carol" (parallel channels); the others go to peer "alice"
  SmallBw,    \* channels funded with little spendable bandwidth
  PolNames,   \* names of the policies that may be advertised (palette below)
  HtlcNames,  \* names of the HTLC shapes that may arrive (palette below)
  Heights     \* the heights a block epoch may carry (any order: also decreasing = reorg)

VARIABLES adv, reg, enf, elig, bw, height, last, out
vars == <<adv, reg, enf, elig, bw, height, last, out>>

(* ----- environment constants of the fixture ------------------------------ *)
Height0 == 100       \* the height the switch starts at (Switch.New(cfg, currentHeight))
RDelta  == 3         \* OutgoingCltvRejectDelta of every link
MaxCltv == 2016      \* MaxOutgoingCltvExpiry of every link
PeerOf(c) == IF c \in Carol THEN "carol" ELSE "alice"
Peers == {PeerOf(c) : c \in Chans}
Bw0(c) == IF c \in SmallBw THEN 3000 ELSE 1000000

(* ----- palettes: every value sits on or next to a threshold of another --- *)
Pol(b, r, mn, mx, d) == [base |-> b, rate |-> r, minH |-> mn, maxH |-> mx, delta |-> d]
PolicyOf(nm) ==
  CASE nm = "PA" -> Pol(10, 0, 0, 0, 6)          \* cheap
    [] nm = "PB" -> Pol(20, 0, 0, 0, 6)          \* dearer base fee
    [] nm = "PC" -> Pol(10, 2500, 0, 0, 6)       \* proportional fee
    [] nm = "PD" -> Pol(10, 0, 1500, 0, 6)       \* min_htlc
    [] nm = "PE" -> Pol(10, 0, 0, 1200, 6)       \* max_htlc
    [] nm = "PF" -> Pol(10, 0, 0, 0, 10)         \* larger time_lock_delta
Policies == {PolicyOf(nm) : nm \in PolNames}
P0 == PolicyOf("PA")                             \* what every channel advertises initially

Htlc(i, o, ie, oe, ib, ir) == [in |-> i, out |-> o, inExp |-> ie, outExp |-> oe, ibase |-> ib, irate |-> ir]
HtlcOf(nm) ==
  CASE nm = "H1"  -> Htlc(1010, 1000, 146, 140, 0, 0)      \* exactly PA's fee and delta
    [] nm = "H2"  -> Htlc(1020, 1000, 150, 140, 0, 0)      \* exactly PB's fee and PF's delta
    [] nm = "H3"  -> Htlc(2015, 2000, 150, 140, 0, 0)      \* exactly PC's fee; above PE's max; most of a small channel
    [] nm = "H4"  -> Htlc(1009, 1000, 150, 140, 0, 0)      \* one msat short of every fee
    [] nm = "H5"  -> Htlc(1020, 1000, 150, 103, 0, 0)      \* outgoing expiry = height + reject delta: too soon
    [] nm = "H6"  -> Htlc(1020, 1000, 2130, 2117, 0, 0)    \* outgoing expiry = height + max + 1: too far
    [] nm = "H7"  -> Htlc(1005, 1000, 150, 140, -5, 0)     \* inbound discount: exactly PA's fee, short of PB's
    [] nm = "H8"  -> Htlc(1019, 1000, 149, 140, 0, 0)      \* one short of PB's fee and of PF's delta
    [] nm = "H9"  -> Htlc(1520, 1500, 150, 140, 0, 0)      \* exactly PD's min; above PE's max
    [] nm = "H10" -> Htlc(1220, 1200, 150, 140, 0, 0)      \* exactly PE's max; below PD's min
    [] nm = "H11" -> Htlc(1021, 1000, 150, 140, 0, 1000)   \* inbound rate: exactly PB's fee + 1
    \* expiries on the thresholds of OTHER heights (too soon at 104 only; too far at 98 and 100, fine from 101 on ...)
    [] nm = "H12" -> Htlc(1020, 1000, 150, 107, 0, 0)      \* outgoing expiry = 104 + reject delta
    [] nm = "H13" -> Htlc(1020, 1000, 2130, 2120, 0, 0)    \* outgoing expiry = 104 + max
    [] nm = "H14" -> Htlc(1020, 1000, 150, 102, 0, 0)      \* outgoing expiry = 98 + reject delta + 1
    [] nm = "H15" -> Htlc(1020, 1000, 2125, 2115, 0, 0)    \* outgoing expiry = 98 + max + 1
Htlcs == {HtlcOf(nm) : nm \in HtlcNames}

\* the case the per-link judgement is about: HTLC h over a channel with policy p and bandwidth b at height n
CaseOf(h, p, b, n) ==
  [in |-> h.in, out |-> h.out, inExp |-> h.inExp, outExp |-> h.outExp, height |-> n,
   base |-> p.base, rate |-> p.rate, minH |-> p.minH, maxH |-> p.maxH, delta |-> p.delta,
   rdelta |-> RDelta, maxCltv |-> MaxCltv, ibase |-> h.ibase, irate |-> h.irate, bw |-> b]

(* ----- next hops, outcomes ------------------------------------------------ *)
\* a pending link has the all-zero short channel id, which no onion can name
Reqs == [t : {"chan"}, x : Chans \ Pending] \cup [t : {"node"}, x : Peers]
ReqPeer(r) == IF r.t = "chan" THEN PeerOf(r.x) ELSE r.x

Failures == {"FeeInsufficient", "AmountBelowMinimum", "HtlcExceedsMax", "InsufficientBalance",
             "ExpiryTooSoon", "ExpiryTooFar", "IncorrectCltvExpiry"}
UNP == "FailUnknownNextPeer"
NoOut == [t |-> "none", to |-> "-", v |-> "-"]
FwdTo(c) == [t |-> "fwd", to |-> c, v |-> "ok"]
FailWith(v) == [t |-> "fail", to |-> "-", v |-> v]
Outcomes == {FwdTo(c) : c \in Chans} \cup {FailWith(v) : v \in Failures \cup {UNP}}
NoLast == [h |-> Htlc(0, 0, 0, 0, 0, 0), req |-> [t |-> "node", x |-> "carol"], bw |-> [c \in Chans |-> 0],
           height |-> Height0]

(* ----- the switch's decision, for the policies pol the links go by -------- *)
Live(c) == reg[c] = "live"
\* getLinkByMapping finds the requested channel only in the forwarding index
Known(r) == r.t = "node" \/ Live(r.x)
\* getLinks(peer): interfaceIndex holds the live links
Cands(r) == {c \in Chans : Live(c) /\ PeerOf(c) = ReqPeer(r)}
\* one candidate's answer
LinkAccepts(pol, c, h, b, n) == elig[c] /\ Accept(CaseOf(h, pol[c], b[c], n))
Dests(pol, r, h, b, n) == {c \in Cands(r) : LinkAccepts(pol, c, h, b, n)}

\* the outcomes handlePacketAdd may produce at height n (atomic.LoadUint32(&s.bestHeight))
AllowedSet(pol, r, h, b, n) ==
  IF ~Known(r) \/ Cands(r) = {} THEN {FailWith(UNP)}
  ELSE LET D == Dests(pol, r, h, b, n) IN
       IF D # {} THEN {FwdTo(d) : d \in D}
       ELSE IF r.t = "node" \/ ~elig[r.x] THEN {FailWith(UNP)}
       ELSE LET viol == Violated(CaseOf(h, pol[r.x], b[r.x], n)) IN
            {FailWith(v) : v \in {w \in Failures : AgreesWith(viol, w)}}
Allowed(pol, r, h, b, n, o) == o \in AllowedSet(pol, r, h, b, n)

(* ----- actions ------------------------------------------------------------ *)
Init ==
  /\ adv = [c \in Chans |-> P0]
  /\ reg \in {f \in [Chans -> {"none", "pending", "live"}] :
                \A c \in Chans : (f[c] = "pending" => c \in Pending) /\ (f[c] = "live" => c \notin Pending)}
  /\ enf = adv
  /\ elig = [c \in Chans |-> reg[c] = "live"]
  /\ bw = [c \in Chans |-> Bw0(c)]
  /\ height = Height0
  /\ last = NoLast /\ out = NoOut

\* Switch.UpdateForwardingPolicies(map S -> q), after the graph has been updated
UpdatePolicies(S, q) ==
  /\ adv' = [c \in Chans |-> IF c \in S THEN q ELSE adv[c]]
  /\ enf' = [c \in Chans |-> IF c \in S /\ Live(c) THEN q ELSE enf[c]]
  /\ out' = NoOut
  /\ UNCHANGED <<reg, elig, bw, height, last>>

\* the peer creates the link from the advertised policy; Switch.AddLink registers it
Add(c) ==
  /\ reg[c] = "none"
  /\ reg' = [reg EXCEPT ![c] = IF c \in Pending THEN "pending" ELSE "live"]
  /\ enf' = [enf EXCEPT ![c] = adv[c]]
  /\ elig' = [elig EXCEPT ![c] = c \notin Pending]
  /\ out' = NoOut
  /\ UNCHANGED <<adv, bw, height, last>>

\* Switch.RemoveLink
Remove(c) ==
  /\ reg[c] \in {"pending", "live"}
  /\ reg' = [reg EXCEPT ![c] = "gone"]
  /\ elig' = [elig EXCEPT ![c] = FALSE]
  /\ out' = NoOut
  /\ UNCHANGED <<adv, enf, bw, height, last>>

Flush(c)   == Live(c) /\ elig[c]  /\ elig' = [elig EXCEPT ![c] = FALSE] /\ out' = NoOut /\ UNCHANGED <<adv, reg, enf, bw, height, last>>
Unflush(c) == Live(c) /\ ~elig[c] /\ elig' = [elig EXCEPT ![c] = TRUE]  /\ out' = NoOut /\ UNCHANGED <<adv, reg, enf, bw, height, last>>

\* Switch.htlcForwarder, case blockEpoch := <-s.blockEpochStream.Epochs: the height of the epoch IS the current
\* height from now on, whatever was seen before
Epoch(n) ==
  /\ height' = n
  /\ out' = NoOut
  /\ UNCHANGED <<adv, reg, enf, elig, bw, last>>

\* the bookkeeping of a forward with outcome o, bandwidths b seen before it: a handed-over HTLC
\* takes its amount out of the channel's spendable bandwidth
ForwardWith(h, r, b, o) ==
  /\ out' = o
  /\ last' = [h |-> h, req |-> r, bw |-> b, height |-> height]
  /\ bw' = IF o.t = "fwd" /\ o.to \in Chans THEN [b EXCEPT ![o.to] = @ - h.out] ELSE b
  /\ UNCHANGED <<adv, reg, enf, elig, height>>

\* Switch.handlePacketAdd: the links answer with the policies they ENFORCE, at the current height
Forward(h, r) == \E o \in AllowedSet(enf, r, h, bw, height) : ForwardWith(h, r, bw, o)

EnvNext == \/ \E S \in (SUBSET Chans) \ {{}}, q \in Policies : UpdatePolicies(S, q)
           \/ \E c \in Chans : Add(c) \/ Remove(c) \/ Flush(c) \/ Unflush(c)
           \/ \E n \in Heights : Epoch(n)
FwdNext == \E h \in Htlcs, r \in Reqs : Forward(h, r)
Next == EnvNext \/ FwdNext
Spec == Init /\ [][Next]_vars

-----------------------------------------------------------------------------
PolicyRec == [base : Int, rate : Int, minH : Int, maxH : Int, delta : Int]
TypeOK ==
  /\ adv \in [Chans -> PolicyRec] /\ enf \in [Chans -> PolicyRec]
  /\ reg \in [Chans -> {"none", "pending", "live", "gone"}]
  /\ elig \in [Chans -> BOOLEAN] /\ bw \in [Chans -> Int]
  /\ height \in Heights \cup {Height0}
  /\ out = NoOut \/ out \in Outcomes
  /\ \A c \in Chans : elig[c] => Live(c)

Handed == out.t = "fwd"
Failed == out.t = "fail"

\* C09, switch level.  "After a policy update every link enforces the advertised policy."
PolicyPropagated == \A c \in Chans : Live(c) => enf[c] = adv[c]

\* "An HTLC is handed to link L only if L's check against the policy currently advertised for L's
\*  channel accepts it" (and L is a usable link to the peer the onion names)
HandedOnlyIfAdvertisedAccepts ==
  Handed => /\ out.to \in Chans
            /\ Live(out.to) /\ elig[out.to] /\ PeerOf(out.to) = ReqPeer(last.req)
            /\ Accept(CaseOf(last.h, adv[out.to], last.bw[out.to], last.height))

\* "... otherwise it is failed": only if no usable link to that peer accepts it (a requested channel
\* without a live link does not tell the switch which peer is meant: unknown_next_peer)
FailedOnlyIfNoLinkAccepts == (Failed /\ Known(last.req)) => Dests(adv, last.req, last.h, last.bw, last.height) = {}

\* "... with a failure naming a violated rule": violated on the requested channel under its advertised policy
FailureNamesViolatedRule ==
  (Failed /\ out.v # UNP) =>
     /\ last.req.t = "chan" /\ Live(last.req.x) /\ out.v \in Failures
     /\ Agree(CaseOf(last.h, adv[last.req.x], last.bw[last.req.x], last.height), out.v)

\* unknown_next_peer names no rule: allowed only when no channel can be blamed
UnknownNextPeerOnlyIf ==
  (Failed /\ out.v = UNP) => \/ ~Known(last.req) \/ Cands(last.req) = {}
                            \/ last.req.t = "node" \/ ~elig[last.req.x]

\* a decision is taken at the height that is current when it is taken
DecidedAtCurrentHeight == out # NoOut => last.height = height

\* the whole decision once more, against the advertised policies
DecisionAsAdvertised == out # NoOut => Allowed(adv, last.req, last.h, last.bw, last.height, out)
=============================================================================
