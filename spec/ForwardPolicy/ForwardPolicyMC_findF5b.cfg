SPECIFICATION MCSpec
CONSTANTS
  Cases = {}
  W64 = 0
  SplitFee = TRUE
  W32 = 4096
  BW = 1000
  Bases = {0}
  Rates = {2500}
  IBaseMags = {0}
  IRateMags = {500000}
  Heights = {4093}
INVARIANTS F5bFree
CHECK_DEADLOCK FALSE
