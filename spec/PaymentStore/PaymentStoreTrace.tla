------------------------- MODULE PaymentStoreTrace -------------------------
(* Trace validation: every recorded call of a real store (KVStore or         *)
(* SQLStore - the same module judges both) must be the corresponding         *)
(* PaymentStore action, and what the store answered (error class, returned   *)
(* payment, count, in-flight set) and the state of every payment read back   *)
(* through FetchPayment after the call must equal the model's - including    *)
(* the ROUTE of every attempt as the store hands it back (ConformRoute,      *)
(* ConformRetRoute): the model's stored image is the registered route, and   *)
(* the model decides the admission of every later shard from it, so a store  *)
(* that loses or alters an admission-relevant field is rejected either at    *)
(* the registration (read-back differs) or at the next shard (class differs).*)
(* RecordedRoundTrip states the round trip on recorded values alone.         *)
(* With a quirk constant TRUE the named deviation is allowed and announced   *)
(* by a line  <<"QUIRK", key, line>>  on stdout.                             *)
EXTENDS PaymentStoreObs, Json
VARIABLE l

Trace == ndJsonDeserialize("trace.ndjson")
Last == Trace[l - 1]

TInit == Init /\ l = 1
Is(a) == l <= Len(Trace) /\ Trace[l].a = a /\ l' = l + 1
E == Trace[l]
Quirk(key) == PrintT(<<"QUIRK", key, l>>)

Reset == /\ Is("Reset")
         /\ payments' = [h \in Hashes |-> Absent]
         /\ last' = NoLast

DupShape(h, id) == IF payments[h].att[id].st = "none" THEN "other-payment" ELSE "same-" \o payments[h].att[id].st

\* With a deviation constant TRUE two steps are possible where the deviation
\* applies; the recorded answer says which of them the code took.
TookOverwrite == KVDupQuirk /\ RegisterCls(E.h, E.id, Desc(E)) = "dupid" /\ E.cls = "ok"
TookForeign   == F2Quirk /\ IsForeign(E.h, E.id) /\ E.cls # "noattempt"

TNext == \/ Is("Init") /\ InitPayment(E.h)
         \/ Is("Register") /\ ~TookOverwrite /\ Register(E.h, E.id, Desc(E))
         \/ Is("Register") /\ TookOverwrite /\ RegisterOverwrite(E.h, E.id, Desc(E))
                           /\ Quirk("kv-duplicate-attempt-id-accepted:Register:" \o DupShape(E.h, E.id))
         \/ Is("Settle") /\ ~TookForeign /\ Settle(E.h, E.id)
         \/ Is("Settle") /\ TookForeign /\ ForeignSettle(E.h, E.id)
                         /\ Quirk("F2:sql-attempt-under-foreign-payment:Settle")
         \/ Is("FailAttempt") /\ ~TookForeign /\ FailAttempt(E.h, E.id)
         \/ Is("FailAttempt") /\ TookForeign /\ ForeignFailAttempt(E.h, E.id)
                              /\ Quirk("F2:sql-attempt-under-foreign-payment:FailAttempt")
         \/ Is("Fail") /\ Fail(E.h, E.rs)
         \/ Is("DeleteFailedAttempts") /\ DeleteFailedAttempts(E.h)
         \/ Is("DeletePayment") /\ DeletePayment(E.h, E.fo = 1)
         \/ Is("DeletePayments") /\ DeletePayments(E.fo = 1, E.fa = 1)
         \/ Is("Fetch") /\ Fetch(E.h)
         \/ Is("FetchInFlight") /\ FetchInFlight
         \/ Reset
         \/ (l = Len(Trace) + 1 /\ UNCHANGED <<vars, l>>)
TSpec == TInit /\ [][TNext]_<<vars, l>>

-----------------------------------------------------------------------------
Live == l > 1 /\ Last.a # "Reset"

\* the error class of the call
ConformCls   == Live => Last.cls = last.cls
\* every payment, read back after the call
ConformState == (l > 1) => \A h \in Hashes : ProjOk(Last.s[h], payments[h])
                                             /\ Last.s[h].cls = (IF payments[h].ex THEN "ok" ELSE "notfound")
\* the payment returned by Register / Settle / FailAttempt / Fail / Fetch
ConformRet   == (Live /\ Last.a \in Returning) =>
                   IF last.cls = "ok" THEN ProjOk(Last.ret, payments[Last.h]) ELSE Last.ret.ex = 0
\* the routes: of every attempt of every payment read back after the call, and
\* of the payment returned by the call
ConformRoute    == (l > 1) => \A h \in Hashes : RouteOk(Last.s[h], payments[h])
ConformRetRoute == (Live /\ Last.a \in Returning /\ last.cls = "ok") => RouteOk(Last.ret, payments[Last.h])
\* on recorded values alone: an admitted attempt reads back as it was registered
RecordedRoundTrip == (Live /\ Last.a = "Register" /\ Last.cls = "ok") =>
                        /\ Last.s[Last.h].rt[Last.id] = Last.rt
                        /\ Last.ret.rt[Last.id] = Last.rt
\* DeletePayments' count, FetchInFlightPayments' set
ConformCount == (Live /\ Last.a = "DeletePayments") => Last.n = last.n
ConformInFl  == (Live /\ Last.a = "FetchInFlight") =>
                   {Last.inf[i] : i \in 1..Len(Last.inf)} = NonTerminal /\ Len(Last.inf) = Cardinality(NonTerminal)
\* the action properties of PaymentStore on every recorded step (Reset only separates traces)
Step(A) == (l <= Len(Trace) /\ Trace[l].a # "Reset") => A
TAdmitOnlyWhenOpen  == [][Step(AdmitOnlyWhenOpenA)]_<<vars, l>>
TInitRefused        == [][Step(InitRefusedA)]_<<vars, l>>
TRefusalIsNoOp      == [][Step(RefusalIsNoOpA)]_<<vars, l>>
TSucceededAbsorbing == [][Step(SucceededAbsorbingA)]_<<vars, l>>
TFailedOnlyViaInit  == [][Step(FailedOnlyViaInitA)]_<<vars, l>>
\* the property itself on the recorded answers: never beyond the amount, status truthful
RecordedNoOverpay == (l > 1) => \A h \in Hashes : Last.s[h].ex = 1 => Last.s[h].rem >= 0
=============================================================================
