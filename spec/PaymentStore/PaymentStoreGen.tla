-------------------------- MODULE PaymentStoreGen --------------------------
(* Behaviour generator: PaymentStore + the history of calls, dumped as one   *)
(* NDJSON schedule per simulated behaviour (only the calls and their         *)
(* arguments - the answers are what the executor records from the real code).*)
(* The menu of Register routes per state is a random pair - one that the     *)
(* payment's in-flight shards admit (drawn from the whole universe of route  *)
(* shapes, so second and third shards of every shape are generated) and one  *)
(* arbitrary - to keep the fan-out small; attempt                            *)
(* ids registered under the OTHER payment are offered to Settle/FailAttempt  *)
(* like any other id, so histories of the F2 shape are generated.            *)
EXTENDS PaymentStore, Json
CONSTANTS MaxLen
VARIABLE hist

GenDescs == RouteUniverse
GenReasons == {0, 1}
\* routes that payment p admits now (none: any route)
Fits(p) == {d \in GenDescs : ~Mismatch(p, d) /\ ~ValMismatch(d) /\ Sent(p) + RAmt(d) <= Value}
Fitting(p) == IF Fits(p) = {} THEN GenDescs ELSE Fits(p)

Ev(a, h, id, d, fo, fa, rs) == [a |-> a, h |-> h, id |-> id, shape |-> ShapeName(d), rt |-> d,
                                fo |-> fo, fa |-> fa, rs |-> rs]
NoD == NoRoute
B(x) == IF x THEN 1 ELSE 0
Rec(e) == hist' = Append(hist, e)

GInit == Init /\ hist = <<>>
\* calls on an absent payment are offered only now and then; ids that are
\* registered somewhere (under this or the other payment) are preferred
Alive(h)  == payments[h].ex \/ RandomElement(1..6) = 1
UsedIds   == {i \in Ids : IdInUse(i)}
SomeIds   == UsedIds \cup {RandomElement(Ids)}
OneHash   == {RandomElement(Hashes)}

GNext ==
  /\ Len(hist) < MaxLen
  /\ \/ \E h \in Hashes : InitPayment(h) /\ Rec(Ev("Init", h, 0, NoD, 0, 0, 0))
     \/ \E h \in Hashes, id \in {RandomElement(Ids), RandomElement(Ids)} :
        \E d \in {RandomElement(Fitting(payments[h])), RandomElement(GenDescs)} :
          /\ Alive(h)
          /\ Register(h, id, d) \/ RegisterOverwrite(h, id, d)
          /\ Rec(Ev("Register", h, id, d, 0, 0, 0))
     \* extra weight for the rare shape "one shard settled, another still in flight, register more"
     \/ \E h \in Hashes, id \in Ids : \E d \in {RandomElement(Fitting(payments[h]))} :
          /\ HasSettled(payments[h]) /\ HasInflight(payments[h])
          /\ Register(h, id, d)
          /\ Rec(Ev("Register", h, id, d, 0, 0, 0))
     \/ \E h \in Hashes, id \in SomeIds :
          /\ Alive(h)
          /\ Settle(h, id) \/ ForeignSettle(h, id)
          /\ Rec(Ev("Settle", h, id, NoD, 0, 0, 0))
     \/ \E h \in Hashes, id \in SomeIds :
          /\ Alive(h)
          /\ FailAttempt(h, id) \/ ForeignFailAttempt(h, id)
          /\ Rec(Ev("FailAttempt", h, id, NoD, 0, 0, 0))
     \/ \E h \in Hashes, rs \in {RandomElement(GenReasons)} :
          Alive(h) /\ Fail(h, rs) /\ Rec(Ev("Fail", h, 0, NoD, 0, 0, rs))
     \/ \E h \in OneHash : Alive(h) /\ DeleteFailedAttempts(h) /\ Rec(Ev("DeleteFailedAttempts", h, 0, NoD, 0, 0, 0))
     \/ \E h \in OneHash, fo \in {RandomElement(BOOLEAN)} :
          Alive(h) /\ DeletePayment(h, fo) /\ Rec(Ev("DeletePayment", h, 0, NoD, B(fo), 0, 0))
     \/ \E fo \in {RandomElement(BOOLEAN)}, fa \in {RandomElement(BOOLEAN)} :
          DeletePayments(fo, fa) /\ Rec(Ev("DeletePayments", "", 0, NoD, B(fo), B(fa), 0))
     \/ \E h \in OneHash : Fetch(h) /\ Rec(Ev("Fetch", h, 0, NoD, 0, 0, 0))
     \/ FetchInFlight /\ Rec(Ev("FetchInFlight", "", 0, NoD, 0, 0, 0))
GSpec == GInit /\ [][GNext]_<<vars, hist>>

Dump == (Len(hist) = MaxLen) =>
          ndJsonSerialize("b_" \o ToString(TLCGet("stats").traces) \o ".ndjson", hist)
=============================================================================
