---------------------------- MODULE PaymentStore ----------------------------
(***************************************************************************)
(* The outgoing-payment store of lnd (payments/db): the paymentsdb.DB       *)
(* interface as BOTH backends implement it - KVStore (kv_store.go, one      *)
(* kvdb transaction per call) and SQLStore (sql_store.go, one SQL           *)
(* transaction per call).  One action per interface call = one durable      *)
(* transaction; every action answers with an error CLASS (`last.cls`).      *)
(*                                                                          *)
(* A payment is  [ex, fr, att]: exists, failure reason (-1 = none), and the *)
(* attempts by attempt id.  An attempt is [st, img, reg]:                   *)
(*   st   in none | inflight | settled | failed                             *)
(*   img  the STORED IMAGE of the attempt's route: what the backend keeps   *)
(*        (KV: serializeHTLCAttemptInfo/serializeHop; SQL: InsertHtlcAttempt*)
(*        + insertRouteHops) and hands back through fetchPayment /          *)
(*        dbDataToRoute.  EVERYTHING the store decides later (verifyAttempt,*)
(*        SentAmt, RemainingAmt) is computed from img, as in the code, which*)
(*        re-reads the payment inside the transaction of every call.        *)
(*   reg  ghost: the route that was handed to RegisterAttempt.              *)
(* A route is [ta, ttl, fha, fcr, src, hops]: total amount (receiver amount *)
(* + fees), total time lock, first-hop amount (0 = unset), first-hop wire   *)
(* custom records (0 = none), source key, and 1..3 hops.  A hop is          *)
(* [pk, ch, tl, amt, ma, mt, amp, enc, bp, tot, cr, md]: node key, channel, *)
(* outgoing time lock, amount to forward, MPP record (ma = payment address, *)
(* 0 = no record; mt = total), AMP record (0 = none), encrypted data of a   *)
(* blinded hop (0 = none), blinding point (0 = none; set on the introduction*)
(* node), blinded-path total amount, custom records (0 = none), metadata    *)
(* (0 = none).  Amounts are in abstract units (Value = payment amount);     *)
(* keys, blobs and records are small ids of fixed concrete values.          *)
(* The receiver amount, "blinded", the MPP record and the blinded total are *)
(* read off the FINAL hop exactly as route.Route / verifyAttempt do, so a   *)
(* hop that is both introduction node and final hop (blinded path of length *)
(* one), separate introduction nodes, MPP+AMP, custom records and metadata  *)
(* are all the same kind of object: a route shape (see the constructors).   *)
(* The documented store is the identity: Store(d) = d (constant Lossy = {}).*)
(* A lossy store (Lossy = hop fields that do not survive the round trip) is *)
(* only used to show that RoundTrip / AdmitByRegistered bite.               *)
(* Status, Registrable, verifyAttempt are transcribed from                  *)
(* payment_status.go / payment.go; they are shared by both backends.        *)
(* Properties of the round trip (end of the module): RoundTrip (img = reg   *)
(* for every attempt after every call) and AdmitByRegistered (a Register is *)
(* answered "mismatch" iff the route mismatches the REGISTERED routes of the*)
(* in-flight attempts); the trace specification adds ConformRoute /         *)
(* ConformRetRoute / RecordedRoundTrip on what the real stores hand back.   *)
(*                                                                          *)
(* Deliberate deviations of the code are NAMED actions, switched by a       *)
(* constant so that the strict specification (both FALSE) is what the       *)
(* property demands; with a constant TRUE the deviating step is possible IN *)
(* ADDITION to the strict one (the unchanged tree takes it every time):     *)
(*   F2Quirk     SQLStore.SettleAttempt/FailAttempt resolve an attempt      *)
(*               that is registered under ANOTHER payment (ForeignResolve)  *)
(*   KVDupQuirk  KVStore.RegisterAttempt accepts an attempt id that is      *)
(*               already in use and overwrites the record, keeping its      *)
(*               resolution (RegisterOverwrite)                             *)
(* `Fail` is unconditional in both backends (the interface comment asks     *)
(* callers to fail only when nothing is in flight; the stores do not check  *)
(* it, the status function copes with it) - modelled as the code does.      *)
(***************************************************************************)
EXTENDS Integers, Sequences, FiniteSets, TLC

CONSTANTS Hashes,      \* payment names, e.g. {"h1","h2"}
          NA,          \* attempt ids are 1..NA
          Value,       \* payment amount, in units
          Descs,       \* attempt descriptors offered to Register (MC / Gen)
          Reasons,     \* failure reasons offered to Fail (MC / Gen)
          F2Quirk, KVDupQuirk,
          Lossy        \* hop fields the store loses ({} = the documented store)

VARIABLES payments,    \* Hashes -> payment record
          last         \* observation of the last call: [op, h, cls, n, id, rt]
                       \* (id, rt: the arguments of a Register, else 0 / NoRoute)

vars == <<payments, last>>

Ids  == 1..NA

-----------------------------------------------------------------------------
(* Routes and their shapes *)
H0 == [pk |-> 0, ch |-> 0, tl |-> 0, amt |-> 0, ma |-> 0, mt |-> 0, amp |-> 0,
       enc |-> 0, bp |-> 0, tot |-> 0, cr |-> 0, md |-> 0]
NoRoute == [ta |-> 0, ttl |-> 0, fha |-> 0, fcr |-> 0, src |-> 0, hops |-> <<>>]

NHops(r)   == Len(r.hops)
Final(r)   == r.hops[NHops(r)]                  \* route.Route.FinalHop
RAmt(r)    == IF NHops(r) = 0 THEN 0 ELSE Final(r).amt   \* Route.ReceiverAmt
Blinded(r) == Final(r).enc # 0                  \* len(FinalHop().EncryptedData) != 0
HasMpp(r)  == Final(r).ma # 0                   \* FinalHop().MPP != nil

\* a plain forwarding hop at position i of n
Hp(i, n, amt) == [H0 EXCEPT !.pk = i, !.ch = 10 + i, !.tl = 100 + 10 * (n - i), !.amt = amt]
\* the route over the given hops paying `fee` on top of the receiver amount
Rt(hops, fee) == [ta |-> hops[Len(hops)].amt + fee, ttl |-> 110 + 10 * Len(hops),
                  fha |-> 0, fcr |-> 0, src |-> 9, hops |-> hops]
OnFinal(r, f(_)) == [r EXCEPT !.hops[NHops(r)] = f(@)]

\* n plain hops, no MPP record (single-shot payment)
SingleR(n, amt) == Rt([i \in 1..n |-> Hp(i, n, amt)], 1)
\* MPP shard: the final hop carries the MPP record (payment address, total)
MppR(n, addr, tot, amt) == LET f(hp) == [hp EXCEPT !.ma = addr, !.mt = tot] IN OnFinal(SingleR(n, amt), f)
\* AMP shard: MPP record and AMP record k on the final hop
AmpR(n, addr, tot, amt, k) == LET f(hp) == [hp EXCEPT !.amp = k] IN OnFinal(MppR(n, addr, tot, amt), f)
\* pre plain hops, then a blinded path of len hops: the first blinded hop is
\* the introduction node (blinding point), every blinded hop has encrypted
\* data, all but the final one have zero amount / time lock (pathfind.go
\* newRoute), the final one carries the path's total amount.  len = 1 is the
\* introduction-node-only path: one hop is introduction node AND final hop.
BlindR(pre, len, tot, amt) ==
  LET n == pre + len
      bh(i) == LET j == i - pre IN
               [Hp(i, n, IF i = n THEN amt ELSE 0) EXCEPT
                   !.tl  = IF i = n THEN @ ELSE 0,
                   !.enc = j,
                   !.bp  = IF j = 1 THEN 1 ELSE 0,
                   !.tot = IF i = n THEN tot ELSE 0]
  IN Rt([i \in 1..n |-> IF i <= pre THEN Hp(i, n, amt) ELSE bh(i)], 1)
\* decorations that every backend must keep
WithCr(r, i, k) == [r EXCEPT !.hops[i].cr = k]          \* custom records on hop i
WithMd(r, k)    == [r EXCEPT !.hops[NHops(r)].md = k]   \* metadata for the payee
WithFirstHop(r, a, k) == [r EXCEPT !.fha = a, !.fcr = k] \* first-hop amount / wire records
WithFee(r, fee) == [r EXCEPT !.ta = RAmt(r) + fee]
\* ill-formed: an MPP record in a blinded payment (verifyAttempt refuses it)
BlindMppR(pre, len, tot, amt, addr) == LET f(hp) == [hp EXCEPT !.ma = addr, !.mt = tot] IN OnFinal(BlindR(pre, len, tot, amt), f)

\* ill-formed but stored: an AMP record without an MPP record (counts as a
\* single-shot attempt); an introduction node followed by a final hop that is
\* not blinded (counts as not blinded: "blinded" is read off the final hop)
AmpOnlyR(n, amt, k) == LET f(hp) == [hp EXCEPT !.amp = k] IN OnFinal(SingleR(n, amt), f)
HalfBlindR(tot, amt) == [MppR(2, 1, tot, amt) EXCEPT !.hops[1].enc = 1, !.hops[1].bp = 1]

\* a name for reports
ShapeName(r) ==
  IF NHops(r) = 0 THEN ""
  ELSE IF Blinded(r) THEN (IF HasMpp(r) THEN "blind+mpp"
                           ELSE IF Final(r).bp # 0 THEN "blind-intro-is-final"
                           ELSE "blind")
  ELSE IF Final(r).amp # 0 THEN "amp"
  ELSE IF HasMpp(r) THEN "mpp"
  ELSE "single"

(* The store.  Lossy = {} is the documented store (the identity). *)
Keep(f, v) == IF f \in Lossy THEN 0 ELSE v
StoreHop(hp) == [hp EXCEPT !.ma = Keep("ma", @), !.mt = Keep("mt", @), !.amp = Keep("amp", @),
                           !.enc = Keep("enc", @), !.bp = Keep("bp", @), !.tot = Keep("tot", @),
                           !.cr = Keep("cr", @), !.md = Keep("md", @), !.amt = Keep("amt", @)]
Store(d) == [d EXCEPT !.hops = [i \in 1..NHops(d) |-> StoreHop(d.hops[i])]]

(* The universe of route shapes offered to Register (MC: one payment, every  *)
(* combination; Gen: drawn at random): 1..3 hops; single-shot; MPP shards    *)
(* (also exceeding, other address, other total); AMP shards; blinded paths   *)
(* of length 1..3 behind 0..2 plain hops - length 1 is the hop that is both  *)
(* introduction node and final hop; other / missing blinded total; MPP record*)
(* in a blinded route, AMP without MPP, half-blinded route; custom records,  *)
(* metadata, first-hop data, zero fee.                                       *)
RouteUniverse ==
  LET singles == {SingleR(n, a) : n \in 1..3, a \in 1..Value}
      mpps    == {MppR(n, 1, Value, a) : n \in 1..3, a \in 1..(Value + 1)}
                 \cup {MppR(2, 2, Value, 1), MppR(2, 1, Value + 1, 1)}
      amps    == {AmpR(n, 1, Value, 1, k) : n \in 1..2, k \in 1..2}
      blinds  == {BlindR(pl[1], pl[2], Value, a) : pl \in {<<0,1>>, <<1,1>>, <<2,1>>, <<0,2>>, <<1,2>>, <<0,3>>}, a \in 1..Value}
                 \cup {BlindR(0, 1, Value + 1, 1), BlindR(1, 2, Value + 1, 1), BlindR(0, 1, 0, 1), BlindR(0, 2, 0, 1)}
      ill     == {BlindMppR(0, 1, Value, 1, 1), BlindMppR(1, 2, Value, 1, 1),
                  AmpOnlyR(2, Value, 1), AmpOnlyR(1, 1, 2), HalfBlindR(Value, 1)}
      decor   == {WithCr(MppR(2, 1, Value, 1), 1, 1), WithCr(MppR(2, 1, Value, 1), 2, 2),
                  WithMd(MppR(2, 1, Value, 1), 1), WithMd(SingleR(1, Value), 2),
                  WithCr(BlindR(0, 1, Value, 1), 1, 1), WithCr(BlindR(1, 2, Value, 1), 2, 1),
                  WithFirstHop(MppR(1, 1, Value, 1), 2, 1), WithFirstHop(BlindR(0, 1, Value, 1), 1, 2),
                  WithFee(MppR(3, 1, Value, 1), 0), WithFee(BlindR(1, 1, Value, 1), 2)}
  IN singles \cup mpps \cup amps \cup blinds \cup ill \cup decor

NoAtt  == [st |-> "none", img |-> NoRoute, reg |-> NoRoute]
Att(st, d) == [st |-> st, img |-> Store(d), reg |-> d]
Absent == [ex |-> FALSE, fr |-> -1, att |-> [i \in Ids |-> NoAtt]]
Fresh  == [ex |-> TRUE,  fr |-> -1, att |-> [i \in Ids |-> NoAtt]]

-----------------------------------------------------------------------------
(* Derived payment state: MPPayment.setState / decidePaymentStatus *)
AnyAtt(p, st)  == \E i \in Ids : p.att[i].st = st
HasInflight(p) == AnyAtt(p, "inflight")
HasSettled(p)  == AnyAtt(p, "settled")
HasFailed(p)   == AnyAtt(p, "failed")
NumInflight(p) == Cardinality({i \in Ids : p.att[i].st = "inflight"})

\* SentAmt: settled or still in flight
Sent(p) == LET S[i \in 0..NA] == IF i = 0 THEN 0
                                 ELSE S[i-1] + (IF p.att[i].st \in {"inflight", "settled"}
                                                THEN RAmt(p.att[i].img) ELSE 0)
           IN S[NA]

\* decidePaymentStatus, as the code's switch
Status(p) == IF ~p.ex THEN "none"
             ELSE IF HasInflight(p) THEN "inflight"
             ELSE IF HasSettled(p)  THEN "succeeded"
             ELSE IF p.fr # -1      THEN "failed"
             ELSE IF HasFailed(p)   THEN "inflight"
             ELSE "initiated"

\* MPPaymentState.PaymentFailed: TerminalInfo returns the reason only if nothing settled
PaymentFailed(p) == p.fr # -1 /\ ~HasSettled(p)

\* verifyAttempt: a new route d against the route a of ONE in-flight attempt
Clash(d, a) ==
  IF Blinded(d)
    THEN \/ HasMpp(a)                              \* ErrMPPRecordInBlindedPayment
         \/ ~Blinded(a)                            \* ErrMixedBlindedAndNonBlindedPayments
         \/ Final(d).tot # Final(a).tot            \* ErrBlindedPaymentTotalAmountMismatch
    ELSE \/ Blinded(a)                             \* ErrMixedBlindedAndNonBlindedPayments
         \/ HasMpp(d) # HasMpp(a)                  \* ErrMPPayment / ErrNonMPPayment
         \/ HasMpp(d) /\ (Final(d).ma # Final(a).ma \/ Final(d).mt # Final(a).mt)
\* ... and on its own: a blinded route needs the total and must not have an MPP record
IllFormed(d) == Blinded(d) /\ (Final(d).tot = 0 \/ HasMpp(d))
\* `which` selects what is known about the in-flight attempts: "img" is what
\* the store decides on, "reg" what was registered (ghost, for AdmitByRegistered)
MismatchOn(p, d, which) ==
  \/ IllFormed(d)
  \/ \E i \in Ids : p.att[i].st = "inflight" /\ Clash(d, p.att[i][which])
Mismatch(p, d) == MismatchOn(p, d, "img")
\* a non-MPP, non-blinded attempt must carry the full amount
ValMismatch(d) == ~Blinded(d) /\ ~HasMpp(d) /\ RAmt(d) # Value

IdInUse(id)    == \E g \in Hashes : payments[g].att[id].st # "none"
Foreign(h, id) == {g \in Hashes \ {h} : payments[g].att[id].st # "none"}

AnswerReg(op, h, cls, n, id, d) == last' = [op |-> op, h |-> h, cls |-> cls, n |-> n, id |-> id, rt |-> d]
Answer(op, h, cls, n) == AnswerReg(op, h, cls, n, 0, NoRoute)
Set(h, p) == payments' = [payments EXCEPT ![h] = p]

NoLast == [op |-> "none", h |-> "", cls |-> "ok", n |-> -1, id |-> 0, rt |-> NoRoute]

-----------------------------------------------------------------------------
Init == /\ payments = [h \in Hashes |-> Absent]
        /\ last = NoLast

(* InitPayment: Status.initializable() - only an absent or a Failed payment. *)
(* Re-initiation drops the attempts and the failure reason.                  *)
InitCls(h) == CASE Status(payments[h]) = "initiated" -> "exists"
                [] Status(payments[h]) = "inflight"  -> "inflight"
                [] Status(payments[h]) = "succeeded" -> "paid"
                [] OTHER -> "ok"
InitPayment(h) ==
  /\ Answer("Init", h, InitCls(h), -1)
  /\ IF InitCls(h) = "ok" THEN Set(h, Fresh) ELSE UNCHANGED payments

(* RegisterAttempt: Registrable(), verifyAttempt() against the STORED images *)
(* of the in-flight attempts, then the insert of Store(d).  The attempt id   *)
(* is unique store-wide (SQL: UNIQUE(attempt_index)).                        *)
RegisterCls(h, id, d) ==
  LET p == payments[h] IN
  IF ~p.ex THEN "notfound"
  ELSE IF Status(p) = "succeeded" THEN "succeeded"
  ELSE IF Status(p) = "failed" THEN "failed"
  ELSE IF Status(p) = "inflight" /\ HasSettled(p) THEN "pendsettled"
  ELSE IF Status(p) = "inflight" /\ PaymentFailed(p) THEN "pendfailed"
  ELSE IF Mismatch(p, d) THEN "mismatch"
  ELSE IF ValMismatch(d) THEN "valmismatch"
  ELSE IF Sent(p) + RAmt(d) > Value THEN "exceeds"
  ELSE IF IdInUse(id) THEN "dupid"
  ELSE "ok"

Register(h, id, d) ==
  /\ AnswerReg("Register", h, RegisterCls(h, id, d), -1, id, d)
  /\ IF RegisterCls(h, id, d) = "ok"
       THEN Set(h, [payments[h] EXCEPT !.att[id] = Att("inflight", d)])
       ELSE UNCHANGED payments

(* KVDupQuirk: the KV store has no uniqueness check.  The record under the   *)
(* id is overwritten; settle/fail information stored under the id stays.     *)
RegisterOverwrite(h, id, d) ==
  /\ KVDupQuirk
  /\ RegisterCls(h, id, d) = "dupid"
  /\ AnswerReg("Register", h, "ok", -1, id, d)
  /\ LET old == payments[h].att[id].st IN
     Set(h, [payments[h] EXCEPT !.att[id] = Att(IF old = "none" THEN "inflight" ELSE old, d)])

(* SettleAttempt / FailAttempt: Status.updatable(), the attempt must be      *)
(* registered under THIS payment and unresolved.                             *)
ResolveCls(h, id) ==
  LET p == payments[h] IN
  IF ~p.ex THEN "notfound"
  ELSE IF Status(p) = "succeeded" THEN "succeeded"
  ELSE IF Status(p) = "failed" THEN "failed"
  ELSE IF p.att[id].st = "none" THEN "noattempt"
  ELSE IF p.att[id].st # "inflight" THEN "resolved"
  ELSE "ok"

IsForeign(h, id) == ResolveCls(h, id) = "noattempt" /\ Foreign(h, id) # {}

Resolve(op, res, h, id) ==
  /\ Answer(op, h, ResolveCls(h, id), -1)
  /\ IF ResolveCls(h, id) = "ok"
       THEN Set(h, [payments[h] EXCEPT !.att[id].st = res])
       ELSE UNCHANGED payments

(* F2Quirk: the SQL store checks that payment h is updatable and then        *)
(* inserts the resolution by attempt index alone.                            *)
ForeignResolve(op, res, h, id) ==
  /\ F2Quirk
  /\ IsForeign(h, id)
  /\ LET open == {g \in Foreign(h, id) : payments[g].att[id].st = "inflight"} IN
     IF open # {}
       THEN /\ Answer(op, h, "ok", -1)
            /\ payments' = [g \in Hashes |-> IF g \in open
                                              THEN [payments[g] EXCEPT !.att[id].st = res]
                                              ELSE payments[g]]
       ELSE /\ Answer(op, h, "resolved", -1)
            /\ UNCHANGED payments

Settle(h, id)      == Resolve("Settle", "settled", h, id)
FailAttempt(h, id) == Resolve("FailAttempt", "failed", h, id)
ForeignSettle(h, id)      == ForeignResolve("Settle", "settled", h, id)
ForeignFailAttempt(h, id) == ForeignResolve("FailAttempt", "failed", h, id)

(* Fail: records the reason whenever the payment exists (any status).        *)
Fail(h, rs) ==
  IF payments[h].ex
    THEN Answer("Fail", h, "ok", -1) /\ Set(h, [payments[h] EXCEPT !.fr = rs])
    ELSE Answer("Fail", h, "notfound", -1) /\ UNCHANGED payments

(* DeletePayment / DeleteFailedAttempts: Status.removable()                  *)
WithoutFailed(p) == [p EXCEPT !.att = [i \in Ids |-> IF p.att[i].st = "failed" THEN NoAtt ELSE p.att[i]]]
DeleteCls(h) == IF ~payments[h].ex THEN "notfound"
                ELSE IF Status(payments[h]) = "inflight" THEN "inflight"
                ELSE "ok"
Delete(op, h, failedAttemptsOnly) ==
  /\ Answer(op, h, DeleteCls(h), -1)
  /\ IF DeleteCls(h) = "ok"
       THEN Set(h, IF failedAttemptsOnly THEN WithoutFailed(payments[h]) ELSE Absent)
       ELSE UNCHANGED payments
DeleteFailedAttempts(h) == Delete("DeleteFailedAttempts", h, TRUE)
DeletePayment(h, fo)    == Delete("DeletePayment", h, fo)

(* DeletePayments: every removable payment (only Failed ones if failedOnly); *)
(* answers the number of payments deleted (0 when only attempts are deleted) *)
Selected(h, failedOnly) == /\ payments[h].ex
                           /\ Status(payments[h]) # "inflight"
                           /\ failedOnly => Status(payments[h]) = "failed"
DeletePayments(failedOnly, failedAttemptsOnly) ==
  LET sel == {h \in Hashes : Selected(h, failedOnly)} IN
  /\ Answer("DeletePayments", "", "ok", IF failedAttemptsOnly THEN 0 ELSE Cardinality(sel))
  /\ payments' = [h \in Hashes |-> IF h \in sel
                                     THEN (IF failedAttemptsOnly THEN WithoutFailed(payments[h]) ELSE Absent)
                                     ELSE payments[h]]

(* reads *)
Fetch(h) == /\ Answer("Fetch", h, IF payments[h].ex THEN "ok" ELSE "notfound", -1)
            /\ UNCHANGED payments
NonTerminal == {h \in Hashes : Status(payments[h]) \in {"initiated", "inflight"}}
FetchInFlight == Answer("FetchInFlight", "", "ok", -1) /\ UNCHANGED payments

Next == \/ \E h \in Hashes : InitPayment(h)
        \/ \E h \in Hashes, id \in Ids, d \in Descs : Register(h, id, d) \/ RegisterOverwrite(h, id, d)
        \/ \E h \in Hashes, id \in Ids : \/ Settle(h, id) \/ FailAttempt(h, id)
                                        \/ ForeignSettle(h, id) \/ ForeignFailAttempt(h, id)
        \/ \E h \in Hashes, rs \in Reasons : Fail(h, rs)
        \/ \E h \in Hashes : DeleteFailedAttempts(h) \/ \E fo \in BOOLEAN : DeletePayment(h, fo)
        \/ \E fo \in BOOLEAN, fa \in BOOLEAN : DeletePayments(fo, fa)

Spec == Init /\ [][Next]_vars

-----------------------------------------------------------------------------
(* The property, written from its statement (properties.jsonl C16).          *)

TypeOK == \A h \in Hashes :
            /\ payments[h].ex \in BOOLEAN
            /\ payments[h].fr \in {-1} \cup Reasons \cup 0..255
            /\ ~payments[h].ex => payments[h] = Absent

\* never beyond its amount: settled + in-flight stay within the payment amount
NoOverpay == \A h \in Hashes : payments[h].ex => Sent(payments[h]) <= Value

\* the documented truth table (payment_status.go), row by row, against Status
Table(inflight, settled, htlcFailed, payFailed) ==
  IF inflight THEN "inflight"
  ELSE IF settled THEN "succeeded"
  ELSE IF htlcFailed /\ payFailed THEN "failed"
  ELSE IF htlcFailed THEN "inflight"
  ELSE IF payFailed THEN "failed"
  ELSE "initiated"
StatusTruthful == \A h \in Hashes : LET p == payments[h] IN
  p.ex => /\ Status(p) = Table(HasInflight(p), HasSettled(p), HasFailed(p), p.fr # -1)
          /\ HasSettled(p) => Status(p) # "failed"

\* an attempt id names one attempt store-wide
UniqueIds == \A id \in Ids : Cardinality({h \in Hashes : payments[h].att[id].st # "none"}) <= 1

St(h)  == Status(payments[h])
St2(h) == Status(payments'[h])
Deleted(h) == last'.op \in {"DeletePayment", "DeletePayments"} /\ St2(h) = "none"

\* a new attempt is admitted only while the payment is open, nothing has
\* settled, it has not been failed, and the amounts stay within the value
Admitted(h, id) == payments'[h].att[id].st = "inflight" /\ payments[h].att[id].st # "inflight"
AdmitOnlyWhenOpenA ==
  \A h \in Hashes, id \in Ids : Admitted(h, id) =>
                           /\ St(h) \in {"initiated", "inflight"}
                           /\ ~HasSettled(payments[h])
                           /\ payments[h].fr = -1
                           /\ Sent(payments[h]) + RAmt(payments'[h].att[id].img) <= Value
                           /\ last'.op = "Register" /\ last'.h = h /\ last'.cls = "ok"
AdmitOnlyWhenOpen == [][AdmitOnlyWhenOpenA]_vars

\* never paid twice: no re-initiation of an initiated / in-flight / succeeded payment
InitRefusedA ==
  (last'.op = "Init" /\ St(last'.h) \in {"initiated", "inflight", "succeeded"}) =>
                     /\ last'.cls # "ok"
                     /\ payments' = payments
InitRefused == [][InitRefusedA]_vars

\* a refused call changes nothing
RefusalIsNoOpA ==
  last'.cls # "ok" => payments' = payments
RefusalIsNoOp == [][RefusalIsNoOpA]_vars

\* Succeeded is absorbing (the record can only be deleted)
SucceededAbsorbingA ==
  \A h \in Hashes : St(h) = "succeeded" => (St2(h) = "succeeded" \/ Deleted(h))
SucceededAbsorbing == [][SucceededAbsorbingA]_vars

\* Failed is left only through explicit re-initiation (or deletion of the record)
FailedOnlyViaInitA ==
  \A h \in Hashes : (St(h) = "failed" /\ St2(h) # "failed") =>
                           \/ last'.op = "Init" /\ last'.h = h /\ last'.cls = "ok" /\ St2(h) = "initiated"
                           \/ Deleted(h)
FailedOnlyViaInit == [][FailedOnlyViaInitA]_vars

\* a resolution is final, and a registered attempt's record never changes
AttemptStableA ==
  \A h \in Hashes, id \in Ids :
                      LET a == payments[h].att[id]  b == payments'[h].att[id] IN
                      a.st # "none" =>
                        \/ b = a
                        \/ a.st = "inflight" /\ b = [a EXCEPT !.st = "settled"] /\ last'.op = "Settle"
                        \/ a.st = "inflight" /\ b = [a EXCEPT !.st = "failed"] /\ last'.op = "FailAttempt"
                        \/ a.st = "failed" /\ b = NoAtt /\ last'.op \in {"DeleteFailedAttempts", "DeletePayment", "DeletePayments"}
                        \/ St2(h) = "none" /\ last'.op \in {"DeletePayment", "DeletePayments"}
                        \/ last'.op = "Init" /\ last'.h = h /\ St(h) = "failed"
AttemptStable == [][AttemptStableA]_vars

\* the store round trip: what the store holds (and FetchPayment / the returned
\* MPPayment show) of every attempt is the route that was registered
RoundTripA == \A h \in Hashes, id \in Ids : payments'[h].att[id].img = payments'[h].att[id].reg
RoundTrip == [][RoundTripA]_vars

\* admission of a later shard is decided by what was REGISTERED for the
\* in-flight shards: a shard is refused as mismatching iff it mismatches them
AdmitByRegisteredA ==
  (last'.op = "Register" /\ last'.cls \in {"ok", "mismatch", "valmismatch", "exceeds", "dupid"}) =>
      (last'.cls = "mismatch") = MismatchOn(payments[last'.h], last'.rt, "reg")
AdmitByRegistered == [][AdmitByRegisteredA]_vars

\* an attempt is resolved only through a call that names its own payment
OwnHashOnlyA ==
  \A h \in Hashes, id \in Ids :
                    (payments[h].att[id].st = "inflight" /\ payments'[h].att[id].st \in {"settled", "failed"})
                       => last'.h = h
OwnHashOnly == [][OwnHashOnlyA]_vars
=============================================================================
