---------------------------- MODULE PaymentStore ----------------------------
(***************************************************************************)
(* The outgoing-payment store of lnd (payments/db): the paymentsdb.DB       *)
(* interface as BOTH backends implement it - KVStore (kv_store.go, one      *)
(* kvdb transaction per call) and SQLStore (sql_store.go, one SQL           *)
(* transaction per call).  One action per interface call = one durable      *)
(* transaction; every action answers with an error CLASS (`last.cls`).      *)
(*                                                                          *)
(* A payment is  [ex, fr, att]: exists, failure reason (-1 = none), and the *)
(* attempts by attempt id.  An attempt is [st, kind, addr, tot, amt]:       *)
(*   st   in none | inflight | settled | failed                             *)
(*   kind in single (no MPP record) | mpp (MPP record addr/tot) |           *)
(*           blind  (blinded route, final hop total amount tot)             *)
(*   amt  the receiver amount, in abstract units (Value = payment amount).  *)
(* Status, Registrable, verifyAttempt are transcribed from                  *)
(* payment_status.go / payment.go; they are shared by both backends.        *)
(*                                                                          *)
(* Deliberate deviations of the code are NAMED actions, switched by a       *)
(* constant so that the strict specification (both FALSE) is what the       *)
(* property demands; with a constant TRUE the deviating step is possible IN *)
(* ADDITION to the strict one (the unchanged tree takes it every time):     *)
(*   F2Quirk     SQLStore.SettleAttempt/FailAttempt resolve an attempt      *)
(*               that is registered under ANOTHER payment (ForeignResolve)  *)
(*   KVDupQuirk  KVStore.RegisterAttempt accepts an attempt id that is      *)
(*               already in use and overwrites the record, keeping its      *)
(*               resolution (RegisterOverwrite)                             *)
(* `Fail` is unconditional in both backends (the interface comment asks     *)
(* callers to fail only when nothing is in flight; the stores do not check  *)
(* it, the status function copes with it) - modelled as the code does.      *)
(***************************************************************************)
EXTENDS Integers, Sequences, FiniteSets, TLC

CONSTANTS Hashes,      \* payment names, e.g. {"h1","h2"}
          NA,          \* attempt ids are 1..NA
          Value,       \* payment amount, in units
          Descs,       \* attempt descriptors offered to Register (MC / Gen)
          Reasons,     \* failure reasons offered to Fail (MC / Gen)
          F2Quirk, KVDupQuirk

VARIABLES payments,    \* Hashes -> payment record
          last         \* observation of the last call: [op, h, cls, n]

vars == <<payments, last>>

Ids  == 1..NA
D(kind, addr, tot, amt) == [kind |-> kind, addr |-> addr, tot |-> tot, amt |-> amt]
NoAtt  == [st |-> "none", kind |-> "", addr |-> 0, tot |-> 0, amt |-> 0]
Att(st, d) == [st |-> st, kind |-> d.kind, addr |-> d.addr, tot |-> d.tot, amt |-> d.amt]
Absent == [ex |-> FALSE, fr |-> -1, att |-> [i \in Ids |-> NoAtt]]
Fresh  == [ex |-> TRUE,  fr |-> -1, att |-> [i \in Ids |-> NoAtt]]

-----------------------------------------------------------------------------
(* Derived payment state: MPPayment.setState / decidePaymentStatus *)
AnyAtt(p, st)  == \E i \in Ids : p.att[i].st = st
HasInflight(p) == AnyAtt(p, "inflight")
HasSettled(p)  == AnyAtt(p, "settled")
HasFailed(p)   == AnyAtt(p, "failed")
NumInflight(p) == Cardinality({i \in Ids : p.att[i].st = "inflight"})

\* SentAmt: settled or still in flight
Sent(p) == LET S[i \in 0..NA] == IF i = 0 THEN 0
                                 ELSE S[i-1] + (IF p.att[i].st \in {"inflight", "settled"}
                                                THEN p.att[i].amt ELSE 0)
           IN S[NA]

\* decidePaymentStatus, as the code's switch
Status(p) == IF ~p.ex THEN "none"
             ELSE IF HasInflight(p) THEN "inflight"
             ELSE IF HasSettled(p)  THEN "succeeded"
             ELSE IF p.fr # -1      THEN "failed"
             ELSE IF HasFailed(p)   THEN "inflight"
             ELSE "initiated"

\* MPPaymentState.PaymentFailed: TerminalInfo returns the reason only if nothing settled
PaymentFailed(p) == p.fr # -1 /\ ~HasSettled(p)

\* verifyAttempt's compatibility of a new attempt with ONE in-flight attempt
Compatible(d, a) == /\ d.kind = a.kind
                    /\ d.kind = "mpp"   => (d.addr = a.addr /\ d.tot = a.tot)
                    /\ d.kind = "blind" => d.tot = a.tot
Mismatch(p, d) == \/ d.kind = "blind" /\ d.tot = 0
                  \/ \E i \in Ids : p.att[i].st = "inflight" /\ ~Compatible(d, p.att[i])

IdInUse(id)    == \E g \in Hashes : payments[g].att[id].st # "none"
Foreign(h, id) == {g \in Hashes \ {h} : payments[g].att[id].st # "none"}

Answer(op, h, cls, n) == last' = [op |-> op, h |-> h, cls |-> cls, n |-> n]
Set(h, p) == payments' = [payments EXCEPT ![h] = p]

-----------------------------------------------------------------------------
Init == /\ payments = [h \in Hashes |-> Absent]
        /\ last = [op |-> "none", h |-> "", cls |-> "ok", n |-> -1]

(* InitPayment: Status.initializable() - only an absent or a Failed payment. *)
(* Re-initiation drops the attempts and the failure reason.                  *)
InitCls(h) == CASE Status(payments[h]) = "initiated" -> "exists"
                [] Status(payments[h]) = "inflight"  -> "inflight"
                [] Status(payments[h]) = "succeeded" -> "paid"
                [] OTHER -> "ok"
InitPayment(h) ==
  /\ Answer("Init", h, InitCls(h), -1)
  /\ IF InitCls(h) = "ok" THEN Set(h, Fresh) ELSE UNCHANGED payments

(* RegisterAttempt: Registrable(), verifyAttempt(), then the insert.  The    *)
(* attempt id is unique store-wide (SQL: UNIQUE(attempt_index)).             *)
RegisterCls(h, id, d) ==
  LET p == payments[h] IN
  IF ~p.ex THEN "notfound"
  ELSE IF Status(p) = "succeeded" THEN "succeeded"
  ELSE IF Status(p) = "failed" THEN "failed"
  ELSE IF Status(p) = "inflight" /\ HasSettled(p) THEN "pendsettled"
  ELSE IF Status(p) = "inflight" /\ PaymentFailed(p) THEN "pendfailed"
  ELSE IF Mismatch(p, d) THEN "mismatch"
  ELSE IF d.kind = "single" /\ d.amt # Value THEN "valmismatch"
  ELSE IF Sent(p) + d.amt > Value THEN "exceeds"
  ELSE IF IdInUse(id) THEN "dupid"
  ELSE "ok"

Register(h, id, d) ==
  /\ Answer("Register", h, RegisterCls(h, id, d), -1)
  /\ IF RegisterCls(h, id, d) = "ok"
       THEN Set(h, [payments[h] EXCEPT !.att[id] = Att("inflight", d)])
       ELSE UNCHANGED payments

(* KVDupQuirk: the KV store has no uniqueness check.  The record under the   *)
(* id is overwritten; settle/fail information stored under the id stays.     *)
RegisterOverwrite(h, id, d) ==
  /\ KVDupQuirk
  /\ RegisterCls(h, id, d) = "dupid"
  /\ Answer("Register", h, "ok", -1)
  /\ LET old == payments[h].att[id].st IN
     Set(h, [payments[h] EXCEPT !.att[id] = Att(IF old = "none" THEN "inflight" ELSE old, d)])

(* SettleAttempt / FailAttempt: Status.updatable(), the attempt must be      *)
(* registered under THIS payment and unresolved.                             *)
ResolveCls(h, id) ==
  LET p == payments[h] IN
  IF ~p.ex THEN "notfound"
  ELSE IF Status(p) = "succeeded" THEN "succeeded"
  ELSE IF Status(p) = "failed" THEN "failed"
  ELSE IF p.att[id].st = "none" THEN "noattempt"
  ELSE IF p.att[id].st # "inflight" THEN "resolved"
  ELSE "ok"

IsForeign(h, id) == ResolveCls(h, id) = "noattempt" /\ Foreign(h, id) # {}

Resolve(op, res, h, id) ==
  /\ Answer(op, h, ResolveCls(h, id), -1)
  /\ IF ResolveCls(h, id) = "ok"
       THEN Set(h, [payments[h] EXCEPT !.att[id].st = res])
       ELSE UNCHANGED payments

(* F2Quirk: the SQL store checks that payment h is updatable and then        *)
(* inserts the resolution by attempt index alone.                            *)
ForeignResolve(op, res, h, id) ==
  /\ F2Quirk
  /\ IsForeign(h, id)
  /\ LET open == {g \in Foreign(h, id) : payments[g].att[id].st = "inflight"} IN
     IF open # {}
       THEN /\ Answer(op, h, "ok", -1)
            /\ payments' = [g \in Hashes |-> IF g \in open
                                              THEN [payments[g] EXCEPT !.att[id].st = res]
                                              ELSE payments[g]]
       ELSE /\ Answer(op, h, "resolved", -1)
            /\ UNCHANGED payments

Settle(h, id)      == Resolve("Settle", "settled", h, id)
FailAttempt(h, id) == Resolve("FailAttempt", "failed", h, id)
ForeignSettle(h, id)      == ForeignResolve("Settle", "settled", h, id)
ForeignFailAttempt(h, id) == ForeignResolve("FailAttempt", "failed", h, id)

(* Fail: records the reason whenever the payment exists (any status).        *)
Fail(h, rs) ==
  IF payments[h].ex
    THEN Answer("Fail", h, "ok", -1) /\ Set(h, [payments[h] EXCEPT !.fr = rs])
    ELSE Answer("Fail", h, "notfound", -1) /\ UNCHANGED payments

(* DeletePayment / DeleteFailedAttempts: Status.removable()                  *)
WithoutFailed(p) == [p EXCEPT !.att = [i \in Ids |-> IF p.att[i].st = "failed" THEN NoAtt ELSE p.att[i]]]
DeleteCls(h) == IF ~payments[h].ex THEN "notfound"
                ELSE IF Status(payments[h]) = "inflight" THEN "inflight"
                ELSE "ok"
Delete(op, h, failedAttemptsOnly) ==
  /\ Answer(op, h, DeleteCls(h), -1)
  /\ IF DeleteCls(h) = "ok"
       THEN Set(h, IF failedAttemptsOnly THEN WithoutFailed(payments[h]) ELSE Absent)
       ELSE UNCHANGED payments
DeleteFailedAttempts(h) == Delete("DeleteFailedAttempts", h, TRUE)
DeletePayment(h, fo)    == Delete("DeletePayment", h, fo)

(* DeletePayments: every removable payment (only Failed ones if failedOnly); *)
(* answers the number of payments deleted (0 when only attempts are deleted) *)
Selected(h, failedOnly) == /\ payments[h].ex
                           /\ Status(payments[h]) # "inflight"
                           /\ failedOnly => Status(payments[h]) = "failed"
DeletePayments(failedOnly, failedAttemptsOnly) ==
  LET sel == {h \in Hashes : Selected(h, failedOnly)} IN
  /\ Answer("DeletePayments", "", "ok", IF failedAttemptsOnly THEN 0 ELSE Cardinality(sel))
  /\ payments' = [h \in Hashes |-> IF h \in sel
                                     THEN (IF failedAttemptsOnly THEN WithoutFailed(payments[h]) ELSE Absent)
                                     ELSE payments[h]]

(* reads *)
Fetch(h) == /\ Answer("Fetch", h, IF payments[h].ex THEN "ok" ELSE "notfound", -1)
            /\ UNCHANGED payments
NonTerminal == {h \in Hashes : Status(payments[h]) \in {"initiated", "inflight"}}
FetchInFlight == Answer("FetchInFlight", "", "ok", -1) /\ UNCHANGED payments

Next == \/ \E h \in Hashes : InitPayment(h)
        \/ \E h \in Hashes, id \in Ids, d \in Descs : Register(h, id, d) \/ RegisterOverwrite(h, id, d)
        \/ \E h \in Hashes, id \in Ids : \/ Settle(h, id) \/ FailAttempt(h, id)
                                        \/ ForeignSettle(h, id) \/ ForeignFailAttempt(h, id)
        \/ \E h \in Hashes, rs \in Reasons : Fail(h, rs)
        \/ \E h \in Hashes : DeleteFailedAttempts(h) \/ \E fo \in BOOLEAN : DeletePayment(h, fo)
        \/ \E fo \in BOOLEAN, fa \in BOOLEAN : DeletePayments(fo, fa)

Spec == Init /\ [][Next]_vars

-----------------------------------------------------------------------------
(* The property, written from its statement (properties.jsonl C16).          *)

TypeOK == \A h \in Hashes :
            /\ payments[h].ex \in BOOLEAN
            /\ payments[h].fr \in {-1} \cup Reasons \cup 0..255
            /\ ~payments[h].ex => payments[h] = Absent

\* never beyond its amount: settled + in-flight stay within the payment amount
NoOverpay == \A h \in Hashes : payments[h].ex => Sent(payments[h]) <= Value

\* the documented truth table (payment_status.go), row by row, against Status
Table(inflight, settled, htlcFailed, payFailed) ==
  IF inflight THEN "inflight"
  ELSE IF settled THEN "succeeded"
  ELSE IF htlcFailed /\ payFailed THEN "failed"
  ELSE IF htlcFailed THEN "inflight"
  ELSE IF payFailed THEN "failed"
  ELSE "initiated"
StatusTruthful == \A h \in Hashes : LET p == payments[h] IN
  p.ex => /\ Status(p) = Table(HasInflight(p), HasSettled(p), HasFailed(p), p.fr # -1)
          /\ HasSettled(p) => Status(p) # "failed"

\* an attempt id names one attempt store-wide
UniqueIds == \A id \in Ids : Cardinality({h \in Hashes : payments[h].att[id].st # "none"}) <= 1

St(h)  == Status(payments[h])
St2(h) == Status(payments'[h])
Deleted(h) == last'.op \in {"DeletePayment", "DeletePayments"} /\ St2(h) = "none"

\* a new attempt is admitted only while the payment is open, nothing has
\* settled, it has not been failed, and the amounts stay within the value
Admitted(h, id) == payments'[h].att[id].st = "inflight" /\ payments[h].att[id].st # "inflight"
AdmitOnlyWhenOpenA ==
  \A h \in Hashes, id \in Ids : Admitted(h, id) =>
                           /\ St(h) \in {"initiated", "inflight"}
                           /\ ~HasSettled(payments[h])
                           /\ payments[h].fr = -1
                           /\ Sent(payments[h]) + payments'[h].att[id].amt <= Value
                           /\ last'.op = "Register" /\ last'.h = h /\ last'.cls = "ok"
AdmitOnlyWhenOpen == [][AdmitOnlyWhenOpenA]_vars

\* never paid twice: no re-initiation of an initiated / in-flight / succeeded payment
InitRefusedA ==
  (last'.op = "Init" /\ St(last'.h) \in {"initiated", "inflight", "succeeded"}) =>
                     /\ last'.cls # "ok"
                     /\ payments' = payments
InitRefused == [][InitRefusedA]_vars

\* a refused call changes nothing
RefusalIsNoOpA ==
  last'.cls # "ok" => payments' = payments
RefusalIsNoOp == [][RefusalIsNoOpA]_vars

\* Succeeded is absorbing (the record can only be deleted)
SucceededAbsorbingA ==
  \A h \in Hashes : St(h) = "succeeded" => (St2(h) = "succeeded" \/ Deleted(h))
SucceededAbsorbing == [][SucceededAbsorbingA]_vars

\* Failed is left only through explicit re-initiation (or deletion of the record)
FailedOnlyViaInitA ==
  \A h \in Hashes : (St(h) = "failed" /\ St2(h) # "failed") =>
                           \/ last'.op = "Init" /\ last'.h = h /\ last'.cls = "ok" /\ St2(h) = "initiated"
                           \/ Deleted(h)
FailedOnlyViaInit == [][FailedOnlyViaInitA]_vars

\* a resolution is final, and a registered attempt's record never changes
AttemptStableA ==
  \A h \in Hashes, id \in Ids :
                      LET a == payments[h].att[id]  b == payments'[h].att[id] IN
                      a.st # "none" =>
                        \/ b = a
                        \/ a.st = "inflight" /\ b = [a EXCEPT !.st = "settled"] /\ last'.op = "Settle"
                        \/ a.st = "inflight" /\ b = [a EXCEPT !.st = "failed"] /\ last'.op = "FailAttempt"
                        \/ a.st = "failed" /\ b = NoAtt /\ last'.op \in {"DeleteFailedAttempts", "DeletePayment", "DeletePayments"}
                        \/ St2(h) = "none" /\ last'.op \in {"DeletePayment", "DeletePayments"}
                        \/ last'.op = "Init" /\ last'.h = h /\ St(h) = "failed"
AttemptStable == [][AttemptStableA]_vars

\* an attempt is resolved only through a call that names its own payment
OwnHashOnlyA ==
  \A h \in Hashes, id \in Ids :
                    (payments[h].att[id].st = "inflight" /\ payments'[h].att[id].st \in {"settled", "failed"})
                       => last'.h = h
OwnHashOnly == [][OwnHashOnlyA]_vars
=============================================================================
