SPECIFICATION CSpec
CONSTANTS
  Hashes = {"h1", "h2"}
  NA = 3
  Value = 3
  F2Quirk = FALSE
  KVDupQuirk = FALSE
  Lossy = {}
  Descs = {}
  Reasons = {}
INVARIANTS CNoOverpay
CHECK_DEADLOCK FALSE
