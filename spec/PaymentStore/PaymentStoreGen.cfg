SPECIFICATION GSpec
CONSTANTS
  Hashes = {"h1", "h2"}
  NA = 3
  Value = 3
  MaxLen = 28
  F2Quirk = TRUE
  KVDupQuirk = TRUE
  Lossy = {}
  Descs <- GenDescs
  Reasons <- GenReasons
INVARIANTS Dump
CHECK_DEADLOCK FALSE
