-------------------------- MODULE PaymentStoreConc --------------------------
(* Judge of the concurrent free-running driver.  A run is a Reset line       *)
(* (carrying the number of calls and the quiescent final state of every      *)
(* payment) followed by its calls, each stamped with a global sequence       *)
(* number at its start (t0) and at its end (t1).  A run is accepted iff some *)
(* linearization - a total order of the calls that respects "a ended before  *)
(* b started" - is a behaviour of PaymentStore in which every call gets the  *)
(* recorded answer and the final state is the recorded one.  Accepted runs   *)
(* are announced by  <<"RUN-OK", line>> ; the search only continues behind   *)
(* an accepted run, so the first run without the line is the rejected one.   *)
(* The returned payments and the final state include the route of every      *)
(* attempt (RouteOk): concurrent registrations must also read back as        *)
(* registered, and be admitted / refused from the stored images.             *)
EXTENDS PaymentStoreObs, Json
VARIABLES r,      \* line of the current run's Reset record
          done    \* lines of the current run already linearized

Trace == ndJsonDeserialize("trace.ndjson")
cvars == <<vars, r, done>>

Calls == (r + 1)..(r + Trace[r].ncalls)
\* may be linearized next: no other pending call ended before it started
Cand == {i \in Calls \ done : \A j \in Calls \ done : j # i => ~(Trace[j].t1 < Trace[i].t0)}

Apply(e) ==
  CASE e.a = "Init"        -> InitPayment(e.h)
    [] e.a = "Register"    -> Register(e.h, e.id, Desc(e)) \/ RegisterOverwrite(e.h, e.id, Desc(e))
    [] e.a = "Settle"      -> Settle(e.h, e.id) \/ ForeignSettle(e.h, e.id)
    [] e.a = "FailAttempt" -> FailAttempt(e.h, e.id) \/ ForeignFailAttempt(e.h, e.id)
    [] e.a = "Fail"        -> Fail(e.h, e.rs)
    [] e.a = "DeleteFailedAttempts" -> DeleteFailedAttempts(e.h)
    [] e.a = "DeletePayment"  -> DeletePayment(e.h, e.fo = 1)
    [] e.a = "DeletePayments" -> DeletePayments(e.fo = 1, e.fa = 1)
    [] e.a = "Fetch"          -> Fetch(e.h)
    [] e.a = "FetchInFlight"  -> FetchInFlight

\* the recorded answer of the call is the model's answer at this point
Answered(e) ==
  /\ e.cls = last'.cls
  /\ e.a \in Returning =>
       IF last'.cls = "ok" THEN ProjOk(e.ret, payments'[e.h]) /\ RouteOk(e.ret, payments'[e.h]) ELSE e.ret.ex = 0
  /\ e.a = "DeletePayments" => e.n = last'.n
  /\ e.a = "FetchInFlight" =>
       {e.inf[i] : i \in 1..Len(e.inf)} = NonTerminal /\ Len(e.inf) = Cardinality(NonTerminal)

Linearize(i) == /\ i \in Cand
                /\ Apply(Trace[i])
                /\ Answered(Trace[i])
                /\ done' = done \cup {i}
                /\ r' = r

Finish == /\ r <= Len(Trace)
          /\ done = Calls
          /\ \A h \in Hashes : ProjOk(Trace[r].s[h], payments[h]) /\ RouteOk(Trace[r].s[h], payments[h])
          /\ PrintT(<<"RUN-OK", r>>)
          /\ r' = r + Trace[r].ncalls + 1
          /\ done' = {}
          /\ payments' = [h \in Hashes |-> Absent]
          /\ last' = NoLast

CInit == Init /\ r = 1 /\ done = {}
CNext == \/ r <= Len(Trace) /\ \E i \in Calls : Linearize(i)
         \/ Finish
CSpec == CInit /\ [][CNext]_cvars

\* the safety part of the property on every explored linearization prefix
CNoOverpay == NoOverpay
=============================================================================
