SPECIFICATION MCSpec
CONSTANTS
  Hashes = {"h1", "h2"}
  NA = 3
  Value = 3
  MaxOps = 7
  F2Quirk = FALSE
  KVDupQuirk = FALSE
  Lossy = {}
  Descs <- MCDescs
  Reasons <- MCReasons
VIEW View
INVARIANTS TypeOK NoOverpay StatusTruthful UniqueIds
PROPERTIES AdmitOnlyWhenOpen InitRefused RefusalIsNoOp SucceededAbsorbing FailedOnlyViaInit AttemptStable OwnHashOnly RoundTrip AdmitByRegistered
CHECK_DEADLOCK FALSE
