SPECIFICATION MCSpec
CONSTANTS
  Hashes = {"h1", "h2"}
  NA = 3
  Value = 3
  MaxOps = 7
  F2Quirk = FALSE
  KVDupQuirk = FALSE
  Descs <- MCDescs
  Reasons <- MCReasons
VIEW View
INVARIANTS TypeOK NoOverpay StatusTruthful UniqueIds
PROPERTIES AdmitOnlyWhenOpen InitRefused RefusalIsNoOp SucceededAbsorbing FailedOnlyViaInit AttemptStable OwnHashOnly
CHECK_DEADLOCK FALSE
