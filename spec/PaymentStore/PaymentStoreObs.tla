--------------------------- MODULE PaymentStoreObs ---------------------------
(* What the executor records of a real store, against a model payment:      *)
(* shared by the sequential (PaymentStoreTrace) and the concurrent          *)
(* (PaymentStoreConc) trace specifications.                                 *)
EXTENDS PaymentStore

B(x) == IF x THEN 1 ELSE 0
\* the route handed to RegisterAttempt (the executor builds the real
\* route.Route from exactly these fields)
Desc(e) == e.rt
\* calls that return the payment
Returning == {"Register", "Settle", "FailAttempt", "Fail", "Fetch"}

\* what FetchPayment / a returned *MPPayment must show for model payment p
ProjOk(r, p) ==
  IF ~p.ex THEN r.ex = 0 /\ r.st = "none"
  ELSE /\ r.ex = 1
       /\ r.st = Status(p)
       /\ r.val = Value
       /\ r.fr = p.fr
       /\ \A i \in Ids : r.att[i] = p.att[i].st /\ r.amt[i] = RAmt(p.att[i].img)
       /\ r.extra = 0
       /\ r.rem = Value - Sent(p)
       /\ r.nin = NumInflight(p)
       /\ r.hs = B(HasSettled(p))
       /\ r.pf = B(PaymentFailed(p))

\* ... and the route of every attempt, read back field by field from the
\* returned HTLCAttempt.Route (r.rt[i] = route of attempt id i, NoRoute if
\* there is none): it must be the stored image, i.e. the registered route
RouteOk(r, p) == \A i \in Ids : r.rt[i] = (IF p.ex THEN p.att[i].img ELSE NoRoute)

=============================================================================
