--------------------------- MODULE PaymentStoreObs ---------------------------
(* What the executor records of a real store, against a model payment:      *)
(* shared by the sequential (PaymentStoreTrace) and the concurrent          *)
(* (PaymentStoreConc) trace specifications.                                 *)
EXTENDS PaymentStore

B(x) == IF x THEN 1 ELSE 0
Desc(e) == D(e.kind, e.addr, e.tot, e.amt)
\* calls that return the payment
Returning == {"Register", "Settle", "FailAttempt", "Fail", "Fetch"}

\* what FetchPayment / a returned *MPPayment must show for model payment p
ProjOk(r, p) ==
  IF ~p.ex THEN r.ex = 0 /\ r.st = "none"
  ELSE /\ r.ex = 1
       /\ r.st = Status(p)
       /\ r.val = Value
       /\ r.fr = p.fr
       /\ \A i \in Ids : r.att[i] = p.att[i].st /\ r.amt[i] = p.att[i].amt
       /\ r.extra = 0
       /\ r.rem = Value - Sent(p)
       /\ r.nin = NumInflight(p)
       /\ r.hs = B(HasSettled(p))
       /\ r.pf = B(PaymentFailed(p))

=============================================================================
