SPECIFICATION MCSpec
CONSTANTS
  Hashes = {"h1"}
  NA = 3
  Value = 3
  MaxOps = 1000000
  F2Quirk = FALSE
  KVDupQuirk = FALSE
  Lossy = {}
  Descs <- RouteUniverse
  Reasons <- MCReasons
VIEW ViewFull
INVARIANTS TypeOK NoOverpay StatusTruthful UniqueIds
PROPERTIES AdmitByRegistered
CHECK_DEADLOCK FALSE
