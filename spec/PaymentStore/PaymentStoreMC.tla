--------------------------- MODULE PaymentStoreMC ---------------------------
(* Exhaustive bounded configuration: every sequence of at most MaxOps calls  *)
(* over Hashes x 1..NA attempt ids with the descriptor menu MCDescs.         *)
EXTENDS PaymentStore
CONSTANT MaxOps
VARIABLE nops

\* single-shot (exact / wrong amount), MPP shards (fitting, exceeding, other
\* payment address, other total), blinded shards (fitting, other total, no total)
MCDescs == {D("single", 0, 0, Value), D("single", 0, 0, 1),
            D("mpp", 1, Value, 1), D("mpp", 1, Value, 2), D("mpp", 1, Value, Value),
            D("mpp", 1, Value, Value + 1), D("mpp", 2, Value, 1), D("mpp", 1, Value + 1, 1),
            D("blind", 0, Value, 1), D("blind", 0, Value, Value), D("blind", 0, Value + 1, 1),
            D("blind", 0, 0, 1)}
MCReasons == {0, 1}

MCInit == Init /\ nops = 0
MCNext == nops < MaxOps /\ nops' = nops + 1 /\ Next
MCSpec == MCInit /\ [][MCNext]_<<vars, nops>>

(* Sound quotient: nothing depends on the descriptor of a failed attempt,    *)
(* nor on kind/addr/tot of a settled one; `last` is only read primed by the  *)
(* action properties, which TLC evaluates on every generated transition.     *)
NormAtt(a) == IF a.st = "failed" THEN [NoAtt EXCEPT !.st = "failed"]
              ELSE IF a.st = "settled" THEN [NoAtt EXCEPT !.st = "settled", !.amt = a.amt]
              ELSE a
Norm == [h \in Hashes |-> [payments[h] EXCEPT !.att = [i \in Ids |-> NormAtt(payments[h].att[i])]]]
View == <<Norm, nops>>
\* unbounded: every reachable state of the model, whatever the length of the call sequence
ViewFull == Norm
=============================================================================
