--------------------------- MODULE PaymentStoreMC ---------------------------
(* Exhaustive configurations.                                                *)
(*  - PaymentStoreMCFull.cfg (menu MCDescs): the complete state space of the *)
(*    payment life cycle over Hashes x 1..NA attempt ids, one representative *)
(*    route per admission class (single-shot exact / wrong amount, MPP / AMP *)
(*    shards fitting / exceeding / other address / other total, blinded      *)
(*    shards with a separate introduction node and with the final hop being  *)
(*    the introduction node, other / missing blinded total).                 *)
(*  - PaymentStoreMCRoutes.cfg (menu RouteUniverse): the complete state      *)
(*    space of ONE payment with every route shape of the universe (1..3      *)
(*    hops, every position of the introduction node, custom records,         *)
(*    metadata, first-hop data): every pair / triple of shapes meets as      *)
(*    "stored in flight" x "offered", so RoundTrip and AdmitByRegistered are *)
(*    decided for the whole universe.                                        *)
(*  - PaymentStoreMC.cfg: call sequences of bounded length (deviation runs). *)
EXTENDS PaymentStore
CONSTANT MaxOps
VARIABLE nops

\* twelve admission classes, the representatives spread over the shapes
MCDescs == {SingleR(2, Value), SingleR(1, 1),
            MppR(2, 1, Value, 1), AmpR(3, 1, Value, 2, 1), MppR(1, 1, Value, Value),
            MppR(2, 1, Value, Value + 1), MppR(2, 2, Value, 1), MppR(2, 1, Value + 1, 1),
            BlindR(1, 1, Value, 1), BlindR(0, 2, Value, Value), BlindR(0, 1, Value + 1, 1),
            BlindR(1, 2, 0, 1)}
MCReasons == {0, 1}

MCInit == Init /\ nops = 0
MCNext == nops < MaxOps /\ nops' = nops + 1 /\ Next
MCSpec == MCInit /\ [][MCNext]_<<vars, nops>>

(* Sound quotient: nothing depends on the route of a failed attempt, only on *)
(* the receiver amount of a settled one, and of an in-flight one only on     *)
(* what verifyAttempt / SentAmt read off its final hop; `last` and the rest  *)
(* of the routes are only read primed by the action properties, which TLC    *)
(* evaluates on every generated transition.                                  *)
Core(r) == <<Blinded(r), Final(r).ma, Final(r).mt, Final(r).tot, RAmt(r)>>
NormAtt(a) == IF a.st \in {"none", "failed"} THEN <<a.st>>
              ELSE IF a.st = "settled" THEN <<a.st, RAmt(a.img)>>
              ELSE <<a.st, Core(a.img), Core(a.reg)>>
Norm == [h \in Hashes |-> <<payments[h].ex, payments[h].fr, [i \in Ids |-> NormAtt(payments[h].att[i])]>>]
View == <<Norm, nops>>
\* unbounded: every reachable state of the model, whatever the length of the call sequence
ViewFull == Norm
=============================================================================
