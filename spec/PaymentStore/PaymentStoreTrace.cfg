SPECIFICATION TSpec
CONSTANTS
  Hashes = {"h1", "h2"}
  NA = 3
  Value = 3
  F2Quirk = FALSE
  KVDupQuirk = FALSE
  Lossy = {}
  Descs = {}
  Reasons = {}
INVARIANTS ConformCls ConformState ConformRet ConformCount ConformInFl ConformRoute ConformRetRoute RecordedRoundTrip RecordedNoOverpay NoOverpay StatusTruthful
PROPERTIES TAdmitOnlyWhenOpen TInitRefused TRefusalIsNoOp TSucceededAbsorbing TFailedOnlyViaInit
CHECK_DEADLOCK TRUE
