---- MODULE SwitchForwardGen ----
(* Schedules for the switch-level executor (harness/htlcswitch/c07_switch_test.go): simulated       *)
(* behaviours of SwitchForward, one NDJSON line per action [a, c].  Two restrictions make a schedule *)
(* something the executor can realise on the real, free-running Switch - they restrict the order of *)
(* steps, never what a step does:                                                                   *)
(*  - in an Urgent state (the call in flight moves on by itself) the next step is that move: Route  *)
(*    if the forwarder is free, Abort if the quit channel is closed.  Hence a link is only stopped  *)
(*    while no call is in flight or while its call is blocked in routeAsync behind a busy forwarder *)
(*    (Go's select between a ready forwarder and a closed quit channel is random);                  *)
(*  - exactly one outgoing link is eligible when a packet is routed (the switch picks at random     *)
(*    among the eligible links), so the first step makes one link the eligible one; later it is     *)
(*    changed only where it matters: before a link instance forwards, or while a call is in flight. *)
EXTENDS SwitchForward, TLC, Json
CONSTANT MaxLen
VARIABLE hist

Done == ackd = Ids /\ fwdK = None
GInit == SInit /\ hist = <<>>
\* fin: the model expects no ForwardPackets call in flight after the step (tells the executor how long
\* to wait for the call to return after the last Route - a waiting policy, not a judgement)
Step(a, c, A) == A /\ hist' = Append(hist, [a |-> a, c |-> c, fin |-> IF pc' = "idle" THEN 1 ELSE 0])
GNext ==
  /\ Len(hist) < MaxLen /\ ~Done
  /\ IF Cardinality(elig) # 1 THEN \E c \in OutChans : Step("SetElig", c, SetElig({c}))
     ELSE IF Urgent THEN IF quit THEN Step("Abort", None, Abort) ELSE Step("Route", None, Route)
     ELSE \/ Step("Begin", None, Begin) \/ Step("BeginQuit", None, BeginQuit)
          \/ Step("HandOver", None, HandOver)
          \/ ((fwded \/ Len(hist) % 4 = 0) /\ Step("Stop", None, Stop)) \/ Step("Relink", None, Relink)
          \/ \E c \in OutChans : \/ Step("Take", c, Take(c)) \/ Step("OutCommit", c, OutCommit(c))
                                 \/ Step("OutRestart", c, OutRestart(c))
                                 \/ ((pc = "route" \/ (~fwded /\ ~quit)) /\ Step("SetElig", c, SetElig({c})))
GSpec == GInit /\ [][GNext]_<<svars, hist>>
Dump == (Len(hist) = MaxLen \/ (Done /\ hist # <<>>)) =>
          ndJsonSerialize("b_" \o ToString(TLCGet("stats").traces) \o ".ndjson", hist)
====
