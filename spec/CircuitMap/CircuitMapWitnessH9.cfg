SPECIFICATION WSpec
CONSTANTS
  InChans = {0, 1}
  OutChans = {2}
  Ids = {0, 1}
  Threads = {1, 2}
  MaxBatch = 1
  MaxOps = 4
  MaxCrash = 1
  MaxFail = 1
  Relaxed = {"A3"}
  MaxLen = 1000
  CloseAfter = 0
  CrashEvery = 0
  Thin = FALSE
VIEW GView
INVARIANTS WitnessForward
CHECK_DEADLOCK FALSE
