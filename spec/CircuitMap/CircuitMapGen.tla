--------------------------- MODULE CircuitMapGen ---------------------------
(* Behaviour generator: CircuitMap + the history of the steps taken, dumped  *)
(* as one NDJSON schedule per simulated behaviour.  One line per step of a   *)
(* thread (phase granularity), of the environment, of Crash and of the       *)
(* phases of NewCircuitMap.                                                  *)
EXTENDS CircuitMap, Json
CONSTANTS MaxLen, CloseAfter, CrashEvery,
          Thin   \* thin the argument sets (simulation); FALSE = all arguments (witness search)
VARIABLE hist

B(x) == IF x THEN 1 ELSE 0
Ev(a, t, ins, outs, c, ok) == [a |-> a, t |-> t, ins |-> ins, outs |-> outs, c |-> c, ok |-> B(ok)]
Log(e) == hist' = Append(hist, e)
Ins(ks)  == [j \in DOMAIN ks |-> ks[j][1]]
Outs(ks) == [j \in DOMAIN ks |-> ks[j][2]]

\* TLC's simulator picks uniformly among the successor states, so the argument sets of the calls
\* are thinned (never the set of actions): the first key of a commit batch rotates with the step
\* number, deletes / opens / close / fail mostly aim at circuits that exist, channels close late.
KeySeq == Ascending({k[1] * 100 + k[2] : k \in InKeys})
Pivot  == LET n == KeySeq[(Len(hist) % Len(KeySeq)) + 1] IN <<n \div 100, n % 100>>
PendKeys == {p.in : p \in pending}
Less(a, b) == a[1] < b[1] \/ (a[1] = b[1] /\ a[2] < b[2])
HalfOpen == {p.in : p \in {q \in pending : q.out = None}}
NextKey(k) == LET later == {x \in InKeys : Less(k, x)} IN
              IF later = {} THEN k ELSE CHOOSE x \in later : \A y \in later : x = y \/ Less(x, y)
Sometimes(n) == ~Thin \/ Len(hist) % n = 0
GCommit == IF ~Thin THEN Batches
           ELSE {b \in Batches : b[1] = Pivot /\ (Len(b) >= 2 => b[2] \in {Pivot, NextKey(Pivot)})}
GDelete == IF ~Thin THEN {b \in Batches : Injective(b)}
           ELSE {b \in Batches : /\ Injective(b)
                                 /\ b[1] \in PendKeys \cup {Pivot}
                                 /\ Len(b) >= 2 => (b[2] \in PendKeys /\ Less(b[1], b[2]) /\ Sometimes(2))}
GOpen(c) == IF ~Thin THEN OpenBatches(c)
            ELSE {ks \in OpenBatches(c) : (\A j \in DOMAIN ks : ks[j][1] \in HalfOpen) \/
                                          (Len(ks) = 1 /\ ks[1][1] = Pivot /\ Sometimes(4))}
GDup == IF ~Thin THEN DupBatches ELSE {ks \in DupBatches : ks[1][1] \in HalfOpen /\ Sometimes(3)}
GClose == IF ~Thin THEN OutKeys ELSE {o[1] : o \in opened} \cup (IF Sometimes(5) THEN {<<Min(OutChans), 0>>} ELSE {})
GFail == IF ~Thin THEN InKeys ELSE (PendKeys \ closed) \cup (IF Sometimes(4) THEN {Pivot} ELSE {})
\* crashes are spread over the behaviour, failing start-up transactions are the rarer choice
GCrashOk == Len(hist) >= CrashEvery * (ncrash + 1)
GStartOk(ok) == ok \/ Sometimes(3)

GInit == Init /\ hist = <<>>
GNext ==
  /\ Len(hist) < MaxLen
  /\ \/ \E t \in Threads :
          \/ \E b \in GCommit : CommitMem(t, b) /\ Log(Ev("CommitMem", t, b, <<>>, -1, TRUE))
          \/ \E ok \in BOOLEAN :
                \/ CommitDisk(t, ok) /\ Log(Ev("CommitDisk", t, <<>>, <<>>, -1, ok))
                \/ OpenDisk(t, ok) /\ Log(Ev("OpenDisk", t, <<>>, <<>>, -1, ok))
                \/ TrimDisk(t, ok) /\ Log(Ev("TrimDisk", t, <<>>, <<>>, -1, ok))
                \/ DeleteDisk(t, ok) /\ Log(Ev("DeleteDisk", t, <<>>, <<>>, -1, ok))
          \/ CommitRollback(t) /\ Log(Ev("CommitRollback", t, <<>>, <<>>, -1, TRUE))
          \/ OpenApply(t) /\ Log(Ev("OpenApply", t, <<>>, <<>>, -1, TRUE))
          \/ DeleteRestore(t) /\ Log(Ev("DeleteRestore", t, <<>>, <<>>, -1, TRUE))
          \/ \E c \in OutChans : \E ks \in GOpen(c) :
                OpenCheck(t, ks) /\ Log(Ev("OpenCheck", t, Ins(ks), Outs(ks), -1, TRUE))
          \/ \E ks \in GDup : OpenCheck(t, ks) /\ Log(Ev("OpenCheck", t, Ins(ks), Outs(ks), -1, TRUE))
          \/ \E c \in OutChans : TrimMem(t, c) /\ Log(Ev("TrimMem", t, <<>>, <<>>, c, TRUE))
          \/ \E b \in GDelete : DeleteMem(t, b) /\ Log(Ev("DeleteMem", t, b, <<>>, -1, TRUE))
     \/ \E out \in GClose : Close(out) /\ Log(Ev("Close", 0, <<>>, <<out>>, -1, TRUE))
     \/ \E out \in OutKeys : AddResMsg(out) /\ Log(Ev("AddResMsg", 0, <<>>, <<out>>, -1, TRUE))
     \/ \E in \in GFail : Fail(in) /\ Log(Ev("Fail", 0, <<in>>, <<>>, -1, TRUE))
     \/ \E c \in OutChans : AdvanceIdx(c) /\ Log(Ev("AdvanceIdx", 0, <<>>, <<>>, c, TRUE))
     \/ \E c \in (InChans \cup OutChans) :
           Len(hist) >= CloseAfter /\ CloseChan(c) /\ Log(Ev("CloseChan", 0, <<>>, <<>>, c, TRUE))
     \/ \E c \in OutChans :
           Len(hist) >= CloseAfter /\
           \/ MarkChan(c, "borked") /\ Log(Ev("MarkBorked", 0, <<>>, <<>>, c, TRUE))
           \/ MarkChan(c, "commitbc") /\ Log(Ev("MarkCommitBroadcast", 0, <<>>, <<>>, c, TRUE))
     \/ GCrashOk /\ Crash /\ Log(Ev("Crash", 0, <<>>, <<>>, -1, TRUE))
     \/ \E ok \in {x \in BOOLEAN : GStartOk(x)} :
           \/ StartClean(ok) /\ Log(Ev("StartClean", 0, <<>>, <<>>, -1, ok))
           \/ StartRestore(ok) /\ Log(Ev("StartRestore", 0, <<>>, <<>>, -1, ok))
           \/ StartTrim(ok) /\ Log(Ev("StartTrim", 0, <<>>, <<>>, Head(trimTodo), ok))
GSpec == GInit /\ [][GNext]_<<vars, hist>>

Dump == (Len(hist) = MaxLen) =>
          ndJsonSerialize("b_" \o ToString(TLCGet("stats").traces) \o ".ndjson", hist)

\* Witness search (exhaustive BFS, VIEW without hist, Thin = FALSE, no-op calls skipped): the first
\* state that breaks the targeted part of the property is dumped with the schedule that leads to it.
GView == <<dAdds, dKeys, pending, opened, closed, mode, trimTodo, thr, closedChans, chanStatus, resMsgs,
           nextIdx, addsCount, respCount, snap, fresh, nops, ncrash, nfail>>
gcore == <<dAdds, dKeys, pending, opened, closed, mode, trimTodo, thr, closedChans, chanStatus, resMsgs,
           nextIdx, addsCount, respCount, ncrash, nfail>>
WSpec == GInit /\ [][GNext /\ gcore' # gcore]_<<vars, hist>>
Found(holds) == holds \/ ~ndJsonSerialize("witness.ndjson", hist)
WitnessForward == Found(AtMostOnceForward)
WitnessRestart == Found(RestartExact)
WitnessAgree   == Found(MemDiskAgree)
=============================================================================
