SPECIFICATION WSpec
CONSTANTS
  InChans = {0, 1}
  OutChans = {2}
  Ids = {0, 1}
  Threads = {1}
  MaxBatch = 2
  MaxOps = 4
  MaxCrash = 1
  MaxFail = 1
  Relaxed = {"TrimFail"}
  MaxLen = 1000
  CloseAfter = 0
  CrashEvery = 0
  Thin = FALSE
VIEW GView
INVARIANTS WitnessRestart
CHECK_DEADLOCK FALSE
