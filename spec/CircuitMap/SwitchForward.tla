--------------------------- MODULE SwitchForward ---------------------------
(***************************************************************************)
(* C07, switch level: the forwarding path of htlcswitch.Switch for the ADDs *)
(* of ONE forwarding package of an incoming channel (ids 0..N-1), towards a *)
(* peer that is reached over the channels OutChans.                         *)
(*                                                                          *)
(* The property (properties.jsonl C07): an incoming HTLC is handed to an    *)
(* outgoing channel at most once - for every point at which the sending     *)
(* link is stopped in the middle of a batch and every replay of the package *)
(* by the re-created link - and it is not lost either: an add whose circuit *)
(* stays committed must still be on its way.                                *)
(*                                                                          *)
(* State, as the code keeps it:                                             *)
(*   circ[k]   circuit map entry of the incoming key k: "none" | "half"     *)
(*             (committed, no keystone) | "open" (keystone written)         *)
(*   ackd      AckFilter of the incoming channel's forwarding package       *)
(*             (durable; an add is acked when the outgoing link commits it) *)
(*   pc, added, nx   the ForwardPackets call of the incoming link that is   *)
(*             in flight: "route" = circuits committed, added[nx] is the    *)
(*             next packet routeAsync offers to the forwarder               *)
(*   quit, fwded, links   the incoming link instance: its quit channel is   *)
(*             closed / it has forwarded the package / instances so far     *)
(*   fwdK, fwdD   the packet the switch's single htlcForwarder goroutine is *)
(*             busy with and the outgoing link it chose (handlePacketAdd)   *)
(*   elig      the outgoing links that are eligible to forward              *)
(*   q[c], p[c]   mailbox of outgoing link c: un-acked adds in order, and   *)
(*             how many of them the courier has delivered to the link since *)
(*             the last reset (= the link's uncommitted update log)         *)
(*   comm[c]   adds the outgoing link c has committed (circuit opened)      *)
(*                                                                          *)
(* One action per critical section of the code:                             *)
(*   Begin      ForwardPackets: quit check, CommitCircuits on the batch     *)
(*              (new key -> Adds, known key -> Drops); a batch without Adds *)
(*              returns at once                                              *)
(*   BeginQuit  ForwardPackets of a link that is already stopped: nothing   *)
(*   Route      routeAsync hands added[nx] to the forwarder (rendezvous on  *)
(*              htlcPlex: only when the forwarder is free); the forwarder   *)
(*              picks an eligible link; after the last packet the call      *)
(*              returns nil                                                  *)
(*   Abort      routeAsync gives up because the link's quit channel is      *)
(*              closed: DeleteCircuits of added[nx..] - the packets that    *)
(*              were NOT handed over - and the call returns an error        *)
(*   HandOver   the forwarder puts its packet into the chosen link's        *)
(*              mailbox (which ignores a key it already holds)              *)
(*   Take       the mailbox courier delivers the next add to the link       *)
(*   OutCommit  the outgoing link commits its update log: OpenCircuits,     *)
(*              mailbox acks, AckAddHtlcs in the incoming package           *)
(*   OutRestart the outgoing link restarts: its uncommitted log is lost,    *)
(*              ResetPackets re-delivers the un-acked adds                  *)
(*   Stop / Relink   the incoming link is stopped (peer reconnect) / a new  *)
(*              instance is created; every instance forwards the un-acked   *)
(*              adds of the package once (first time or replay)             *)
(*   SetElig    links become (in)eligible                                   *)
(*                                                                          *)
(* CONSTANT Rollback names what Abort deletes: "tail" is the code; "all"    *)
(* (every added circuit of the batch) and "none" are the defect controls    *)
(* that show the invariants are not vacuous.                                *)
(*                                                                          *)
(* Not modelled here: responses (C08 SwitchAck), node restart and Fails     *)
(* answers (CircuitMap), a failing CommitCircuits transaction (CircuitMap). *)
(***************************************************************************)
EXTENDS Integers, Sequences, FiniteSets

CONSTANTS N,               \* adds in the package
          OutChans,        \* channels to the next peer (positive integers)
          Rollback,        \* "tail" | "all" | "none"
          MaxLinks,        \* incoming link instances
          MaxOutRestarts   \* restarts of outgoing links

Ids  == 0 .. (N - 1)
None == -1
Range(s) == {s[i] : i \in DOMAIN s}

VARIABLES circ, ackd, pc, added, nx, quit, fwded, links, fwdK, fwdD, elig, q, p, comm,
          ret,    \* observation: result of the last ForwardPackets call that returned
          took,   \* observation: the add the last Take delivered
          nor     \* out-link restarts so far
svars == <<circ, ackd, pc, added, nx, quit, fwded, links, fwdK, fwdD, elig, q, p, comm, ret, took, nor>>

SInit == /\ circ = [k \in Ids |-> "none"] /\ ackd = {}
         /\ pc = "idle" /\ added = <<>> /\ nx = 1
         /\ quit = FALSE /\ fwded = FALSE /\ links = 1
         /\ fwdK = None /\ fwdD = None /\ elig = OutChans
         /\ q = [c \in OutChans |-> <<>>] /\ p = [c \in OutChans |-> 0]
         /\ comm = [c \in OutChans |-> {}]
         /\ ret = "none" /\ took = None /\ nor = 0

\* the batch a link instance hands to ForwardPackets: the un-acked adds of the package, in order
Unacked == SelectSeq([i \in 1..N |-> i - 1], LAMBDA k : k \notin ackd)
\* the update log of outgoing link c
Log(c) == {q[c][i] : i \in 1..p[c]}

Begin ==
  /\ pc = "idle" /\ ~fwded /\ ~quit /\ Unacked # <<>>
  /\ LET adds == SelectSeq(Unacked, LAMBDA k : circ[k] = "none") IN
     /\ circ' = [k \in Ids |-> IF k \in Range(adds) THEN "half" ELSE circ[k]]
     /\ added' = adds /\ nx' = 1
     /\ IF adds = <<>> THEN pc' = "idle" /\ ret' = "nil" ELSE pc' = "route" /\ ret' = ret
  /\ fwded' = TRUE /\ took' = None
  /\ UNCHANGED <<ackd, quit, links, fwdK, fwdD, elig, q, p, comm, nor>>

BeginQuit ==
  /\ pc = "idle" /\ ~fwded /\ quit /\ Unacked # <<>>
  /\ fwded' = TRUE /\ ret' = "nil" /\ took' = None
  /\ UNCHANGED <<circ, ackd, pc, added, nx, quit, links, fwdK, fwdD, elig, q, p, comm, nor>>

RouteTo(d) ==
  /\ pc = "route" /\ fwdK = None /\ d \in elig
  /\ fwdK' = added[nx] /\ fwdD' = d
  /\ IF nx = Len(added) THEN pc' = "idle" /\ ret' = "nil" /\ nx' = nx
                        ELSE pc' = "route" /\ ret' = ret /\ nx' = nx + 1
  /\ took' = None
  /\ UNCHANGED <<circ, ackd, added, quit, fwded, links, elig, q, p, comm, nor>>
Route == \E d \in OutChans : RouteTo(d)

RolledBack == CASE Rollback = "tail" -> {added[i] : i \in nx..Len(added)}
                [] Rollback = "all"  -> Range(added)
                [] OTHER             -> {}
Abort ==
  /\ pc = "route" /\ quit
  /\ circ' = [k \in Ids |-> IF k \in RolledBack THEN "none" ELSE circ[k]]
  /\ pc' = "idle" /\ ret' = "err" /\ took' = None
  /\ UNCHANGED <<ackd, added, nx, quit, fwded, links, fwdK, fwdD, elig, q, p, comm, nor>>

HandOver ==
  /\ fwdK # None
  /\ q' = [q EXCEPT ![fwdD] = IF fwdK \in Range(@) THEN @ ELSE Append(@, fwdK)]
  /\ fwdK' = None /\ fwdD' = None /\ took' = None
  /\ UNCHANGED <<circ, ackd, pc, added, nx, quit, fwded, links, elig, p, comm, ret, nor>>

Take(c) ==
  /\ p[c] < Len(q[c])
  /\ p' = [p EXCEPT ![c] = @ + 1] /\ took' = q[c][p[c] + 1]
  /\ UNCHANGED <<circ, ackd, pc, added, nx, quit, fwded, links, fwdK, fwdD, elig, q, comm, ret, nor>>

\* OpenCircuits refuses the whole batch if one circuit is unknown (the link then fails): with the
\* code's rollback every add in a link's log has its half-open circuit (HeldHasCircuit)
OutCommit(c) ==
  /\ p[c] > 0 /\ \A k \in Log(c) : circ[k] = "half"
  /\ circ' = [k \in Ids |-> IF k \in Log(c) THEN "open" ELSE circ[k]]
  /\ comm' = [comm EXCEPT ![c] = @ \cup Log(c)]
  /\ ackd' = ackd \cup Log(c)
  /\ q' = [q EXCEPT ![c] = SubSeq(@, p[c] + 1, Len(@))]
  /\ p' = [p EXCEPT ![c] = 0] /\ took' = None
  /\ UNCHANGED <<pc, added, nx, quit, fwded, links, fwdK, fwdD, elig, ret, nor>>

OutRestart(c) ==
  /\ p[c] > 0 /\ nor < MaxOutRestarts
  /\ p' = [p EXCEPT ![c] = 0] /\ nor' = nor + 1 /\ took' = None
  /\ UNCHANGED <<circ, ackd, pc, added, nx, quit, fwded, links, fwdK, fwdD, elig, q, comm, ret>>

Stop ==
  /\ ~quit /\ quit' = TRUE /\ took' = None
  /\ UNCHANGED <<circ, ackd, pc, added, nx, fwded, links, fwdK, fwdD, elig, q, p, comm, ret, nor>>

Relink ==
  /\ quit /\ pc = "idle" /\ links < MaxLinks
  /\ quit' = FALSE /\ fwded' = FALSE /\ links' = links + 1 /\ took' = None
  /\ UNCHANGED <<circ, ackd, pc, added, nx, fwdK, fwdD, elig, q, p, comm, ret, nor>>

SetElig(S) ==
  /\ S # {} /\ S # elig /\ elig' = S /\ took' = None
  /\ UNCHANGED <<circ, ackd, pc, added, nx, quit, fwded, links, fwdK, fwdD, q, p, comm, ret, nor>>

SNext == \/ Begin \/ BeginQuit \/ Route \/ Abort \/ HandOver \/ Stop \/ Relink
         \/ \E c \in OutChans : Take(c) \/ OutCommit(c) \/ OutRestart(c)
         \/ \E S \in SUBSET OutChans : SetElig(S)
SSpec == SInit /\ [][SNext]_svars

\* The call in flight moves on by itself: routeAsync is offering a packet and the forwarder is free
\* (Route follows), or the quit channel is closed (Abort follows).  Schedules for the executor take
\* exactly that step next, and what the real switch shows is compared in the other states.
Urgent == pc = "route" /\ (quit \/ fwdK = None)

---------------------------------------------------------------------------
TypeOK == /\ circ \in [Ids -> {"none", "half", "open"}] /\ ackd \subseteq Ids
          /\ pc \in {"idle", "route"} /\ (pc = "route" => nx \in 1..Len(added))
          /\ fwdK \in Ids \cup {None} /\ fwdD \in OutChans \cup {None}
          /\ elig \subseteq OutChans /\ elig # {}
          /\ \A c \in OutChans : p[c] \in 0..Len(q[c]) /\ comm[c] \subseteq Ids

\* how many outgoing update logs / commitments hold the HTLC k
Holders(k) == Cardinality({c \in OutChans : k \in Log(c)}) + Cardinality({c \in OutChans : k \in comm[c]})
\* THE property: an incoming HTLC is on at most one outgoing channel
AtMostOnceOut == \A k \in Ids : Holders(k) <= 1
\* ... and in at most one mailbox
OneMailbox == \A k \in Ids : Cardinality({c \in OutChans : k \in Range(q[c])}) <= 1
\* a packet that was handed to the forwarder keeps its circuit: the outgoing link can open it and
\* a replay of the batch drops it as a duplicate
HeldHasCircuit == /\ fwdK # None => circ[fwdK] = "half"
                  /\ \A c \in OutChans : \A k \in Range(q[c]) : circ[k] = "half"
                  /\ \A c \in OutChans : \A k \in comm[c] : circ[k] = "open"
\* a circuit is open exactly if an outgoing link committed the add; only those are acked
OpenIffCommitted == /\ \A k \in Ids : circ[k] = "open" <=> \E c \in OutChans : k \in comm[c]
                    /\ \A k \in ackd : circ[k] = "open"
\* not lost: an un-acked add whose circuit is committed is still on its way (a replay would drop it)
NotLost == \A k \in Ids : circ[k] = "half" =>
              \/ pc = "route" /\ \E i \in nx..Len(added) : added[i] = k
              \/ fwdK = k
              \/ \E c \in OutChans : k \in Range(q[c])
=============================================================================
